/-
  C09 (Markdown round trip), fourth fragment: SETEXT HEADINGS and HTML BLOCKS in the renderer's normal form, added to
  the blocks of `Proofs/MdRoundCode.lean` (`Blk2`: prose paragraphs, ATX headings, thematic breaks, fenced and indented
  code blocks).

  * setext heading `Blk3.setext lines ind c len`: one or more inert prose lines (as for a paragraph), then the underline
    `ind` spaces (0-3) + `len ≥ 1` copies of `c` (`=`: level 1, `-`: level 2) + "\n".  `render_setext_heading` writes the
    content lines and `token.underline`, which `SetextHeading.__init__` set to `lines.pop().rstrip()`: indentation and
    length of the underline are kept, whitespace behind it is not (hence none in the normal form).  The facts about the
    block scanners that `Proofs/ComposeCode.lean` asks of an underline (`UlOk`) are PROVED from this shape (`ulOk_line`).
  * HTML block `Blk3.html lines`: the first line has at most three spaces, then `<`, and `HtmlBlock.start` answers 6 or 7
    (`_end_cond = None`); every line is one complete non-blank line; nothing else is asked of the content lines (they
    are not parsed).  `HtmlBlock.read` keeps the lines up to the next blank line, the token holds them joined without
    the last "\n", `render_html_block` splits at "\n".  `htmlStart_tag`: every line `<name…` / `</name…` with a name of
    `span_token._tags` (any letter case) followed by `>`, `/>`, a space or the line end is a start of condition 6.

  Chain, as for `Blk2`: `tokenize_items3` (block phase under the Markdown renderer's token list; in every parser state
  whose `Paragraph.parse_setext` is on when the document has a setext heading) → `mkBlocks_itemEntries3` →
  `renderBlocks_items3` → `itemsOut3_lines`.  Main theorems (namespace `Mistletoe.MdRoundSetext`):
  `C09_setext_blocks_exact_partial` (top level), `C09_quoted_html_blocks_exact_partial` (inside `k` block quotes, for
  documents without setext headings: finding `setext-in-quote`), `C09_setext_roundtrip_partial`,
  `C09_quoted_html_roundtrip_partial` (from the `str`, `Config.markdown`, idempotence, same meaning).
-/
import Mistletoe.Proofs.ComposeCode
namespace Mistletoe.MdRound
open Mistletoe Mistletoe.Py Mistletoe.Scan Mistletoe.Wrap Mistletoe.Markdown Mistletoe.InertInline
open Mistletoe.Block hiding numbered numbered_cons numbered_append
open Mistletoe.Props.C14 (inertLine markdownTypes numbered numbered_cons numbered_append numbered_length numbered_s numbered_mem)
open Mistletoe.ComposeC (UlOk readParagraph_setext tryTypes_quiet_setext readTable_none_nobar)

/-! ### the underline of a setext heading, as the renderer writes it

  `SetextHeading.__init__`: `self.underline = lines.pop().rstrip()`; `render_setext_heading` yields the content lines
  and then `token.underline`.  So the underline comes back with its indentation (0-3 spaces) and its run of `=` or `-`,
  without trailing whitespace. -/

/-- the underline line: `n` spaces, `m` copies of `c`, "\n" -/
def ulLine (n : Nat) (c : Char) (m : Nat) : Str := List.replicate n ' ' ++ List.replicate m c ++ ['\n']

/-- the underline characters -/
def ulCh (c : Char) : Prop := c = '=' ∨ c = '-'

theorem ulLine_succ (n : Nat) (c : Char) (k : Nat) :
    ulLine n c (k + 1) = List.replicate n ' ' ++ c :: (List.replicate k c ++ ['\n']) := by
  simp [ulLine, List.replicate_succ]

theorem ulCh_ne (c : Char) (hc : ulCh c) :
    c ≠ ' ' ∧ c ≠ '\t' ∧ c ≠ '\n' ∧ c ≠ '#' ∧ c ≠ '>' ∧ c ≠ '`' ∧ c ≠ '~' ∧ c ≠ '<' ∧ c ≠ '|' ∧ pyIsSpace c = false ∧
      isLineSep c = false := by
  rcases hc with rfl | rfl <;> decide

/-- no HTML block starts on a line whose first visible character is not `<` -/
theorem nolt_html (n : Nat) (hn : n < 4) (c : Char) (hsp : pyIsSpace c = false) (hlt : c ≠ '<') (s : Str) :
    htmlBlockStart (List.replicate n ' ' ++ c :: s) = .ok none := by
  unfold htmlBlockStart
  simp only [lstrip_rep n c s hsp]
  have hlen : ¬ ((List.replicate n ' ' ++ c :: s).length - (c :: s).length ≥ 4) := by simp; omega
  simp only [hlen, if_false]
  have hm : multiblock (c :: s) = none := by unfold multiblock; split <;> simp_all
  have hs : ∀ p : Str, startsWith ('<' :: p) (c :: s) = false := by
    intro p; simp [startsWith, isPrefix_ne _ _ _ _ hlt]
  have hr : htmlRest (c :: s) = none := by
    unfold htmlRest
    have h1 : predefined (c :: s) = none := by unfold predefined; split <;> simp_all
    have h2 : customTag (c :: s) = false := by
      unfold customTag
      have a : openTag (c :: s) = none := by unfold openTag; split <;> simp_all
      have b : closingTag (c :: s) = none := by unfold closingTag; split <;> simp_all
      simp [a, b]
    simp [h1, h2]
  have e1 : "<!--".toList = '<' :: ['!', '-', '-'] := by decide
  have e2 : "<?".toList = '<' :: ['?'] := by decide
  have e3 : "<!".toList = '<' :: ['!'] := by decide
  simp only [hm, e1, e2, e3, hs, hr, Bool.false_eq_true, if_false]

theorem span_rep (c : Char) (k : Nat) (hnl : c ≠ '\n') :
    span (· == c) (c :: (List.replicate k c ++ ['\n'])) = (c :: List.replicate k c, ['\n']) := by
  have := span_append (· == c) (c :: List.replicate k c) ['\n']
    (by intro x hx
        rcases List.mem_cons.mp hx with rfl | hx
        · simp
        · simp only [List.mem_replicate] at hx; simp [hx.2])
    (by intro x hx; simp at hx; subst hx; simpa using Ne.symm hnl)
  simpa using this

theorem ul_setext (n : Nat) (hn : n < 4) (c : Char) (hc : ulCh c) (k : Nat) : setext (ulLine n c (k + 1)) = true := by
  obtain ⟨h1, _, h3, _⟩ := ulCh_ne c hc
  rw [ulLine_succ]
  unfold setext
  rw [upTo3_rep n c _ h1 hn]
  have hs := span_rep c k h3
  rcases hc with rfl | rfl
  · simp only [List.head?_cons, beq_self_eq_true, if_true, hs]
    simp [span, atEnd]
  · have : ((some '-' : Option Char) == some '=') = false := by decide
    simp only [List.head?_cons, this, Bool.false_eq_true, if_false, hs]
    simp [span, atEnd]

theorem ul_heading (n : Nat) (hn : n < 4) (c : Char) (hc : ulCh c) (k : Nat) : Scan.heading (ulLine n c (k + 1)) = none := by
  obtain ⟨h1, _, _, h4, _⟩ := ulCh_ne c hc
  rw [ulLine_succ]
  unfold Scan.heading
  rw [upTo3_rep n c _ h1 hn]
  simp [span, h4]

theorem ul_quote (n : Nat) (c : Char) (hc : ulCh c) (k : Nat) : quoteStart (ulLine n c (k + 1)) = false := by
  obtain ⟨h1, _, _, _, h5, _⟩ := ulCh_ne c hc
  rw [ulLine_succ]
  unfold quoteStart
  simp [lstripSp_rep n c _ h1, startsWith, isPrefix_ne _ _ _ _ h5]

theorem ul_codeFence (n : Nat) (hn : n < 4) (c : Char) (hc : ulCh c) (k : Nat) : codeFenceStart (ulLine n c (k + 1)) = none := by
  obtain ⟨h1, _, _, _, _, h6, h7, _⟩ := ulCh_ne c hc
  rw [ulLine_succ]
  unfold codeFenceStart Scan.codeFence
  rw [upTo3_rep n c _ h1 hn]
  simp [h6, h7]

theorem ul_nonblank (n : Nat) (c : Char) (hc : ulCh c) (k : Nat) : isBlank (ulLine n c (k + 1)) = false := by
  have := (ulCh_ne c hc).2.2.2.2.2.2.2.2.2.1
  rw [ulLine_succ]
  simp [isBlank, this]

/-- `-` alone begins an EMPTY list item, which does not interrupt a paragraph; `--…` and `=…` are no list markers -/
theorem ul_list (n : Nat) (hn : n < 4) (c : Char) (hc : ulCh c) (k : Nat) : listInterrupts (ulLine n c (k + 1)) = false := by
  rcases hc with rfl | rfl
  · rw [ulLine_succ]
    unfold listInterrupts parseMarker Scan.listItem
    rw [upTo3_rep n '=' _ (by decide) hn]
    have : listMarker ('=' :: (List.replicate k '=' ++ ['\n'])) = none := by
      unfold listMarker
      simp [span, show isDigit '=' = false by decide]
    simp only [this]
  · cases k with
    | zero =>
      obtain rfl | rfl | rfl | rfl : n = 0 ∨ n = 1 ∨ n = 2 ∨ n = 3 := by omega
      all_goals decide
    | succ j =>
      rw [ulLine_succ]
      unfold listInterrupts parseMarker Scan.listItem
      rw [upTo3_rep n '-' _ (by decide) hn]
      have : listMarker ('-' :: (List.replicate (j + 1) '-' ++ ['\n'])) = some (['-'], List.replicate (j + 1) '-' ++ ['\n']) := by
        unfold listMarker; simp
      simp only [this]
      simp [List.replicate_succ, atEnd, span, ws, show pyIsSpace '-' = false by decide]

/-- `rstrip` of text + "\n" where the text ends in a visible character -/
theorem rstrip_line (v : Str) (x : Char) (hx : pyIsSpace x = false) : rstrip (v ++ [x] ++ ['\n']) = v ++ [x] := by
  unfold rstrip
  have e : (v ++ [x] ++ ['\n']).reverse = '\n' :: x :: v.reverse := by simp
  rw [e]
  simp [lstrip, hx, show pyIsSpace '\n' = true by decide]

theorem ulLine_body (n : Nat) (c : Char) (k : Nat) :
    ulLine n c (k + 1) = (List.replicate n ' ' ++ List.replicate k c) ++ [c] ++ ['\n'] := by
  simp [ulLine, List.replicate_succ']

theorem ul_rstrip (n : Nat) (c : Char) (hc : ulCh c) (k : Nat) :
    rstrip (ulLine n c (k + 1)) = List.replicate n ' ' ++ List.replicate (k + 1) c := by
  rw [ulLine_body, rstrip_line _ _ (ulCh_ne c hc).2.2.2.2.2.2.2.2.2.1]
  simp [List.replicate_succ']

/-- the level `SetextHeading.__init__` computes: `1 if self.underline.endswith('=') else 2` -/
def ulLevel (c : Char) : Nat := if c = '=' then 1 else 2

theorem ul_level (n : Nat) (c : Char) (hc : ulCh c) (k : Nat) :
    (if (rstrip (ulLine n c (k + 1))).getLast? == some '=' then 1 else 2) = ulLevel c := by
  rw [ulLine_body, rstrip_line _ _ (ulCh_ne c hc).2.2.2.2.2.2.2.2.2.1]
  rcases hc with rfl | rfl <;> simp [ulLevel]

/-- the facts `Proofs/ComposeCode.lean` needs about an underline, from its shape -/
theorem ulOk_line (n : Nat) (hn : n < 4) (c : Char) (hc : ulCh c) (k : Nat) : UlOk (ulLevel c) (ulLine n c (k + 1)) := by
  obtain ⟨h1, h2, h3, _, _, _, _, h8, h9, h10, h11⟩ := ulCh_ne c hc
  have hmem : ∀ x ∈ List.replicate n ' ' ++ List.replicate (k + 1) c, x = ' ' ∨ x = c := by
    intro x hx
    rcases List.mem_append.mp hx with hx | hx
    · exact Or.inl (List.mem_replicate.mp hx).2
    · exact Or.inr (List.mem_replicate.mp hx).2
  refine ⟨⟨List.replicate n ' ' ++ List.replicate (k + 1) c, rfl, ?_, ?_⟩, ?_, ul_nonblank n c hc k, ul_heading n hn c hc k,
    ul_quote n c hc k, ul_codeFence n hn c hc k, ul_list n hn c hc k, ?_, ul_setext n hn c hc k, ?_, ?_⟩
  · intro x hx
    rcases hmem x hx with rfl | rfl
    · decide
    · exact h11
  · intro hx
    rcases hmem _ hx with e | e
    · revert e; decide
    · exact h2 e.symm
  · have : '|' ∉ ulLine n c (k + 1) := by
      intro hx
      simp only [ulLine, List.mem_append, List.mem_singleton] at hx
      rcases hx with hx | hx
      · rcases hmem _ (List.mem_append.mpr hx) with e | e
        · revert e; decide
        · exact h9 e.symm
      · revert hx; decide
    simpa using this
  · rw [ulLine_succ]; exact nolt_html n hn c h10 h8 _
  · rcases hc with rfl | rfl
    · rw [ulLine_body, rstrip_line _ _ (by decide)]; simp [ulLevel]
    · rw [ulLine_body, rstrip_line _ _ (by decide)]; simp [ulLevel]
  · rcases hc with rfl | rfl
    · exact Or.inl rfl
    · exact Or.inr rfl

/-! ### `Paragraph.read` producing a setext heading, under the Markdown renderer's token list -/

theorem fw_eq (a b : List Line) (i j s : Nat) (h1 : a = b) (h2 : i = j) : (⟨a, i, s⟩ : FW) = ⟨b, j, s⟩ := by
  subst h1; subst h2; rfl

/-- a setext heading: quiet text lines, then the underline; `Paragraph` is the type that starts, and with
    `parse_setext` on it returns the lines for a `SetextHeading` -/
theorem tokLoop_setext_step (cfg : Cfg) (hty : cfg.types = markdownTypes) (g : Nat) (l ul : Line) (para pre post : List Line)
    (hl : Quiet l.s) (hq : ∀ x ∈ para, Quiet x.s) (lv : Nat) (hu : UlOk lv ul.s)
    (hb : ∀ b, post.head? = some b → b.s = ['\n']) (start : Nat) (st : St) (hs : st.setext = true)
    (acc : List Entry) (loose : Bool) :
    tokLoop cfg (g + 12) ⟨pre ++ (l :: para ++ ul :: post), pre.length, start⟩ st acc loose =
      tokLoop cfg (g + 11) ⟨(pre ++ (l :: para ++ [ul])) ++ post, (pre ++ (l :: para ++ [ul])).length, start⟩ st
        (.setext ((l :: para).map (·.s) ++ [ul.s]) (start + pre.length) l.origin :: acc) loose := by
  have hp := peek_at pre l (para ++ ul :: post) start
  have hR := readParagraph_setext cfg start lv l ul hu para pre post hq
    (by intro b hb'; rw [hb b hb']; decide)
  have ht : readTable ⟨pre ++ l :: (para ++ ul :: post), pre.length, start⟩ = none := by
    cases para with
    | nil => exact readTable_none_nobar pre l _ start (by intro l' h'; simp at h'; subst h'; exact hu.nobar)
    | cons x xs => exact readTable_none pre l _ start (by intro l' h'; simp at h'; subst h'; exact (hq _ (by simp)).dr)
  simp only [List.cons_append] at hR
  have hT := tryTypes_quiet_setext cfg ⟨pre ++ l :: (para ++ ul :: post), pre.length, start⟩ st l _ _ hl ht
    (by rw [hs]; exact hR) cfg.types (g + 11) (mdTypes_par cfg hty) (by rw [mdTypes_len cfg hty]; omega)
  have e : g + 12 = (g + 11) + 1 := by omega
  rw [e]
  generalize g + 11 = G at hT ⊢
  simp only [tokLoop, List.cons_append, hp, hT]
  congr 1
  apply fw_eq
  · simp
  · simp only [List.length_append, List.length_cons, List.length_nil]

/-! ### `HtmlBlock.read` for start conditions 6 and 7 (`_end_cond = None`): the lines up to the next blank line -/

theorem htmlBlockLoop_run (post : List Line) (start : Nat) (hb : ∀ b, post.head? = some b → isBlank b.s = true) :
    ∀ (cs pre : List Line) (buf : List Str) (fuel : Nat), (∀ x ∈ cs, isBlank x.s = false) → cs.length < fuel →
      htmlBlockLoop none fuel ⟨pre ++ (cs ++ post), pre.length, start⟩ buf =
        ((cs.map (·.s)).reverse ++ buf, ⟨(pre ++ cs) ++ post, (pre ++ cs).length, start⟩)
  | [], pre, buf, fuel, _, hf => by
    obtain ⟨f, rfl⟩ : ∃ f, fuel = f + 1 := ⟨fuel - 1, by simp at hf; omega⟩
    cases post with
    | nil => simp [htmlBlockLoop, peek_end]
    | cons b post' =>
      have hbb := hb b rfl
      simp only [List.nil_append, htmlBlockLoop, peek_at, hbb, if_true]
      simp [FW.next, FW.backstep]
  | x :: cs, pre, buf, fuel, h, hf => by
    obtain ⟨f, rfl⟩ : ∃ f, fuel = f + 1 := ⟨fuel - 1, by simp at hf; omega⟩
    have hx := h x (by simp)
    have ih := htmlBlockLoop_run post start hb cs (pre ++ [x]) (x.s :: buf) f
      (fun y hy => h y (List.mem_cons_of_mem _ hy)) (by simp at hf; omega)
    rw [List.cons_append]
    simp only [htmlBlockLoop, peek_at, hx, Bool.false_eq_true, if_false, fw_next]
    rw [ih]
    simp

theorem readHtmlBlock_run (cs pre post : List Line) (start : Nat) (hb : ∀ b, post.head? = some b → isBlank b.s = true)
    (h : ∀ x ∈ cs, isBlank x.s = false) :
    readHtmlBlock ⟨pre ++ (cs ++ post), pre.length, start⟩ none =
      (cs.map (·.s), ⟨(pre ++ cs) ++ post, (pre ++ cs).length, start⟩) := by
  unfold readHtmlBlock
  rw [htmlBlockLoop_run post start hb cs pre [] _ h (by simp [FW.remaining]; omega)]
  simp

theorem lt_blockCode (n : Nat) (hn : n < 4) (t : Str) : blockCodeStart (List.replicate n ' ' ++ '<' :: t) = false := by
  unfold blockCodeStart replaceTab1
  have hs : (' ' : Char) ≠ '\t' := by decide
  have h1 : ('<' : Char) ≠ '\t' := by decide
  have h2 : ('<' : Char) ≠ ' ' := by decide
  obtain rfl | rfl | rfl | rfl : n = 0 ∨ n = 1 ∨ n = 2 ∨ n = 3 := by omega
  all_goals simp [List.replicate, replaceTab_plain _ _ h1, replaceTab_plain _ _ hs, startsWith, isPrefix_ne _ _ _ _ h2]

/-- an HTML block of start condition 6 or 7: `HtmlBlock` is the first type of the Markdown renderer's list that
    starts on its first line; `read` takes the lines up to the blank line (or the end) -/
theorem tokLoop_html_step (cfg : Cfg) (hty : cfg.types = markdownTypes) (g : Nat) (l : Line) (cs pre post : List Line)
    (n : Nat) (t : Str) (hl : l.s = List.replicate n ' ' ++ '<' :: t) (r : Nat) (hst : htmlBlockStart l.s = .ok (some (r, none)))
    (hnb : ∀ x ∈ l :: cs, isBlank x.s = false) (hb : ∀ b, post.head? = some b → b.s = ['\n'])
    (start : Nat) (st : St) (acc : List Entry) (loose : Bool) :
    tokLoop cfg (g + 4) ⟨pre ++ (l :: cs ++ post), pre.length, start⟩ st acc loose =
      tokLoop cfg (g + 3) ⟨(pre ++ l :: cs) ++ post, (pre ++ l :: cs).length, start⟩ st
        (.htmlBlock ((l :: cs).map (·.s)) (start + pre.length) l.origin :: acc) loose := by
  have f1 : startsWith ['['] (lstrip l.s) = false := by
    rw [hl, lstrip_rep n '<' t (by decide)]; simp [startsWith, isPrefix_ne]
  have f2 : Scan.blankLine l.s = false := by
    have : l.s.all ws = false := hnb l (by simp)
    simp only [Scan.blankLine, this, Bool.false_and]
  have hrd := readHtmlBlock_run (l :: cs) pre post start (by intro b hb'; rw [hb b hb']; decide) hnb
  have e : g + 4 = (((g + 1) + 1) + 1) + 1 := by omega
  rw [e]
  simp only [List.cons_append] at hrd ⊢
  simp only [tokLoop, peek_at, hty, markdownTypes, tryTypes, f1, f2, hst, hrd, Bool.false_eq_true, if_false]

/-! ### the fragment with setext headings and HTML blocks -/

/-- a block of the fourth fragment: a block of the third one (`Blk2`), a setext heading (text lines, then the
    underline `ind` spaces + `len` copies of `c`), or an HTML block (its lines) -/
inductive Blk3 where
  | blk2 (b : Blk2)
  | setext (lines : List Str) (ind : Nat) (c : Char) (len : Nat)
  | html (lines : List Str)

/-- the source lines of one block, as the renderer writes them -/
def Blk3.lines : Blk3 → List Str
  | .blk2 b => b.lines
  | .setext ls n c m => ls ++ [ulLine n c m]
  | .html ls => ls

/-- `HtmlBlock.start(line)` returns 6 or 7 (the two start conditions with `_end_cond = None`) -/
def htmlOpen (s : Str) : Bool :=
  match htmlBlockStart s with
  | .ok (some (_, none)) => true
  | _ => false

/-- the first line of an HTML block in normal form: at most three spaces, then `<`, and `HtmlBlock.start` answers
    6 (a tag name of `span_token._tags`) or 7 (a complete open or closing tag alone on its line) -/
def htmlFirstOk (s : Str) : Bool :=
  decide (countLeading ' ' s ≤ 3) && (s.drop (countLeading ' ' s)).head? == some '<' && htmlOpen s

/-- a line of an HTML block: one complete line, not blank (a blank line ends the block) -/
def htmlLineOk (l : Str) : Bool := oneLine l && !isBlank l

/-- normal form (decidable).  `Blk2`: as before.  Setext heading: the text lines as for a paragraph (`Blk.para`); the
    underline has at most three spaces of indentation, then one or more `=` (level 1) or `-` (level 2), and nothing
    behind them (`SetextHeading.__init__` keeps `lines.pop().rstrip()`).  HTML block: the first line `htmlFirstOk`,
    every line `htmlLineOk`; the content lines are otherwise arbitrary (they are not parsed). -/
def Blk3.ok : Blk3 → Bool
  | .blk2 b => b.ok
  | .setext ls n c m => (Blk.para ls).ok && decide (n ≤ 3) && decide (1 ≤ m) && (c == '=' || c == '-')
  | .html ls => (match ls.head? with | some s => htmlFirstOk s | none => false) && ls.all htmlLineOk

def Blk3.isICode : Blk3 → Bool
  | .blk2 b => b.isICode
  | _ => false

def Blk3.isSetext : Blk3 → Bool
  | .setext .. => true
  | _ => false

/-- no two indented code blocks next to each other (the parser reads them as one block) -/
def adjOk3 : Blk3 → List Blk3 → Bool
  | _, [] => true
  | it, it' :: rest => !(it.isICode && it'.isICode) && adjOk3 it' rest

/-- blocks separated by exactly one "\n" line -/
def itemsLines3 : Blk3 → List Blk3 → List Str
  | it, [] => it.lines
  | it, it' :: rest => it.lines ++ ['\n'] :: itemsLines3 it' rest

structure SetextOk (ls : List Str) (n : Nat) (c : Char) (m : Nat) : Prop where
  para : BlkParaFacts ls
  ind : n < 4
  ch : ulCh c
  len : ∃ k, m = k + 1

theorem setextOk_of (ls : List Str) (n : Nat) (c : Char) (m : Nat) (h : (Blk3.setext ls n c m).ok = true) : SetextOk ls n c m := by
  simp only [Blk3.ok, Bool.and_eq_true, decide_eq_true_eq, Bool.or_eq_true, beq_iff_eq] at h
  obtain ⟨⟨⟨h1, h2⟩, h3⟩, h4⟩ := h
  exact ⟨itemParaFacts_of ls h1, by omega, h4, ⟨m - 1, by omega⟩⟩

structure HtmlOk (ls : List Str) : Prop where
  first : ∃ n t rest r, n < 4 ∧ ls = (List.replicate n ' ' ++ '<' :: t) :: rest ∧
    htmlBlockStart (List.replicate n ' ' ++ '<' :: t) = .ok (some (r, none))
  one : ∀ l ∈ ls, oneLine l = true
  nb : ∀ l ∈ ls, isBlank l = false

theorem htmlOk_of (ls : List Str) (h : (Blk3.html ls).ok = true) : HtmlOk ls := by
  simp only [Blk3.ok, Bool.and_eq_true, List.all_eq_true, htmlLineOk, Bool.not_eq_eq_eq_not, Bool.not_true] at h
  obtain ⟨h1, h2⟩ := h
  refine ⟨?_, fun l hl => (h2 l hl).1, fun l hl => (h2 l hl).2⟩
  cases ls with
  | nil => simp at h1
  | cons s rest =>
    simp only [List.head?_cons, htmlFirstOk, Bool.and_eq_true, decide_eq_true_eq, beq_iff_eq] at h1
    obtain ⟨⟨a, b⟩, c⟩ := h1
    have hsplit := countLeading_split s
    obtain ⟨t, ht⟩ : ∃ t, s.drop (countLeading ' ' s) = '<' :: t := by
      cases hd : s.drop (countLeading ' ' s) with
      | nil => rw [hd] at b; simp at b
      | cons x t => rw [hd] at b; simp at b; exact ⟨t, by rw [b]⟩
    rw [ht] at hsplit
    have hopen : ∃ r, htmlBlockStart s = .ok (some (r, none)) := by
      unfold htmlOpen at c
      split at c
      · rename_i r heq; exact ⟨r, heq⟩
      · cases c
    obtain ⟨r, hr⟩ := hopen
    exact ⟨countLeading ' ' s, t, rest, r, by omega, by rw [← hsplit], by rw [← hsplit]; exact hr⟩

/-! ### one step of the loop per block -/

/-- the parse-buffer entry of a block whose first line is line `ln` (ghost origin `og`) -/
def itemEntry3 (ln og : Nat) : Blk3 → Entry
  | .blk2 b => itemEntry2 ln og b
  | .setext ls n c m => .setext (ls ++ [ulLine n c m]) ln og
  | .html ls => .htmlBlock ls ln og

theorem tokLoop_item3_step (cfg : Cfg) (hty : cfg.types = markdownTypes) (it : Blk3) (hok : it.ok = true) (g : Nat)
    (pre post : List Line) (hb : ∀ b, post.head? = some b → b.s = ['\n']) (hstop : it.isICode = true → CodeStop post)
    (start : Nat) (st : St) (hs : it.isSetext = true → st.setext = true) (acc : List Entry) (loose : Bool) :
    tokLoop cfg (g + 12) ⟨pre ++ (numbered pre.length it.lines ++ post), pre.length, start⟩ st acc loose =
      tokLoop cfg (g + 11) ⟨(pre ++ numbered pre.length it.lines) ++ post, (pre ++ numbered pre.length it.lines).length, start⟩ st
        (itemEntry3 (start + pre.length) (pre.length + 1) it :: acc) loose := by
  cases it with
  | blk2 b => exact tokLoop_item2_step cfg hty b hok g pre post hb hstop start st acc loose
  | setext ls n c m =>
    have f := setextOk_of ls n c m hok
    obtain ⟨k, rfl⟩ := f.len
    cases ls with
    | nil => exact absurd rfl f.para.ne
    | cons s q' =>
      have hq : ∀ x ∈ numbered (pre.length + 1) q', Quiet x.s :=
        fun x hx => Mistletoe.Props.C14.inertLine_quiet _ (f.para.inert _ (List.mem_cons_of_mem _ (numbered_mem _ _ _ hx)))
      have h1 := tokLoop_setext_step cfg hty g { s := s, origin := pre.length + 1 }
        { s := ulLine n c (k + 1), origin := pre.length + 1 + q'.length + 1 } (numbered (pre.length + 1) q') pre post
        (Mistletoe.Props.C14.inertLine_quiet _ (f.para.inert s (by simp))) hq (ulLevel c) (ulOk_line n f.ind c f.ch k) hb
        start st (hs rfl) acc loose
      have e : numbered pre.length (Blk3.setext (s :: q') n c (k + 1)).lines =
          { s := s, origin := pre.length + 1 } :: (numbered (pre.length + 1) q' ++
            [{ s := ulLine n c (k + 1), origin := pre.length + 1 + q'.length + 1 }]) := by
        simp only [Blk3.lines, List.cons_append, numbered_cons, numbered_append]
        rfl
      rw [e]
      simp only [itemEntry3, List.map_cons, numbered_s, List.cons_append, List.append_assoc] at h1 ⊢
      exact h1
  | html ls =>
    have f := htmlOk_of ls hok
    obtain ⟨n, t, rest, r, hn, rfl, hst⟩ := f.first
    have hnb : ∀ x ∈ ({ s := List.replicate n ' ' ++ '<' :: t, origin := pre.length + 1 } : Line) :: numbered (pre.length + 1) rest,
        isBlank x.s = false := by
      intro x hx
      rw [← numbered_cons] at hx
      exact f.nb _ (numbered_mem _ _ _ hx)
    have h1 := tokLoop_html_step cfg hty (g + 8) { s := List.replicate n ' ' ++ '<' :: t, origin := pre.length + 1 }
      (numbered (pre.length + 1) rest) pre post n t rfl r hst hnb hb start st acc loose
    simp only [Blk3.lines, numbered_cons, itemEntry3, List.map_cons, numbered_s, List.cons_append] at h1 ⊢
    exact h1

/-! ### the loop over a document of blocks -/

/-- the entries of a document: one per block, one `BlankLine` per separator -/
def itemEntries3 (ln og : Nat) : Blk3 → List Blk3 → List Entry
  | it, [] => [itemEntry3 ln og it]
  | it, it' :: rest =>
    itemEntry3 ln og it :: .blankLine (ln + it.lines.length) (og + it.lines.length) ::
      itemEntries3 (ln + it.lines.length + 1) (og + it.lines.length + 1) it' rest

/-- the first line of a block other than indented code: not blank, not indented code -/
theorem first_line_flush3 (it : Blk3) (hok : it.ok = true) (hni : it.isICode = false) :
    ∃ s ls, it.lines = s :: ls ∧ isBlank s = false ∧ blockCodeStart s = false := by
  cases it with
  | blk2 b => exact first_line_flush b hok hni
  | setext q n c m =>
    have f := (setextOk_of q n c m hok).para
    cases q with
    | nil => exact absurd rfl f.ne
    | cons s q' =>
      have hq := Mistletoe.Props.C14.inertLine_quiet _ (f.inert s (by simp))
      exact ⟨s, q' ++ [ulLine n c m], rfl, hq.nb, hq.bc⟩
  | html ls =>
    have f := htmlOk_of ls hok
    obtain ⟨n, t, rest, r, hn, rfl, _⟩ := f.first
    exact ⟨_, rest, rfl, f.nb _ (by simp), lt_blockCode n hn t⟩

theorem itemsLines3_head (it : Blk3) (rest : List Blk3) (s : Str) (ls : List Str) (h : it.lines = s :: ls) :
    ∃ ls', itemsLines3 it rest = s :: ls' := by
  cases rest with
  | nil => exact ⟨ls, by simp [itemsLines3, h]⟩
  | cons it' rest => exact ⟨ls ++ ['\n'] :: itemsLines3 it' rest, by simp only [itemsLines3, h, List.cons_append]⟩

theorem tokLoop_items3 (cfg : Cfg) (hty : cfg.types = markdownTypes) (start : Nat) (st : St) :
    ∀ (rest : List Blk3) (it : Blk3) (pre : List Line) (acc : List Entry) (loose : Bool) (gas : Nat),
      it.ok = true → (∀ x ∈ rest, x.ok = true) → adjOk3 it rest = true →
      (∀ x ∈ it :: rest, x.isSetext = true → st.setext = true) → 2 * rest.length + 13 ≤ gas →
      tokLoop cfg gas ⟨pre ++ numbered pre.length (itemsLines3 it rest), pre.length, start⟩ st acc loose =
        .ok ({ entries := acc.reverse ++ itemEntries3 (start + pre.length) (pre.length + 1) it rest, loose := loose }, st)
  | [], it, pre, acc, loose, gas, hok, _, _, hsx, hg => by
    obtain ⟨g, rfl⟩ : ∃ g, gas = g + 12 := ⟨gas - 12, by simp only [List.length_nil] at hg; omega⟩
    have h1 := tokLoop_item3_step cfg hty it hok g pre [] (by simp) (fun _ => Or.inl rfl) start st (hsx it (by simp)) acc loose
    simp only [List.append_nil] at h1
    simp only [itemsLines3, itemEntries3]
    rw [h1, tokLoop_end]
    simp
  | it' :: rest, it, pre, acc, loose, gas, hok, hr, hadj, hsx, hg => by
    simp only [List.length_cons] at hg
    obtain ⟨g, rfl⟩ : ∃ g, gas = g + 12 := ⟨gas - 12, by omega⟩
    simp only [adjOk3, Bool.and_eq_true, Bool.not_eq_eq_eq_not, Bool.not_true, Bool.and_eq_false_iff] at hadj
    let n := it.lines.length
    let b : Line := { s := ['\n'], origin := pre.length + n + 1 }
    have hlines : numbered pre.length (itemsLines3 it (it' :: rest)) =
        numbered pre.length it.lines ++ b :: numbered (pre.length + n + 1) (itemsLines3 it' rest) := by
      simp only [itemsLines3, numbered_append, numbered_cons]
      rfl
    have hstop : it.isICode = true → CodeStop (b :: numbered (pre.length + n + 1) (itemsLines3 it' rest)) := by
      intro hi
      have hni : it'.isICode = false := by
        rcases hadj.1 with h | h
        · rw [hi] at h; cases h
        · exact h
      obtain ⟨s, ls, h1, h2, h3⟩ := first_line_flush3 it' (hr it' (by simp)) hni
      obtain ⟨ls', h4⟩ := itemsLines3_head it' rest s ls h1
      refine Or.inr ⟨b, { s := s, origin := pre.length + n + 1 + 1 }, numbered (pre.length + n + 1 + 1) ls', ?_, rfl, h2, h3⟩
      rw [h4, numbered_cons]
    have h1 := tokLoop_item3_step cfg hty it hok g pre (b :: numbered (pre.length + n + 1) (itemsLines3 it' rest))
      (by intro b' hb'; simp only [List.head?_cons, Option.some.injEq] at hb'; subst hb'; rfl) hstop start st
      (hsx it (by simp)) acc loose
    obtain ⟨g', rfl⟩ : ∃ g', g = g' + 2 := ⟨g - 2, by omega⟩
    have h2 := tokLoop_nl_step cfg (g' + 12) (by rw [mdTypes_len cfg hty]; omega) b (pre ++ numbered pre.length it.lines)
      (numbered (pre.length + n + 1) (itemsLines3 it' rest)) start st
      (itemEntry3 (start + pre.length) (pre.length + 1) it :: acc) loose rfl
    rw [mdTypes_bl cfg hty] at h2
    simp only [if_true] at h2
    have hlen : (pre ++ numbered pre.length it.lines ++ [b]).length = pre.length + n + 1 := by
      simp only [List.length_append, numbered_length, List.length_cons, List.length_nil]; rfl
    have ih := tokLoop_items3 cfg hty start st rest it' (pre ++ numbered pre.length it.lines ++ [b])
      (.blankLine (start + (pre ++ numbered pre.length it.lines).length) b.origin ::
        itemEntry3 (start + pre.length) (pre.length + 1) it :: acc) loose (g' + 12)
      (hr it' (by simp)) (fun x hx => hr x (List.mem_cons_of_mem _ hx)) hadj.2
      (fun x hx => hsx x (List.mem_cons_of_mem _ hx)) (by omega)
    rw [hlines, h1]
    have e : g' + 2 + 11 = g' + 12 + 1 := by omega
    rw [e, h2, ← hlen, ih, hlen]
    simp only [itemEntries3, List.reverse_cons, List.append_assoc, List.singleton_append, List.length_append, numbered_length]
    have e1 : start + (pre.length + it.lines.length) = start + pre.length + it.lines.length := by omega
    have e2 : start + (pre.length + n + 1) = start + pre.length + it.lines.length + 1 := by omega
    have e3 : pre.length + n + 1 + 1 = pre.length + 1 + it.lines.length + 1 := by omega
    have e4 : b.origin = pre.length + 1 + it.lines.length := by show pre.length + n + 1 = _; omega
    rw [e1, e2, e3, e4]
    simp

/-- **the block parse of a document of blocks**, in every parser state in which `Paragraph.parse_setext` is on if the
    document has a setext heading (it is on at the top level and inside list items; `Quote.read` switches it off) -/
theorem tokenize_items3 (cfg : Cfg) (hty : cfg.types = markdownTypes) (it : Blk3) (rest : List Blk3)
    (hok : it.ok = true) (hr : ∀ x ∈ rest, x.ok = true) (hadj : adjOk3 it rest = true) (gas : Nat) (st : St)
    (hsx : ∀ x ∈ it :: rest, x.isSetext = true → st.setext = true) :
    tokenizeBlock cfg (gas + (2 * rest.length + 14)) (numbered 0 (itemsLines3 it rest)) 1 st =
      .ok ({ entries := itemEntries3 1 1 it rest, loose := false }, st) := by
  have e : gas + (2 * rest.length + 14) = (gas + (2 * rest.length + 13)) + 1 := by omega
  rw [e]
  have := tokLoop_items3 cfg hty 1 st rest it [] [] false (gas + (2 * rest.length + 13)) hok hr hadj hsx (by omega)
  simpa [tokenizeBlock] using this

/-! ### the token constructors -/

open Mistletoe.Document (mkBlock mkBlocks inl stripNl joinNl)

theorem ul_level' (n : Nat) (c : Char) (hc : ulCh c) (k : Nat) :
    (if (List.replicate n ' ' ++ List.replicate (k + 1) c).getLast? == some '=' then 1 else 2) = ulLevel c := by
  rw [← ul_rstrip n c hc k]; exact ul_level n c hc k

theorem rstripChar_nl (w : Str) (x : Char) (hx : x ≠ '\n') : rstripChar '\n' (w ++ [x] ++ ['\n']) = w ++ [x] := by
  unfold rstripChar
  have e : (w ++ [x] ++ ['\n']).reverse = '\n' :: x :: w.reverse := by simp
  rw [e]
  simp [lstripChar, hx]

/-- the joined lines of an HTML block end in a visible character and "\n" -/
theorem html_flatten (ls : List Str) (f : HtmlOk ls) : ∃ w x, ls.flatten = w ++ [x] ++ ['\n'] ∧ x ≠ '\n' := by
  have hne : ls ≠ [] := by
    obtain ⟨n, t, rest, r, _, h, _⟩ := f.first
    rw [h]; simp
  have hd : ls = ls.dropLast ++ [ls.getLast hne] := (List.dropLast_concat_getLast hne).symm
  have hm := List.getLast_mem hne
  obtain ⟨hc1, hc2⟩ := oneLine_complete _ (f.one _ hm)
  have hnb := f.nb _ hm
  have hbody : (ls.getLast hne).dropLast ≠ [] := by
    intro e
    rw [e] at hc1
    rw [hc1] at hnb
    revert hnb; decide
  have hb2 := (List.dropLast_concat_getLast hbody).symm
  refine ⟨ls.dropLast.flatten ++ ((ls.getLast hne).dropLast).dropLast, ((ls.getLast hne).dropLast).getLast hbody, ?_, ?_⟩
  · conv => lhs; rw [hd]
    rw [List.flatten_append]
    simp only [List.flatten_cons, List.flatten_nil, List.append_nil]
    conv => lhs; rw [hc1]
    conv => lhs; rw [hb2]
    simp
  · intro e
    have := List.getLast_mem hbody
    rw [e] at this
    exact hc2 this

/-- the block token of one block of the fragment -/
def itemBlock3 (ln : Nat) : Blk3 → Mistletoe.Block
  | .blk2 b => itemBlock2 ln b
  | .setext ls n c m => .setextHeading (ulLevel c) (List.replicate n ' ' ++ List.replicate m c) (proseInlines (ls.map strip)) ln
  | .html ls => .htmlBlock ls.flatten.dropLast ln

/-- the children of `Document`: the blocks with `BlankLine` tokens between them -/
def itemBlocks3 (ln : Nat) : Blk3 → List Blk3 → List Mistletoe.Block
  | it, [] => [itemBlock3 ln it]
  | it, it' :: rest =>
    itemBlock3 ln it :: .blankLine (ln + it.lines.length) :: itemBlocks3 (ln + it.lines.length + 1) it' rest

theorem mkBlock_item3 (cfg : Document.Cfg) (fn : Footnotes.Table)
    (ht : ∀ t ∈ cfg.span, inertClass t = true) (hc : cfg.span.count .lineBreak = 1)
    (it : Blk3) (hok : it.ok = true) (ln og : Nat) :
    mkBlock cfg fn (itemEntry3 ln og it) = .ok (some (itemBlock3 ln it)) := by
  cases it with
  | blk2 b => exact mkBlock_item2 cfg fn ht hc b hok ln og
  | setext ls n c m =>
    have f := setextOk_of ls n c m hok
    obtain ⟨k, rfl⟩ := f.len
    have hin : inl cfg fn (joinNl (ls.map strip)) = .ok (proseInlines (ls.map strip)) := by
      unfold Document.inl
      exact tokenizeInner_lines cfg.span fn _ ht hc (by simpa using f.para.ne)
        (lineOk_of_prose ls f.para.prose f.para.body) f.para.body
    simp only [itemEntry3, itemBlock3, mkBlock, List.getLast?_concat, List.dropLast_concat, hin, ul_rstrip n c f.ch k,
      ul_level' n c f.ch k]
  | html ls =>
    have f := htmlOk_of ls hok
    obtain ⟨w, x, hw, hx⟩ := html_flatten ls f
    simp only [itemEntry3, itemBlock3, mkBlock, hw, rstripChar_nl w x hx, List.dropLast_concat]

theorem mkBlocks_itemEntries3 (cfg : Document.Cfg) (fn : Footnotes.Table)
    (ht : ∀ t ∈ cfg.span, inertClass t = true) (hc : cfg.span.count .lineBreak = 1) :
    ∀ (rest : List Blk3) (it : Blk3) (ln og : Nat), it.ok = true → (∀ x ∈ rest, x.ok = true) →
    mkBlocks cfg fn (itemEntries3 ln og it rest) = .ok (itemBlocks3 ln it rest)
  | [], it, ln, og, hok, _ => by
    simp only [itemEntries3, itemBlocks3, mkBlocks, mkBlock_item3 cfg fn ht hc it hok ln og]
  | it' :: rest, it, ln, og, hok, hr => by
    have ih := mkBlocks_itemEntries3 cfg fn ht hc rest it' (ln + it.lines.length + 1) (og + it.lines.length + 1)
      (hr it' (by simp)) (fun x hx => hr x (List.mem_cons_of_mem _ hx))
    simp only [itemEntries3, itemBlocks3, mkBlocks]
    rw [mkBlock_item3 cfg fn ht hc it hok ln og]
    simp only [mkBlock, ih]

/-! ### the renderer -/

/-- the lines the renderer writes for one block -/
def itemOut3 : Blk3 → List Str
  | .blk2 b => itemOut2 b
  | .setext ls n c m => ls.map strip ++ [List.replicate n ' ' ++ List.replicate m c]
  | .html ls => ls.map List.dropLast

def itemsOut3 : Blk3 → List Blk3 → List Str
  | it, [] => itemOut3 it
  | it, it' :: rest => itemOut3 it ++ [] :: itemsOut3 it' rest

theorem html_ne (ls : List Str) (f : HtmlOk ls) : ls ≠ [] := by
  obtain ⟨n, t, rest, r, _, h, _⟩ := f.first
  rw [h]; simp

theorem renderBlock_item3 (o : Opts) (it : Blk3) (hok : it.ok = true) (ln : Nat) :
    renderBlock o none (itemBlock3 ln it) = .ok (itemOut3 it) := by
  cases it with
  | blk2 b => exact renderBlock_item2 o b hok ln
  | setext ls n c m =>
    have f := setextOk_of ls n c m hok
    simp only [itemBlock3, itemOut3, renderBlock, spanToLines_prose _ (strip_lines_ok ls f.para.prose)]
  | html ls =>
    have f := htmlOk_of ls hok
    have h1 := splitNl_lines ls (html_ne ls f) (fun t ht => oneLine_complete t (f.one t ht))
    simp only [itemBlock3, itemOut3, renderBlock, h1]

theorem renderBlocks_items3 (o : Opts) : ∀ (rest : List Blk3) (it : Blk3) (ln : Nat),
    it.ok = true → (∀ x ∈ rest, x.ok = true) →
    renderBlocks o none (itemBlocks3 ln it rest) = .ok (itemsOut3 it rest)
  | [], it, ln, hok, _ => by
    simp only [itemBlocks3, itemsOut3, renderBlocks, renderBlock_item3 o it hok ln]
    simp
  | it' :: rest, it, ln, hok, hr => by
    have ih := renderBlocks_items3 o rest it' (ln + it.lines.length + 1) (hr it' (by simp)) (fun x hx => hr x (List.mem_cons_of_mem _ hx))
    simp only [itemBlocks3, itemsOut3, renderBlocks, renderBlock_item3 o it hok ln, renderBlock, ih]
    simp

/-! ### the text -/

theorem itemOut3_lines (it : Blk3) (hok : it.ok = true) : (itemOut3 it).map (· ++ ['\n']) = it.lines := by
  cases it with
  | blk2 b => exact itemOut2_lines b hok
  | setext ls n c m =>
    have f := (setextOk_of ls n c m hok).para
    simp only [itemOut3, Blk3.lines, List.map_append, List.map_cons, List.map_nil,
      strip_nl_lines ls (fun l hl => ⟨f.prose l hl, f.flush l hl⟩), ulLine]
  | html ls =>
    have f := htmlOk_of ls hok
    exact dropLast_nl_lines ls (fun l hl => oneLine_complete l (f.one l hl))

theorem itemsOut3_lines : ∀ (rest : List Blk3) (it : Blk3), it.ok = true → (∀ x ∈ rest, x.ok = true) →
    (itemsOut3 it rest).map (· ++ ['\n']) = itemsLines3 it rest
  | [], it, hok, _ => by simp only [itemsOut3, itemsLines3, itemOut3_lines it hok]
  | it' :: rest, it, hok, hr => by
    have ih := itemsOut3_lines rest it' (hr it' (by simp)) (fun x hx => hr x (List.mem_cons_of_mem _ hx))
    simp only [itemsOut3, itemsLines3, List.map_append, List.map_cons, itemOut3_lines it hok, ih, List.nil_append]

theorem item3_oneLine (it : Blk3) (hok : it.ok = true) : ∀ l ∈ it.lines, oneLine l = true := by
  cases it with
  | blk2 b => exact item2_oneLine b hok
  | setext ls n c m =>
    have f := setextOk_of ls n c m hok
    intro l hl
    simp only [Blk3.lines, List.mem_append, List.mem_singleton] at hl
    rcases hl with hl | rfl
    · exact f.para.one l hl
    · apply oneLine_text
      intro x hx
      rcases List.mem_append.mp hx with hx | hx
      · rw [(List.mem_replicate.mp hx).2]; decide
      · rw [(List.mem_replicate.mp hx).2]; exact (ulCh_ne c f.ch).2.2.2.2.2.2.2.2.2.2
  | html ls => exact (htmlOk_of ls hok).one

theorem items3_oneLine : ∀ (rest : List Blk3) (it : Blk3), it.ok = true → (∀ x ∈ rest, x.ok = true) →
    ∀ l ∈ itemsLines3 it rest, oneLine l = true
  | [], it, hok, _ => by simpa [itemsLines3] using item3_oneLine it hok
  | it' :: rest, it, hok, hr => by
    have ih := items3_oneLine rest it' (hr it' (by simp)) (fun x hx => hr x (List.mem_cons_of_mem _ hx))
    intro l hl
    simp only [itemsLines3, List.mem_append, List.mem_cons] at hl
    rcases hl with hl | rfl | hl
    · exact item3_oneLine it hok l hl
    · decide
    · exact ih l hl

theorem item3_lines_ne (it : Blk3) (hok : it.ok = true) : it.lines ≠ [] := by
  cases it with
  | blk2 b => exact item2_lines_ne b hok
  | setext ls n c m => simp [Blk3.lines]
  | html ls => exact html_ne ls (htmlOk_of ls hok)

theorem itemsLines3_ne (it : Blk3) (rest : List Blk3) (hok : it.ok = true) : itemsLines3 it rest ≠ [] := by
  have := item3_lines_ne it hok
  cases rest <;> simp [itemsLines3, this]

/-! ### start condition 6 from the shape of the line -/

/-- a tag name of `span_token._tags`, in any letter case (letters and digits only) -/
def tagName (name : Str) : Bool :=
  !name.isEmpty && name.all isAlnum && Gen.Tables.tags.contains (String.ofList (Footnotes.casefold name))

/-- what follows the tag name on a line of start condition 6: `>`, `/>`, a space, or the end of the line -/
def tagEnd : Str → Bool
  | '>' :: _ => true
  | ' ' :: _ => true
  | '\n' :: _ => true
  | '/' :: '>' :: _ => true
  | _ => false

theorem alnum_ne (c : Char) (h : isAlnum c = true) : c ≠ '\n' ∧ c ≠ '>' ∧ c ≠ ' ' ∧ c ≠ '/' ∧ c ≠ '!' ∧ c ≠ '?' := by
  refine ⟨?_, ?_, ?_, ?_, ?_, ?_⟩ <;> (rintro rfl; revert h; decide)

/-- the lazy `(.+?)` of `HtmlBlock.predefined` stops at the end of an alphanumeric name -/
theorem predefTail_name (r : Str) (hr : tagEnd r = true) : ∀ (name acc : Str), name ≠ [] → (∀ c ∈ name, isAlnum c = true) →
    predefTail (name ++ r) acc = some (acc.reverse ++ name)
  | [], _, h, _ => absurd rfl h
  | [c], acc, _, ha => by
    have hc := alnum_ne c (ha c (by simp))
    simp only [List.singleton_append, predefTail, hc.1, if_false]
    unfold tagEnd at hr
    split at hr <;> simp_all
  | c :: c2 :: more, acc, _, ha => by
    have hc := alnum_ne c (ha c (by simp))
    have hc2 := alnum_ne c2 (ha c2 (by simp))
    have ih := predefTail_name r hr (c2 :: more) (c :: acc) (by simp) (fun x hx => ha x (List.mem_cons_of_mem _ hx))
    simp only [List.cons_append] at ih ⊢
    rw [predefTail]
    simp only [hc.1, if_false]
    split
    · rename_i h; simp only [List.cons.injEq] at h; exact absurd h.1 hc2.2.1
    · rename_i h; simp only [List.cons.injEq] at h; exact absurd h.1 hc2.2.2.1
    · rename_i h; simp only [List.cons.injEq] at h; exact absurd h.1 hc2.1
    · rename_i h; simp only [List.cons.injEq] at h; exact absurd h.1 hc2.2.2.2.1
    · rw [ih]; simp

theorem tagName_facts (name : Str) (h : tagName name = true) :
    name ≠ [] ∧ (∀ c ∈ name, isAlnum c = true) ∧ Gen.Tables.tags.contains (String.ofList (Footnotes.casefold name)) = true := by
  simp only [tagName, Bool.and_eq_true, Bool.not_eq_eq_eq_not, Bool.not_true, List.isEmpty_eq_false_iff, List.all_eq_true] at h
  exact ⟨h.1.1, h.1.2, h.2⟩

theorem multi_names : ∀ t ∈ ["pre", "script", "style", "textarea"].map String.toList,
    t ≠ [] ∧ (∀ c ∈ t, isAlnum c = true) ∧ Gen.Tables.tags.contains (String.ofList (Footnotes.casefold t)) = false := by
  decide +kernel

/-- rule 1 (`<pre`, `<script`, `<style`, `<textarea`) does not fire on a name of the table -/
theorem multiblock_tag (name r : Str) (hn : tagName name = true) (hr : tagEnd r = true) : multiblock ('<' :: (name ++ r)) = none := by
  obtain ⟨hne, ha, ht⟩ := tagName_facts name hn
  have hp := predefTail_name r hr name [] hne ha
  unfold multiblock
  simp only
  rw [List.find?_eq_none]
  intro t htm
  simp only [Bool.and_eq_true, not_and]
  intro hpre hd
  -- the line is `t ++ rest'` with a delimiter at the head of rest'
  have hx : t ++ (name ++ r).drop t.length = name ++ r := List.prefix_iff_eq_append.mp (List.isPrefixOf_iff_prefix.mp hpre)
  have hte : tagEnd ((name ++ r).drop t.length) = true := by
    cases hdr : (name ++ r).drop t.length with
    | nil => rw [hdr] at hd; simp at hd
    | cons c rest' =>
      rw [hdr] at hd
      simp only [Bool.or_eq_true, beq_iff_eq] at hd
      rcases hd with (rfl | rfl) | rfl <;> rfl
  have htl := multi_names t htm
  have hp2 := predefTail_name _ hte t [] htl.1 htl.2.1
  rw [hx, hp] at hp2
  simp only [List.reverse_nil, List.nil_append, Option.some.injEq] at hp2
  rw [hp2, htl.2.2] at ht
  cases ht

/-- **a line `<name…` or `</name…` with a tag name of the table is a start of condition 6** (at most three spaces of
    indentation; after the name: `>`, `/>`, a space or the line end) -/
theorem htmlStart_tag (n : Nat) (hn : n < 4) (slash : Bool) (name r : Str) (h1 : tagName name = true) (h2 : tagEnd r = true) :
    htmlBlockStart (List.replicate n ' ' ++ '<' :: ((if slash then ['/'] else []) ++ (name ++ r))) = .ok (some (6, none)) := by
  obtain ⟨hne, ha, ht⟩ := tagName_facts name h1
  obtain ⟨c, more, rfl⟩ := List.exists_cons_of_ne_nil hne
  have hc := alnum_ne c (ha c (by simp))
  have hp := predefTail_name r h2 (c :: more) [] (by simp) ha
  simp only [List.reverse_nil, List.nil_append] at hp
  unfold htmlBlockStart
  simp only [lstrip_rep n '<' _ (by decide)]
  have hlen : ¬ ((List.replicate n ' ' ++ '<' :: ((if slash then ['/'] else []) ++ (c :: more ++ r))).length -
      ('<' :: ((if slash then ['/'] else []) ++ (c :: more ++ r))).length ≥ 4) := by simp; omega
  simp only [hlen, if_false]
  have e1 : "<!--".toList = '<' :: ['!', '-', '-'] := by decide
  have e2 : "<?".toList = '<' :: ['?'] := by decide
  have e3 : "<!".toList = '<' :: ['!'] := by decide
  cases slash with
  | false =>
    have hm := multiblock_tag (c :: more) r h1 h2
    have hpd : predefined ('<' :: (c :: more ++ r)) = some (c :: more) := by
      simp only [List.cons_append] at hp ⊢
      unfold predefined
      split
      · rename_i h; simp only [List.cons.injEq, true_and] at h; exact absurd h.1 hc.2.2.2.1
      · rename_i h; simp only [List.cons.injEq, true_and] at h; rw [← h]; exact hp
      · rename_i h; exact absurd rfl (h _)
    simp only [Bool.false_eq_true, if_false, List.nil_append, e1, e2, e3, startsWith, List.cons_append,
      List.isPrefixOf_cons_cons, beq_self_eq_true, Bool.true_and, isPrefix_ne _ _ _ _ hc.2.2.2.2.1, isPrefix_ne _ _ _ _ hc.2.2.2.2.2,
      htmlRest]
    simp only [List.cons_append] at hpd hm
    simp only [hm, hpd, ht, if_true]
  | true =>
    have hm : multiblock ('<' :: '/' :: (c :: more ++ r)) = none := by
      unfold multiblock
      simp only
      rw [List.find?_eq_none]
      intro t htm
      simp only [List.map_cons, List.map_nil, List.mem_cons, List.mem_nil_iff, or_false] at htm
      rcases htm with rfl | rfl | rfl | rfl <;> simp [List.isPrefixOf]
    have hpd : predefined ('<' :: '/' :: (c :: more ++ r)) = some (c :: more) := by
      simp only [List.cons_append] at hp ⊢
      simp only [predefined, hp]
    have hs1 : ('/' : Char) ≠ '!' := by decide
    have hs2 : ('/' : Char) ≠ '?' := by decide
    simp only [if_true, List.singleton_append, hm, e1, e2, e3, startsWith,
      List.isPrefixOf_cons_cons, beq_self_eq_true, Bool.true_and, isPrefix_ne _ _ _ _ hs1, isPrefix_ne _ _ _ _ hs2, htmlRest,
      Bool.false_eq_true, if_false]
    simp only [hpd, ht, if_true]


/-- such a line passes the normal form's test for the first line of an HTML block -/
theorem htmlFirstOk_tag (n : Nat) (hn : n < 4) (slash : Bool) (name r : Str) (h1 : tagName name = true) (h2 : tagEnd r = true) :
    htmlFirstOk (List.replicate n ' ' ++ '<' :: ((if slash then ['/'] else []) ++ (name ++ r))) = true := by
  have hs := htmlStart_tag n hn slash name r h1 h2
  have hcl := countLeading_rep n '<' ((if slash then ['/'] else []) ++ (name ++ r)) (by decide)
  simp only [htmlFirstOk, hcl, htmlOpen, hs, List.drop_left' (List.length_replicate ..), List.head?_cons, Bool.and_eq_true,
    decide_eq_true_eq, beq_self_eq_true, and_true]
  omega

example : htmlFirstOk "<div class=\"x\">\n".toList = true :=
  htmlFirstOk_tag 0 (by decide) false "div".toList " class=\"x\">\n".toList (by decide +kernel) (by decide)
example : htmlFirstOk "  </BlockQuote>\n".toList = true :=
  htmlFirstOk_tag 2 (by decide) true "BlockQuote".toList ">\n".toList (by decide +kernel) (by decide)

end Mistletoe.MdRound

/-! ### C09 for the fragment with setext headings and HTML blocks -/
namespace Mistletoe.MdRoundSetext
open Mistletoe Mistletoe.Py Mistletoe.Inline Mistletoe.InertInline Mistletoe.MdRound
open Mistletoe.Block hiding numbered numbered_cons numbered_append
open Mistletoe.Props.C14 (inertLine joinBlank markdownTypes)
open Mistletoe.MdRoundCode (markdown_cfg_facts)

/-- **Setext headings and HTML blocks in the renderer's normal form, together with the blocks of the earlier fragments,
    are reproduced byte for byte** (top level).  The blocks `it, rest` (`Blk3.ok`) are separated by single empty lines,
    no two indented code blocks are adjacent (`adjOk3`); the block token types are the Markdown renderer's list, the span
    classes are covered ones with `LineBreak` once.  Then `Document(lines)` succeeds, its children are the tokens
    `itemBlocks3` (`SetextHeading` with the underline as written, `HtmlBlock` with the lines joined, …, `BlankLine`s
    between them), and `MarkdownRenderer().render` (no line limit, either `normalize_whitespace`) gives back exactly the
    concatenated lines.
    `_partial`: the normal form `Blk3.ok` is a hypothesis.  For a setext heading it excludes what the renderer does
    change: whitespace behind the underline (`rstrip`ped by `SetextHeading.__init__`); and what the parser reads
    otherwise: an underline indented by four or more spaces.  For an HTML block: a first line on which
    `HtmlBlock.start` does not answer 6 or 7, a blank line inside (it ends the block). -/
theorem C09_setext_blocks_exact_partial (cfg : Document.Cfg) (hty : cfg.block.types = markdownTypes)
    (ht : ∀ t ∈ cfg.span, inertClass t = true) (hc : cfg.span.count .lineBreak = 1)
    (it : Blk3) (rest : List Blk3) (hok : it.ok = true) (hrest : ∀ x ∈ rest, x.ok = true) (hadj : adjOk3 it rest = true)
    (o : Markdown.Opts) (ho : o.maxLineLength = none) (gas : Nat) :
    ∃ d, Document.parseLines cfg (gas + (2 * rest.length + 14)) (itemsLines3 it rest) = .ok d ∧
      d.kids = itemBlocks3 1 it rest ∧
      Markdown.renderRes o d = .ok (itemsLines3 it rest).flatten ∧
      Markdown.render o d = (itemsLines3 it rest).flatten := by
  have hphase : blockPhase cfg.block (gas + (2 * rest.length + 14)) (itemsLines3 it rest) =
      .ok ({ entries := itemEntries3 1 1 it rest, loose := false }, {}) :=
    tokenize_items3 cfg.block hty it rest hok hrest hadj gas {} (fun _ _ _ => rfl)
  have hmk := mkBlocks_itemEntries3 cfg (Document.footnotesOf []) ht hc rest it 1 1 hok hrest
  have hout := renderBlocks_items3 o rest it 1 hok hrest
  have htext : Markdown.joinLines (itemsOut3 it rest) = (itemsLines3 it rest).flatten := by
    rw [joinLines_eq, itemsOut3_lines rest it hok hrest]
  have hres : Markdown.renderRes o { kids := itemBlocks3 1 it rest, footnotes := Document.footnotesOf [] } =
      .ok (itemsLines3 it rest).flatten := by
    simp only [Markdown.renderRes, ho, hout, htext]
  refine ⟨{ kids := itemBlocks3 1 it rest, footnotes := Document.footnotesOf [] }, ?_, rfl, hres, ?_⟩
  · unfold Document.parseLines
    rw [hphase]
    simp only
    rw [hmk]
  · simp only [Markdown.render, hres]

/-- **The same inside `k` nested block quotes** ("> " before every line, the way the renderer writes them), for
    tab-free lines (`Quote.convert_leading_tabs` rewrites tabs) and documents WITHOUT setext headings: `Quote.read`
    switches `Paragraph.parse_setext` off, so inside a quote text + underline is not a `SetextHeading` (see the
    examples below).  HTML blocks are covered at every depth. -/
theorem C09_quoted_html_blocks_exact_partial (cfg : Document.Cfg) (hty : cfg.block.types = markdownTypes)
    (ht : ∀ t ∈ cfg.span, inertClass t = true) (hc : cfg.span.count .lineBreak = 1)
    (it : Blk3) (rest : List Blk3) (hok : it.ok = true) (hrest : ∀ x ∈ rest, x.ok = true) (hadj : adjOk3 it rest = true)
    (hnsx : ∀ x ∈ it :: rest, x.isSetext = false)
    (hnt : ∀ l ∈ itemsLines3 it rest, '\t' ∉ l) (k : Nat)
    (o : Markdown.Opts) (ho : o.maxLineLength = none) (gas : Nat) :
    ∃ d, Document.parseLines cfg (gas + (2 * rest.length + 14) + k * 8) (qStrs k (itemsLines3 it rest)) = .ok d ∧
      d.kids = qBlocks 1 (itemBlocks3 1 it rest) k ∧
      Markdown.renderRes o d = .ok (qStrs k (itemsLines3 it rest)).flatten ∧
      Markdown.render o d = (qStrs k (itemsLines3 it rest)).flatten := by
  obtain ⟨s, ss', hss⟩ : ∃ s ss', itemsLines3 it rest = s :: ss' := by
    cases hj : itemsLines3 it rest with
    | nil => exact absurd hj (itemsLines3_ne it rest hok)
    | cons s ss' => exact ⟨s, ss', rfl⟩
  have hnum : Mistletoe.Props.C14.numbered 0 (itemsLines3 it rest) = { s := s, origin := 1 } :: Mistletoe.Props.C14.numbered 1 ss' := by
    rw [hss, Mistletoe.Props.C14.numbered_cons]
  have h0 : ∀ st, tokenizeBlock cfg.block (gas + (2 * rest.length + 14)) ({ s := s, origin := 1 } :: Mistletoe.Props.C14.numbered 1 ss') 1 st =
      .ok ({ entries := itemEntries3 1 1 it rest, loose := false }, st) := by
    intro st
    have := tokenize_items3 cfg.block hty it rest hok hrest hadj gas st
      (fun x hx h => by rw [hnsx x hx] at h; cases h)
    rwa [hnum] at this
  have hnt' : ∀ l ∈ ({ s := s, origin := 1 } : Line) :: Mistletoe.Props.C14.numbered 1 ss', '\t' ∉ l.s := by
    intro l hl
    rw [← hnum] at hl
    exact hnt _ (Mistletoe.Props.C14.numbered_mem _ _ _ hl)
  obtain ⟨st', hq, hd⟩ := tokenize_qLines cfg.block
    [.linkRefDefBlock, .blankLine, .htmlBlock, .blockCode, .heading] [.codeFence, .thematicBreak, .list, .table, .paragraph]
    (by rw [hty]; rfl) (by decide) (by decide) _ _ hnt' 1 _ _ h0 k {}
  have hphase : blockPhase cfg.block (gas + (2 * rest.length + 14) + k * 8) (qStrs k (itemsLines3 it rest)) =
      .ok ({ entries := qEntries 1 1 (itemEntries3 1 1 it rest) k, loose := false }, st') := by
    have e : ∀ g ls, blockPhase cfg.block g ls = tokenizeBlock cfg.block g (Mistletoe.Props.C14.numbered 0 ls) 1 {} := fun _ _ => rfl
    rw [e, numbered_qStrs, hnum]
    exact hq
  have hdefs : st'.defs = [] := hd
  have hmk := mkBlocks_qEntries cfg (Document.footnotesOf []) 1 1 _ _
    (mkBlocks_itemEntries3 cfg (Document.footnotesOf []) ht hc rest it 1 1 hok hrest) k
  have hout := renderBlocks_qBlocks o 1 _ _ (renderBlocks_items3 o rest it 1 hok hrest) k
  have htext : Markdown.joinLines (qStrs k (itemsOut3 it rest)) = (qStrs k (itemsLines3 it rest)).flatten := by
    rw [joinLines_eq, qStrs_nl, itemsOut3_lines rest it hok hrest]
  have hres : Markdown.renderRes o { kids := qBlocks 1 (itemBlocks3 1 it rest) k, footnotes := Document.footnotesOf [] } =
      .ok (qStrs k (itemsLines3 it rest)).flatten := by
    simp only [Markdown.renderRes, ho, hout, htext]
  refine ⟨{ kids := qBlocks 1 (itemBlocks3 1 it rest) k, footnotes := Document.footnotesOf [] }, ?_, rfl, hres, ?_⟩
  · unfold Document.parseLines
    rw [hphase]
    simp only [hdefs]
    rw [hmk]
  · simp only [Markdown.render, hres]

/-- **Round trip of the fragment with setext headings and HTML blocks, for the token lists of the working tree**
    (`Config.markdown`), from a `str`, top level: `MarkdownRenderer(no line limit, either normalize_whitespace)
    .render(Document(text))` is the text (it does not raise: `renderRes`); rendering again reproduces it; the rendered
    text parses like the original under every configuration (same document, same definitions, same HTML). -/
theorem C09_setext_roundtrip_partial (cfg : Document.Cfg) (hcfg : Config.markdown = some cfg)
    (it : Blk3) (rest : List Blk3) (hok : it.ok = true) (hrest : ∀ x ∈ rest, x.ok = true) (hadj : adjOk3 it rest = true)
    (o : Markdown.Opts) (ho : o.maxLineLength = none) (gas : Nat) :
    ∃ d, Document.parse cfg (gas + (2 * rest.length + 14)) (itemsLines3 it rest).flatten = .ok d ∧
      Markdown.renderRes o d = .ok (itemsLines3 it rest).flatten ∧
      Markdown.render o d = (itemsLines3 it rest).flatten ∧
      (∃ d', Document.parse cfg (gas + (2 * rest.length + 14)) (Markdown.render o d) = .ok d' ∧
        Markdown.render o d' = Markdown.render o d) ∧
      (∀ (cfg' : Document.Cfg) (g : Nat),
        Document.parse cfg' g (Markdown.render o d) = Document.parse cfg' g (itemsLines3 it rest).flatten) ∧
      (∀ (hopts : Html.Opts) (g : Nat),
        Config.renderHtml hopts g (Markdown.render o d) = Config.renderHtml hopts g (itemsLines3 it rest).flatten) := by
  obtain ⟨hty, ht, hc⟩ := markdown_cfg_facts cfg hcfg
  have h1 := items3_oneLine rest it hok hrest
  obtain ⟨d, h, _, h2, h3⟩ := C09_setext_blocks_exact_partial cfg hty ht hc it rest hok hrest hadj o ho gas
  rw [← parse_lines cfg _ _ h1] at h
  refine ⟨d, h, h2, h3, ⟨d, ?_, rfl⟩, fun _ _ => by rw [h3], fun _ _ => by rw [h3]⟩
  rw [h3]; exact h

/-- the quoted version from a `str` (no setext headings, tab-free lines), with the same corollaries -/
theorem C09_quoted_html_roundtrip_partial (cfg : Document.Cfg) (hcfg : Config.markdown = some cfg)
    (it : Blk3) (rest : List Blk3) (hok : it.ok = true) (hrest : ∀ x ∈ rest, x.ok = true) (hadj : adjOk3 it rest = true)
    (hnsx : ∀ x ∈ it :: rest, x.isSetext = false)
    (hnt : ∀ l ∈ itemsLines3 it rest, '\t' ∉ l) (k : Nat)
    (o : Markdown.Opts) (ho : o.maxLineLength = none) (gas : Nat) :
    ∃ d, Document.parse cfg (gas + (2 * rest.length + 14) + k * 8) (qStrs k (itemsLines3 it rest)).flatten = .ok d ∧
      Markdown.renderRes o d = .ok (qStrs k (itemsLines3 it rest)).flatten ∧
      Markdown.render o d = (qStrs k (itemsLines3 it rest)).flatten ∧
      (∃ d', Document.parse cfg (gas + (2 * rest.length + 14) + k * 8) (Markdown.render o d) = .ok d' ∧
        Markdown.render o d' = Markdown.render o d) ∧
      (∀ (cfg' : Document.Cfg) (g : Nat),
        Document.parse cfg' g (Markdown.render o d) = Document.parse cfg' g (qStrs k (itemsLines3 it rest)).flatten) ∧
      (∀ (hopts : Html.Opts) (g : Nat),
        Config.renderHtml hopts g (Markdown.render o d) = Config.renderHtml hopts g (qStrs k (itemsLines3 it rest)).flatten) := by
  obtain ⟨hty, ht, hc⟩ := markdown_cfg_facts cfg hcfg
  have h1 := qStrs_oneLine k _ (items3_oneLine rest it hok hrest)
  obtain ⟨d, h, _, h2, h3⟩ := C09_quoted_html_blocks_exact_partial cfg hty ht hc it rest hok hrest hadj hnsx hnt k o ho gas
  rw [← parse_lines cfg _ _ h1] at h
  refine ⟨d, h, h2, h3, ⟨d, ?_, rfl⟩, fun _ _ => by rw [h3], fun _ _ => by rw [h3]⟩
  rw [h3]; exact h

/-! ### Non-vacuity -/

open Mistletoe.MdRoundCode (L mdCfg mdCfg_ok)

/-- a level-1 setext heading, a paragraph, a two-line level-2 setext heading (its underline `---` is NOT a thematic
    break here), an HTML block of start condition 6 whose content line looks like emphasis, a fenced code block -/
def doc1 : Blk3 := .setext [L "Title\n"] 0 '=' 5
def doc1rest : List Blk3 :=
  [.blk2 (.blk (.para [L "para\n"])), .setext [L "Two\n", L "lines\n"] 0 '-' 3,
   .html [L "<div class=\"x\">\n", L "*not em*\n", L "</div>\n"], .blk2 (.fence (L "```") (L "") [L "code\n"])]

def text1 : Str := L "Title\n=====\n\npara\n\nTwo\nlines\n---\n\n<div class=\"x\">\n*not em*\n</div>\n\n```\ncode\n```\n"

theorem doc1_ok : doc1.ok = true ∧ (∀ x ∈ doc1rest, x.ok = true) ∧ adjOk3 doc1 doc1rest = true := by decide +kernel

example : (itemsLines3 doc1 doc1rest).flatten = text1 := by decide +kernel

/-- the theorem applies … -/
example : ∃ d, Document.parseLines mdCfg 22 (itemsLines3 doc1 doc1rest) = .ok d ∧
    Markdown.renderRes {} d = .ok (itemsLines3 doc1 doc1rest).flatten := by
  obtain ⟨d, h1, _, h2, _⟩ := C09_setext_blocks_exact_partial mdCfg mdCfg_ok.1 mdCfg_ok.2.1 mdCfg_ok.2.2
    doc1 doc1rest doc1_ok.1 doc1_ok.2.1 doc1_ok.2.2 {} rfl 0
  exact ⟨d, h1, h2⟩

/-- … and the kernel evaluation of parser and renderer on that text agrees (so does the real code: the report) -/
example : (Document.parse mdCfg 22 text1).bind (fun d => Markdown.renderRes {} d) = .ok text1 := by decide +kernel

/-- the round trip from the `str` under `Config.markdown` -/
example (cfg : Document.Cfg) (hcfg : Config.markdown = some cfg) :
    ∃ d, Document.parse cfg 22 (itemsLines3 doc1 doc1rest).flatten = .ok d ∧
      Markdown.renderRes {} d = .ok (itemsLines3 doc1 doc1rest).flatten := by
  obtain ⟨d, h1, h2, _⟩ := C09_setext_roundtrip_partial cfg hcfg doc1 doc1rest doc1_ok.1 doc1_ok.2.1 doc1_ok.2.2 {} rfl 0
  exact ⟨d, h1, h2⟩

/-- underlines indented by one to three spaces and of length one (`-` alone: an empty list item cannot interrupt a
    paragraph); HTML blocks of start condition 6 (closing tag, indented, upper case, unfinished tag) and 7 (a complete
    tag that is not in the table); an indented code block next to them -/
def doc2 : Blk3 := .setext [L "a & b\n"] 3 '-' 1
def doc2rest : List Blk3 :=
  [.html [L "</DIV>\n", L "    indented, not code\n", L "# not a heading\n"], .setext [L "x\n"] 1 '=' 1,
   .blk2 (.icode [L "    code\n"]), .html [L "  <td\n"], .html [L "<my-tag a=\"1\">\n", L "- not a list\n"],
   .blk2 (.icode [L "    more code\n"]), .setext [L "last\n"] 0 '-' 2]

theorem doc2_ok : doc2.ok = true ∧ (∀ x ∈ doc2rest, x.ok = true) ∧ adjOk3 doc2 doc2rest = true := by decide +kernel

def text2 : Str :=
  L "a & b\n   -\n\n</DIV>\n    indented, not code\n# not a heading\n\nx\n =\n\n    code\n\n  <td\n\n<my-tag a=\"1\">\n- not a list\n\n    more code\n\nlast\n--\n"

example : (itemsLines3 doc2 doc2rest).flatten = text2 := by decide +kernel

example : ∃ d, Document.parseLines mdCfg 28 (itemsLines3 doc2 doc2rest) = .ok d ∧
    Markdown.renderRes {} d = .ok (itemsLines3 doc2 doc2rest).flatten := by
  obtain ⟨d, h1, _, h2, _⟩ := C09_setext_blocks_exact_partial mdCfg mdCfg_ok.1 mdCfg_ok.2.1 mdCfg_ok.2.2
    doc2 doc2rest doc2_ok.1 doc2_ok.2.1 doc2_ok.2.2 {} rfl 0
  exact ⟨d, h1, h2⟩

example : (Document.parse mdCfg 28 text2).bind (fun d => Markdown.renderRes {} d) = .ok text2 := by decide +kernel

/-- HTML blocks inside two block quotes -/
def doc3 : Blk3 := .html [L "<div>\n", L "*x*\n"]
def doc3rest : List Blk3 := [.blk2 (.blk (.para [L "text\n"])), .html [L "</div>\n"]]

theorem doc3_ok : doc3.ok = true ∧ (∀ x ∈ doc3rest, x.ok = true) ∧ adjOk3 doc3 doc3rest = true ∧
    (∀ x ∈ doc3 :: doc3rest, x.isSetext = false) ∧ (∀ l ∈ itemsLines3 doc3 doc3rest, '\t' ∉ l) := by decide +kernel

example : ∃ d, Document.parseLines mdCfg 34 (qStrs 2 (itemsLines3 doc3 doc3rest)) = .ok d ∧
    Markdown.renderRes {} d = .ok (qStrs 2 (itemsLines3 doc3 doc3rest)).flatten := by
  obtain ⟨d, h1, _, h2, _⟩ := C09_quoted_html_blocks_exact_partial mdCfg mdCfg_ok.1 mdCfg_ok.2.1 mdCfg_ok.2.2
    doc3 doc3rest doc3_ok.1 doc3_ok.2.1 doc3_ok.2.2.1 doc3_ok.2.2.2.1 doc3_ok.2.2.2.2 2 {} rfl 0
  exact ⟨d, h1, h2⟩

example : (qStrs 2 (itemsLines3 doc3 doc3rest)).flatten = L "> > <div>\n> > *x*\n> > \n> > text\n> > \n> > </div>\n" := by
  decide +kernel

example : (Document.parse mdCfg 34 (L "> > <div>\n> > *x*\n> > \n> > text\n> > \n> > </div>\n")).bind
    (fun d => Markdown.renderRes {} d) = .ok (L "> > <div>\n> > *x*\n> > \n> > text\n> > \n> > </div>\n") := by decide +kernel

/-! ### setext headings at quote depth 1 (recorded finding `setext-in-quote`)

  `Quote.read` parses its content with `Paragraph.parse_setext` off.  Behind "> ", text + `===` is ONE paragraph of two
  lines, and text + `---` is a paragraph and a thematic break: no `SetextHeading` token, so the quoted theorem cannot
  (and does not) cover setext blocks.  The text itself is still reproduced byte for byte, and it re-parses the same
  way: the round trip does not change the meaning, the tree is just not the one `itemBlocks3` describes. -/

/-- the kinds of the children of the one top-level `Quote` -/
def quoteKinds (r : Res Doc) : List String :=
  match r with
  | .ok { kids := [.quote kids _], .. } =>
    kids.map (fun b => match b with
      | .paragraph .. => "Paragraph" | .setextHeading .. => "SetextHeading" | .thematicBreak .. => "ThematicBreak" | _ => "other")
  | _ => []

def topKinds (r : Res Doc) : List String :=
  match r with
  | .ok d => d.kids.map (fun b => match b with
      | .paragraph .. => "Paragraph" | .setextHeading .. => "SetextHeading" | .thematicBreak .. => "ThematicBreak"
      | .htmlBlock .. => "HtmlBlock" | .blankLine .. => "BlankLine" | _ => "other")
  | _ => []

example : topKinds (Document.parse mdCfg 22 (L "Title\n===\n")) = ["SetextHeading"] := by decide +kernel
example : quoteKinds (Document.parse mdCfg 22 (L "> Title\n> ===\n")) = ["Paragraph"] := by decide +kernel
example : quoteKinds (Document.parse mdCfg 22 (L "> Title\n> ---\n")) = ["Paragraph", "ThematicBreak"] := by decide +kernel
example : (Document.parse mdCfg 22 (L "> Title\n> ===\n")).bind (fun d => Markdown.renderRes {} d) = .ok (L "> Title\n> ===\n") := by
  decide +kernel
example : (Document.parse mdCfg 22 (L "> Title\n> ---\n")).bind (fun d => Markdown.renderRes {} d) = .ok (L "> Title\n> ---\n") := by
  decide +kernel

/-! ### what the normal form excludes (model and implementation agree; run on /repo, see the report)

  * whitespace behind the underline is dropped (`lines.pop().rstrip()`): the text changes, the meaning does not;
  * an underline indented by four or more spaces is a paragraph continuation line; the renderer strips the
    indentation and the result IS a setext heading — an instance of the class "continuation lines indented ≥ 4" the
    property text already lists (`'Foo\n    ***'`): the meaning changes (`<p>Title\n===</p>` becomes `<h1>Title</h1>`);
  * a whitespace-only line inside an HTML block ends it (`line.strip() == ''`); it is then a `BlankLine`, written
    back empty. -/
example : (Document.parse mdCfg 22 (L "Title\n==  \n")).bind (fun d => Markdown.renderRes {} d) = .ok (L "Title\n==\n") := by
  decide +kernel
example : topKinds (Document.parse mdCfg 22 (L "Title\n    ===\n")) = ["Paragraph"] ∧
    (Document.parse mdCfg 22 (L "Title\n    ===\n")).bind (fun d => Markdown.renderRes {} d) = .ok (L "Title\n===\n") := by
  refine ⟨?_, ?_⟩ <;> decide +kernel
example : (Blk3.setext [L "Title\n"] 4 '=' 3).ok = false := by decide +kernel
example : (Blk3.html [L "<div>\n", L "  \n", L "x\n"]).ok = false := by decide +kernel
example : topKinds (Document.parse mdCfg 22 (L "<div>\n  \nx\n")) = ["HtmlBlock", "BlankLine", "Paragraph"] ∧
    (Document.parse mdCfg 22 (L "<div>\n  \nx\n")).bind (fun d => Markdown.renderRes {} d) = .ok (L "<div>\n\nx\n") := by
  refine ⟨?_, ?_⟩ <;> decide +kernel
/-- a line that only LOOKS like a tag is not an HTML block start (`<x y` is neither a table name nor a complete tag) -/
example : (Blk3.html [L "<x y\n"]).ok = false ∧ (Blk3.html [L "<pre>\n"]).ok = false := by
  refine ⟨?_, ?_⟩ <;> decide +kernel

end Mistletoe.MdRoundSetext
