/-
  C18 (at text level) — property theorems only; the proofs are in Proofs/ContribSame.lean (which builds on Props/C18.lean).

  Props/C18.lean shows that the four contrib renderers resolve every non-extension render-map entry to HtmlRenderer's
  functions and that their token lists differ from HtmlRenderer's only by the extension token.  What was missing is the
  parser: that PARSING under the extended token list gives the same document when the text does not use the extension.
  Proofs/ContribSame.lean proves it for every text: the span resolver never reads a candidate's class index (so inserting a
  class that finds nothing changes nothing), GithubWiki finds nothing in a text without "[[", Math nothing in a text without
  "$", and every inline string the constructors tokenize is made of pieces of the input lines that cannot create a "[[" or a
  "$" (an invariant carried through the whole block phase: quote markers stripped, list items cut, table cells split and
  unescaped, paragraph lines joined).
-/
import Mistletoe.Proofs.ContribSame
namespace Mistletoe.Props.C18T
open Mistletoe Mistletoe.Py Mistletoe.Inline Mistletoe.Html

/-- **GitHub-wiki renderer**: for every text without "[[" and every option set, parse-and-render under the GithubWiki
    renderer's token lists and functions gives exactly the HTML renderer's output. -/
theorem C18_githubwiki_same_output (o : Opts) (gas : Nat) (t : Str) (ht : isInfix ['[', '['] t = false) :
    Config.renderContrib Config.githubWiki { o with flavor := .githubWiki } gas t = Config.renderHtml o gas t :=
  Mistletoe.ContribSame.C18_githubwiki_same_output o gas t ht

/-- **MathJax renderer**: for every text without "$", the output is the HTML renderer's output followed by the script line. -/
theorem C18_mathjax_same_output (o : Opts) (gas : Nat) (t : Str) (ht : '$' ∉ t) :
    Config.renderContrib Config.mathjax { o with flavor := .mathjax } gas t =
      (Config.renderHtml o gas t).map (· ++ Gen.RenderMaps.mathjaxSrc) :=
  Mistletoe.ContribSame.C18_mathjax_same_output o gas t ht

/-- **TOC renderer**: the same output as the HTML renderer for every text. -/
theorem C18_toc_same_output (o : Opts) (gas : Nat) (t : Str) :
    Config.renderContrib Config.toc { o with flavor := .toc } gas t = Config.renderHtml o gas t :=
  Mistletoe.ContribSame.C18_toc_same_output o gas t

/-- **Pygments renderer**: same token lists, and in the model the same render functions outside code blocks (Pygments itself
    is not modelled: `supported` excludes documents with code blocks, `C18_pygments_supported`). -/
theorem C18_pygments_same_output (o : Opts) (gas : Nat) (t : Str) :
    Config.renderContrib Config.pygments { o with flavor := .pygments } gas t = Config.renderHtml o gas t :=
  Mistletoe.ContribSame.C18_pygments_same_output o gas t

theorem C18_pygments_supported (o : Opts) (d : Doc) :
    supported { o with flavor := .pygments } d = (supported { o with flavor := .html } d && Mistletoe.ContribSame.noCodeBlocks d.kids) :=
  Mistletoe.ContribSame.supported_pygments o d

/-- the parse itself is the same (token trees, not only outputs) -/
theorem C18_same_parse (cfgW cfgM cfgH : Document.Cfg) (hW : Config.githubWiki = some cfgW) (hM : Config.mathjax = some cfgM)
    (hH : Config.html = some cfgH) (gas : Nat) (t : Str) :
    (isInfix ['[', '['] t = false → Document.parse cfgW gas t = Document.parse cfgH gas t) ∧
    ('$' ∉ t → Document.parse cfgM gas t = Document.parse cfgH gas t) :=
  ⟨Mistletoe.ContribSame.C18_githubwiki_same_text cfgW cfgH hW hH gas t,
   Mistletoe.ContribSame.C18_mathjax_same_text cfgM cfgH hM hH gas t⟩

end Mistletoe.Props.C18T
