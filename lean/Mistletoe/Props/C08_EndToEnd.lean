/-
  C08 (for every text) — property theorems only; the proofs are in Proofs/HtmlEndToEnd.lean (which builds on Props/C08.lean,
  Proofs/DocShape.lean and Proofs/LatexTotal.lean, hence this second file).

  Props/C08.lean proves well-formedness for EVERY token tree under the hypothesis "heading levels are 1..6".  Every parsed
  document satisfies it (`C12_parsed_shape`), and the parser returns a document for every text (`C01_parse_terminates`), so
  the statement holds for every input text with no hypothesis left.
-/
import Mistletoe.Proofs.HtmlEndToEnd
namespace Mistletoe.Props.C08E
open Mistletoe Mistletoe.Html Mistletoe.Pred Mistletoe.Escape Mistletoe.Block Mistletoe.Lines Mistletoe.HtmlEndToEnd

/-- **For every input text and every option set the HTML renderer's output is well formed** (HTML token lists of the
    working tree, enough gas): the parse returns a document `d`, the output is the serialisation of an event list that is
    properly nested, uses only the renderer's tag vocabulary and attribute names, has quote- and angle-free attribute values
    and escaped text (`WellFormed`), and its raw leaves are exactly the contents of `d`'s HTML blocks and spans, in order. -/
theorem C08_every_text (o : Opts) (cfg : Document.Cfg) (hc : Config.html = some cfg) (gas : Nat) (t : Str)
    (hg : gasBound cfg.block (docBuf (normalize (.str t))) ≤ gas) :
    ∃ d, Document.parse cfg gas t = .ok d ∧ Config.renderHtml o gas t = some (render o d) ∧
      render o d = flat (renderDoc o.q d) ∧ WellFormed (renderDoc o.q d)
      ∧ rawsOf (renderDoc o.q d) = (if (renderDoc o.q d).isEmpty then [] else htmlOfL d.kids) :=
  Mistletoe.Props.C08.C08_every_text o cfg hc gas t hg

/-- **With raw-HTML processing disabled nothing raw reaches the output**: under every configuration whose token lists contain
    neither `HtmlBlock` nor `HtmlSpan` (that is `HtmlRenderer(process_html_tokens=False)`, `C08_no_raw_config_current`), for
    every text, the output is well formed and contains no raw leaf at all - document text cannot inject markup. -/
theorem C08_every_text_no_raw (o : Opts) (cfg : Document.Cfg)
    (hhb : BTok.htmlBlock ∉ cfg.block.types) (hsp : Inline.STok.htmlSpan ∉ cfg.span) (gas : Nat) (t : Str)
    (hg : gasBound cfg.block (docBuf (normalize (.str t))) ≤ gas) :
    ∃ d, Document.parse cfg gas t = .ok d ∧ render o d = flat (renderDoc o.q d) ∧
      WellFormed (renderDoc o.q d) ∧ ∀ e ∈ renderDoc o.q d, isRaw e = false :=
  Mistletoe.Props.C08.C08_every_text_no_raw_general o cfg hhb hsp gas t hg

/-- the token lists `HtmlRenderer(process_html_tokens=False)` installs in the working tree satisfy that hypothesis -/
theorem C08_no_raw_config_current (cfg : Document.Cfg) (hc : Config.htmlNoRaw = some cfg) :
    BTok.htmlBlock ∉ cfg.block.types ∧ Inline.STok.htmlSpan ∉ cfg.span :=
  Mistletoe.Props.C08.htmlNoRaw_no_html_classes cfg hc

end Mistletoe.Props.C08E
