/-
  C09 (setext headings and HTML blocks) — property theorems only; the proofs are in Proofs/MdRoundSetext.lean (which builds on
  Proofs/MdRoundCode.lean and Proofs/ComposeCode.lean, hence this further file).

  `Blk3` = the blocks of Props/C09_Code.lean (inert paragraphs, ATX headings, thematic breaks, fenced and indented code) +
    * SETEXT HEADINGS in the renderer's normal form: one or more inert prose lines and an underline of `=` (level 1) or `-`
      (level 2) at indentation 0-3, of any length >= 1, without trailing whitespace (`SetextHeading.__init__` keeps the
      underline as parsed, right-stripped; `render_setext_heading` writes it back);
    * HTML BLOCKS of start condition 6 or 7 (a line beginning, after 0-3 spaces, with a block-level tag name or a complete
      open / closing tag): the lines are kept verbatim up to the separating empty line; content lines are arbitrary non-blank
      lines (they are not parsed).
  Documents of such blocks separated by single empty lines, no line limit, either `normalize_whitespace`: exact reproduction,
  idempotence, same document under every token list, same HTML.  With setext headings at top level only (inside a block quote
  the recorded finding `setext-in-quote` applies: the text is still reproduced, but the tree holds no SetextHeading);
  without setext headings inside any number of block quotes.
  Findings of the proof (model and code agree): trailing whitespace after an underline is dropped (text changes, meaning does
  not); an underline indented >= 4 spaces is a paragraph line that comes back as a heading (the recorded class "continuation
  lines indented >= 4"); a whitespace-only line ends an HTML block.
-/
import Mistletoe.Proofs.MdRoundSetext
namespace Mistletoe.Props.C09S
open Mistletoe Mistletoe.Py Mistletoe.Inline Mistletoe.InertInline Mistletoe.MdRound Mistletoe.MdRoundSetext

/-- **Round trip with setext headings and HTML blocks at top level**, for the token lists the Markdown renderer installs. -/
theorem C09_setext_roundtrip_partial (cfg : Document.Cfg) (hcfg : Config.markdown = some cfg)
    (it : Blk3) (rest : List Blk3) (hok : it.ok = true) (hrest : ∀ x ∈ rest, x.ok = true) (hadj : adjOk3 it rest = true)
    (o : Markdown.Opts) (ho : o.maxLineLength = none) (gas : Nat) :
    ∃ d, Document.parse cfg (gas + (2 * rest.length + 14)) (itemsLines3 it rest).flatten = .ok d ∧
      Markdown.renderRes o d = .ok (itemsLines3 it rest).flatten ∧
      Markdown.render o d = (itemsLines3 it rest).flatten ∧
      (∃ d', Document.parse cfg (gas + (2 * rest.length + 14)) (Markdown.render o d) = .ok d' ∧
        Markdown.render o d' = Markdown.render o d) ∧
      (∀ (cfg' : Document.Cfg) (g : Nat),
        Document.parse cfg' g (Markdown.render o d) = Document.parse cfg' g (itemsLines3 it rest).flatten) ∧
      (∀ (hopts : Html.Opts) (g : Nat),
        Config.renderHtml hopts g (Markdown.render o d) = Config.renderHtml hopts g (itemsLines3 it rest).flatten) :=
  Mistletoe.MdRoundSetext.C09_setext_roundtrip_partial cfg hcfg it rest hok hrest hadj o ho gas

/-- **… and inside `k` nested block quotes** when the document has no setext heading. -/
theorem C09_quoted_html_roundtrip_partial (cfg : Document.Cfg) (hcfg : Config.markdown = some cfg)
    (it : Blk3) (rest : List Blk3) (hok : it.ok = true) (hrest : ∀ x ∈ rest, x.ok = true) (hadj : adjOk3 it rest = true)
    (hnsx : ∀ x ∈ it :: rest, x.isSetext = false)
    (hnt : ∀ l ∈ itemsLines3 it rest, '\t' ∉ l) (k : Nat)
    (o : Markdown.Opts) (ho : o.maxLineLength = none) (gas : Nat) :
    ∃ d, Document.parse cfg (gas + (2 * rest.length + 14) + k * 8) (qStrs k (itemsLines3 it rest)).flatten = .ok d ∧
      Markdown.renderRes o d = .ok (qStrs k (itemsLines3 it rest)).flatten ∧
      Markdown.render o d = (qStrs k (itemsLines3 it rest)).flatten ∧
      (∃ d', Document.parse cfg (gas + (2 * rest.length + 14) + k * 8) (Markdown.render o d) = .ok d' ∧
        Markdown.render o d' = Markdown.render o d) ∧
      (∀ (cfg' : Document.Cfg) (g : Nat),
        Document.parse cfg' g (Markdown.render o d) = Document.parse cfg' g (qStrs k (itemsLines3 it rest)).flatten) ∧
      (∀ (hopts : Html.Opts) (g : Nat),
        Config.renderHtml hopts g (Markdown.render o d) = Config.renderHtml hopts g (qStrs k (itemsLines3 it rest)).flatten) :=
  Mistletoe.MdRoundSetext.C09_quoted_html_roundtrip_partial cfg hcfg it rest hok hrest hadj hnsx hnt k o ho gas

end Mistletoe.Props.C09S
