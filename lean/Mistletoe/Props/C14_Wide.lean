/-
  C14 (wider inline condition) — property theorems only; the proofs are in Proofs/InertInline2.lean (which builds on
  Props/C14.lean, hence this second file).

  `C14_prose_text` (Props/C14.lean) needs `inertBody`: every run of `*`/`_` unable to close, no `]` after a `[`, `&` not
  followed by anything that looks like a reference.  Here the same conclusion is proved under two weaker decidable
  conditions: `inertBody2` - runs may open or close as long as no run that can open is followed later by a run of the same
  character that can close (so `process_emphasis` finds no pair); `&…;` allowed when `html.unescape` leaves it alone
  (`&foo;`, `&;`, `&#;`); `<=`, `<3`, `<-` allowed - and `inertBody3` - additionally `]` after `[` when neither `(` nor
  `[` follows it directly (a document of inert lines has no definitions, so no bracket pair becomes a link).  Measured
  on the generator of the C14 check: inertBody accepts 61 %, inertBody2 82 %, inertBody3 95 % of the spec-derived inert
  domain; what is left are texts with a backslash before a non-punctuation character.
-/
import Mistletoe.Proofs.InertInline2
import Mistletoe.Proofs.InertInline3
import Mistletoe.Proofs.InertInline5
namespace Mistletoe.Props.C14W
open Mistletoe Mistletoe.Py Mistletoe.Scan Mistletoe.Block Mistletoe.Inline Mistletoe.InertInline Mistletoe.InertInline2 Mistletoe.InertInline3
open Mistletoe.Html Mistletoe.Escape
open Mistletoe.Props.C14 (inertLine)

/-- **End to end under `inertBody3`**: the document `l₁ ++ … ++ lₙ` of "\n"-terminated, block-inert prose lines whose
    stripped lines joined by "\n" satisfy `inertBody3` is ONE `Paragraph` holding the lines as `RawText`s separated by
    soft `LineBreak`s, and the HTML renderer gives `<p>`, the HTML-escaped text, `</p>` and a newline, for every option
    set; for every configuration with `Paragraph` among the block types and covered span classes. -/
theorem C14_prose_text3 (cfg : Document.Cfg) (hpar : .paragraph ∈ cfg.block.types)
    (ht : ∀ t ∈ cfg.span, inertClass t = true) (hc : cfg.span.count .lineBreak = 1)
    (ls : List Str) (hne : ls ≠ []) (h1 : ∀ l ∈ ls, oneLine l = true)
    (hl : ∀ l ∈ ls, inertLine l = true ∧ proseLine l = true)
    (hi : inertBody3 (Document.joinNl (ls.map strip)) = true) (gas : Nat) :
    Document.parse cfg (gas + (cfg.block.types.length + 4)) ls.flatten =
        .ok { kids := [.paragraph (proseInlines (ls.map strip)) 1], footnotes := [] } ∧
    ∀ o : Opts, render o { kids := [.paragraph (proseInlines (ls.map strip)) 1], footnotes := [] } =
        "<p>".toList ++ escapeHtmlText o.dq o.sq (Document.joinNl (ls.map strip)) ++ "</p>\n".toList :=
  Mistletoe.Props.C14.C14_prose_text3 cfg hpar ht hc ls hne h1 hl hi gas

/-- **End to end under `inertBody4`** (Proofs/InertInline3.lean): as `C14_prose_text3`, and a backslash is allowed when the
    next character exists, is not ASCII punctuation and is not a newline (`C:\dir`, `a \ b`: a literal backslash in
    CommonMark - no escape, no hard break). -/
theorem C14_prose_text4 (cfg : Document.Cfg) (hpar : .paragraph ∈ cfg.block.types)
    (ht : ∀ t ∈ cfg.span, inertClass t = true) (hc : cfg.span.count .lineBreak = 1)
    (ls : List Str) (hne : ls ≠ []) (h1 : ∀ l ∈ ls, oneLine l = true)
    (hl : ∀ l ∈ ls, inertLine l = true ∧ proseLine l = true)
    (hi : inertBody4 (Document.joinNl (ls.map strip)) = true) (gas : Nat) :
    Document.parse cfg (gas + (cfg.block.types.length + 4)) ls.flatten =
        .ok { kids := [.paragraph (proseInlines (ls.map strip)) 1], footnotes := [] } ∧
    ∀ o : Opts, render o { kids := [.paragraph (proseInlines (ls.map strip)) 1], footnotes := [] } =
        "<p>".toList ++ escapeHtmlText o.dq o.sq (Document.joinNl (ls.map strip)) ++ "</p>\n".toList :=
  Mistletoe.Props.C14.C14_prose_text4 cfg hpar ht hc ls hne h1 hl hi gas

/-- **End to end under `inertBody5`** (Proofs/InertInline5.lean): as `C14_prose_text4`, and a `<` before a letter, `/`, `!` or `?`
    is allowed when no tag, comment, instruction, declaration or autolink can be completed: no `>` follows in the paragraph, or
    - after a letter - the tag name is followed by neither `>`, `/>` nor whitespace and an attribute name, the scheme run is not
    followed by `:` and the e-mail local part not by `@` (`a <b c`, `if i<n; then j>0`, `x </3 > y`). -/
theorem C14_prose_text5 (cfg : Document.Cfg) (hpar : .paragraph ∈ cfg.block.types)
    (ht : ∀ t ∈ cfg.span, inertClass t = true) (hc : cfg.span.count .lineBreak = 1)
    (ls : List Str) (hne : ls ≠ []) (h1 : ∀ l ∈ ls, oneLine l = true)
    (hl : ∀ l ∈ ls, inertLine l = true ∧ proseLine l = true)
    (hi : Mistletoe.InertInline5.inertBody5 (Document.joinNl (ls.map strip)) = true) (gas : Nat) :
    Document.parse cfg (gas + (cfg.block.types.length + 4)) ls.flatten =
        .ok { kids := [.paragraph (proseInlines (ls.map strip)) 1], footnotes := [] } ∧
    ∀ o : Opts, render o { kids := [.paragraph (proseInlines (ls.map strip)) 1], footnotes := [] } =
        "<p>".toList ++ escapeHtmlText o.dq o.sq (Document.joinNl (ls.map strip)) ++ "</p>\n".toList :=
  Mistletoe.Props.C14.C14_prose_text5 cfg hpar ht hc ls hne h1 hl hi gas

/-- `inertBody4` implies `inertBody5` -/
theorem C14_conditions_nested5 (s : Str) (h : inertBody4 s = true) : Mistletoe.InertInline5.inertBody5 s = true :=
  Mistletoe.Props.C14.C14_inertBody5_weaker s h

/-- `inertBody3` implies `inertBody4` -/
theorem C14_conditions_nested4 (s : Str) (h : inertBody3 s = true) : inertBody4 s = true :=
  Mistletoe.Props.C14.C14_inertBody4_weaker s h

/-- the same under `inertBody2` (any table of definitions at the inline level: `C14_core_inert2`) -/
theorem C14_prose_text2 (cfg : Document.Cfg) (hpar : .paragraph ∈ cfg.block.types)
    (ht : ∀ t ∈ cfg.span, inertClass t = true) (hc : cfg.span.count .lineBreak = 1)
    (ls : List Str) (hne : ls ≠ []) (h1 : ∀ l ∈ ls, oneLine l = true)
    (hl : ∀ l ∈ ls, inertLine l = true ∧ proseLine l = true)
    (hi : inertBody2 (Document.joinNl (ls.map strip)) = true) (gas : Nat) :
    Document.parse cfg (gas + (cfg.block.types.length + 4)) ls.flatten =
        .ok { kids := [.paragraph (proseInlines (ls.map strip)) 1], footnotes := [] } ∧
    ∀ o : Opts, render o { kids := [.paragraph (proseInlines (ls.map strip)) 1], footnotes := [] } =
        "<p>".toList ++ escapeHtmlText o.dq o.sq (Document.joinNl (ls.map strip)) ++ "</p>\n".toList :=
  Mistletoe.Props.C14.C14_prose_text2 cfg hpar ht hc ls hne h1 hl hi gas

/-- the three conditions are nested -/
theorem C14_conditions_nested (s : Str) :
    (inertBody s = true → inertBody2 s = true) ∧ (inertBody2 s = true → inertBody3 s = true) :=
  Mistletoe.Props.C14.C14_inertBody2_weaker s

/-- **No opener before a closer, no emphasis**: for every text in which no run of `*`/`_` that can open is followed by a
    run of the same character that can close (and without backslash / backquote / link-forming brackets), under ANY table
    of definitions, `find_core_tokens` returns nothing. -/
theorem C14_core_inert2 (s : Str) (fn : Footnotes.Table) (h : inertBody2 s = true) : Core.findCoreTokens s fn = .ok ([], []) :=
  Mistletoe.Props.C14.C14_core_inert2 s fn h

/-- strictly weaker: accepted by `inertBody3` (resp. `inertBody2`) and rejected by the narrower condition; and still
    rejecting what is markup -/
example : inertBody2 "a* b_ c".toList = true ∧ inertBody "a* b_ c".toList = false ∧
    inertBody3 "[a] b, [x] [y]".toList = true ∧ inertBody2 "[a] b, [x] [y]".toList = false ∧
    inertBody3 "2*3* x".toList = false ∧ inertBody3 "[a](b)".toList = false := by decide +kernel

end Mistletoe.Props.C14W
