/-
  C04 (at the level of the document) — property theorems only; the proofs are in Proofs/DocLevel.lean.

  Props/C04.lean / Props/C04_General.lean are about the block phase.  Here the token constructors and the inline phase are
  carried along, so the statements are about the token tree `Document(lines)` returns.
-/
import Mistletoe.Proofs.DocLevel
namespace Mistletoe.Props.C04D
open Mistletoe Mistletoe.Py Mistletoe.Scan Mistletoe.Block Mistletoe.Document Mistletoe.DocLevel
open Mistletoe.Props.C04 (indentDocAt normDoc itemDocOk2)

/-- **Quoting a document wraps its parse unchanged, at document level**: under the hypotheses of `C04_quote_phase_same` (flag
    independence: the parse does not depend on `Paragraph.parse_setext`), `Document` of the lines behind "> " is ONE Quote on
    line 1 whose children are exactly the children of `Document(lines)` - same tokens, same line numbers - with the same
    definitions. -/
theorem C04_quote_document (cfg : Document.Cfg) (pre post : List BTok) (hty : cfg.block.types = pre ++ .quote :: post)
    (hnq : .quote ∉ pre) (hnp : .paragraph ∉ pre) (ss : List Str) (hne : ss ≠ []) (hnt : ∀ s ∈ ss, '\t' ∉ s)
    (gas : Nat) (B : Buf) (st₁ st₂ : St)
    (hB : blockPhase cfg.block gas ss = .ok (B, st₁))
    (hoff : tokenizeBlock cfg.block gas (Props.C14.numbered 0 ss) 1 { setext := false } = .ok (B, st₂))
    (hdefs : st₂.defs = st₁.defs) (d : Doc) (hd : parseLines cfg gas ss = .ok d) :
    parseLines cfg (gas + (pre.length + 3)) (ss.map (fun s => '>' :: ' ' :: s)) =
      .ok { kids := [.quote d.kids 1], footnotes := d.footnotes } :=
  Mistletoe.DocLevel.C04_quote_document cfg pre post hty hnq hnp ss hne hnt gas B st₁ st₂ hB hoff hdefs d hd

/-- **List-indenting a document wraps its parse unchanged, at document level**: under the hypotheses of
    `C04_item_phase_general_partial`, `Document` of the lines indented as one list item is ONE List with ONE ListItem (marker,
    indentation, content offset as written; looseness as the buffer says) whose children are the children of the document of the
    text with its spaces-only lines read as "\n". -/
theorem C04_item_document_partial (cfg : Document.Cfg) (pre post : List BTok) (hty : cfg.block.types = pre ++ .list :: post)
    (hnl : .list ∉ pre) (hnp : .paragraph ∉ pre) (hnt : .table ∉ pre)
    (m : Str) (hm : ListLeader m) (i : Nat) (hi : i ≤ 3) (pad : Nat) (h1 : 1 ≤ pad) (h4 : pad ≤ 4)
    (s0 : Str) (ss : List Str) (hok : itemDocOk2 (s0 :: ss) = true)
    (htb : Scan.thematicBreak (List.replicate i ' ' ++ (m ++ List.replicate pad ' ' ++ s0)) = false)
    (blanksToo : Bool) (gas : Nat) (B : Buf) (st' : St) (hB : blockPhase cfg.block gas (normDoc (s0 :: ss)) = .ok (B, st')) :
    parseLines cfg (gas + (pre.length + 4)) (indentDocAt i m pad blanksToo (s0 :: ss)) =
      rmap (itemDoc m i (i + m.length + pad) (decide (B.entries.length > 1) && B.loose)) (parseLines cfg gas (normDoc (s0 :: ss))) :=
  Mistletoe.DocLevel.C04_item_document_partial cfg pre post hty hnl hnp hnt m hm i hi pad h1 h4 s0 ss hok htb blanksToo gas B st' hB

end Mistletoe.Props.C04D
