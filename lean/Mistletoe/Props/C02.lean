/-
  C02 — all CommonMark 0.30 normative examples render exactly as specified.

  The corpus (652 examples, vendored under /verif/corpus and turned into Lean data by
  harness/extract.py: `Gen/Corpus.lean`) is a finite table, so the property is decided for the model
  by evaluating the model on the whole table in the kernel (`decide +kernel`, one chunk per file under
  `Proofs/Corpus/`, no axioms).  What is evaluated: `Document(markdown)` under the token lists the
  HTML renderer installs (regenerated from /repo: `Gen/RenderMaps.lean`), then
  `HtmlRenderer(html_escape_double_quotes=True).render`.  The theorem states *byte equality* with the
  expected HTML, which implies equality under the specification's normalisation (or any other
  function of the output): `C02_corpus_normalised`.
-/
import Mistletoe.Proofs.Corpus.P00
import Mistletoe.Proofs.Corpus.P01
import Mistletoe.Proofs.Corpus.P02
import Mistletoe.Proofs.Corpus.P03
import Mistletoe.Proofs.Corpus.P04
import Mistletoe.Proofs.Corpus.P05
import Mistletoe.Proofs.Corpus.P06
import Mistletoe.Proofs.Corpus.P07
import Mistletoe.Proofs.Corpus.P08
import Mistletoe.Proofs.Corpus.P09
import Mistletoe.Proofs.Corpus.P10
import Mistletoe.Proofs.Corpus.P11
import Mistletoe.Proofs.Corpus.P12
import Mistletoe.Proofs.Corpus.P13
import Mistletoe.Proofs.Corpus.P14
import Mistletoe.Proofs.Corpus.P15
import Mistletoe.Proofs.Corpus.P16
import Mistletoe.Proofs.Corpus.P17
import Mistletoe.Proofs.Corpus.P18
import Mistletoe.Proofs.Corpus.P19
import Mistletoe.Proofs.Corpus.P20
import Mistletoe.Proofs.Corpus.P21
import Mistletoe.Proofs.Corpus.P22
import Mistletoe.Proofs.Corpus.P23
import Mistletoe.Proofs.Corpus.P24
import Mistletoe.Proofs.Corpus.P25
import Mistletoe.Proofs.Corpus.P26
import Mistletoe.Proofs.Corpus.P27
import Mistletoe.Proofs.Corpus.P28
import Mistletoe.Proofs.Corpus.P29
import Mistletoe.Proofs.Corpus.P30
import Mistletoe.Proofs.Corpus.P31
import Mistletoe.Gen.Corpus
namespace Mistletoe.Props.C02
open Mistletoe Mistletoe.Proofs.Corpus

theorem all_chunks : ∀ c ∈ Gen.Corpus.chunks, c.all SpecCheck.exampleOk = true := by
  intro c hc
  simp only [Gen.Corpus.chunks, List.mem_cons, List.not_mem_nil, or_false] at hc
  rcases hc with rfl | rfl | rfl | rfl | rfl | rfl | rfl | rfl | rfl | rfl | rfl | rfl | rfl | rfl | rfl | rfl | rfl | rfl | rfl | rfl | rfl | rfl | rfl | rfl | rfl | rfl | rfl | rfl | rfl | rfl | rfl | rfl
  · exact chunk00_ok
  · exact chunk01_ok
  · exact chunk02_ok
  · exact chunk03_ok
  · exact chunk04_ok
  · exact chunk05_ok
  · exact chunk06_ok
  · exact chunk07_ok
  · exact chunk08_ok
  · exact chunk09_ok
  · exact chunk10_ok
  · exact chunk11_ok
  · exact chunk12_ok
  · exact chunk13_ok
  · exact chunk14_ok
  · exact chunk15_ok
  · exact chunk16_ok
  · exact chunk17_ok
  · exact chunk18_ok
  · exact chunk19_ok
  · exact chunk20_ok
  · exact chunk21_ok
  · exact chunk22_ok
  · exact chunk23_ok
  · exact chunk24_ok
  · exact chunk25_ok
  · exact chunk26_ok
  · exact chunk27_ok
  · exact chunk28_ok
  · exact chunk29_ok
  · exact chunk30_ok
  · exact chunk31_ok

/-- **Every example of the corpus is rendered by the model exactly as the specification expects.** -/
theorem C02_corpus : ∀ e ∈ Gen.Corpus.all, SpecCheck.run e.2.1 = some e.2.2 := by
  intro e he
  simp only [Gen.Corpus.all, List.mem_flatten] at he
  obtain ⟨c, hc, hec⟩ := he
  have := List.all_eq_true.mp (all_chunks c hc) e hec
  simpa [SpecCheck.exampleOk] using this

/-- the corpus is complete: exactly the examples numbered 1, 2, …, 652, in order -/
theorem C02_corpus_complete : Gen.Corpus.all.map (·.1) = List.range' 1 652 := by decide +kernel

/-- equality under any normalisation of the two HTML strings (in particular the specification's own) -/
theorem C02_corpus_normalised (norm : Str → Str) : ∀ e ∈ Gen.Corpus.all,
    (SpecCheck.run e.2.1).map norm = some (norm e.2.2) := by
  intro e he
  rw [C02_corpus e he]; rfl

/-- the configuration the theorem is about is known to the model (the regenerated token lists map
    to model token types) and is the HTML renderer's list with `HtmlBlock` / `HtmlSpan` installed -/
theorem C02_config_known : Config.html.isSome = true := by decide +kernel

/-! ### Non-vacuity: one example written out (spec example 1 is "\tfoo\tbaz\t\tbim\n") -/

example : SpecCheck.run "\tfoo\tbaz\t\tbim\n".toList = some "<pre><code>foo\tbaz\t\tbim\n</code></pre>\n".toList := by
  decide +kernel
example : SpecCheck.run "*foo **bar***\n".toList = some "<p><em>foo <strong>bar</strong></em></p>\n".toList := by
  decide +kernel
/-- and the check is not trivially true: a wrong expectation is refuted -/
example : SpecCheck.exampleOk (0, "*a*\n".toList, "<p>*a*</p>\n".toList) = false := by decide +kernel

end Mistletoe.Props.C02
