/-
  C07 (a reference in the text reaches the lookup) — property theorems only; the proofs are in Proofs/RefResolve.lean
  (which builds on Proofs/InertInline2.lean and Props/C07_Order.lean, hence this third file).

  Props/C07.lean and Props/C07_Order.lean are about the TABLE (first definition in document order wins, normalisation,
  lookup).  Here: the inline parser (the model of core_tokens.py / span_tokenizer.py) meeting a reference written in
  otherwise plain text - shortcut `[lbl]`, collapsed `[lbl][]`, full `[text][lbl]`, and the image forms `![…]` - calls
  that lookup with `normalize_label(lbl)`, produces ONE Link / Image token carrying the looked-up destination and title
  when the lookup succeeds, and leaves the text literal (no token at all) when it fails.
  "Plain" (`plainStr`): any characters but `\ ` < & ~ [ ] * _ !` and newline; the label is not blank; behind a shortcut
  reference no `(` (it would be read as an inline link).  `img = true` is the image form.
-/
import Mistletoe.Proofs.RefResolve
namespace Mistletoe.Props.C07R
open Mistletoe Mistletoe.Py Mistletoe.Core Mistletoe.Inline Mistletoe.InertInline Mistletoe.RefResolve Mistletoe.Html

/-- **A shortcut reference with a matching definition resolves to it**: exactly one core match - a link (image) from
    the `[` (`![`) to the `]` whose text span is the label and whose destination and title are the looked-up ones - and
    `tokenize_inner` returns the text before, ONE Link / Image token, the text after. -/
theorem C07_shortcut_resolves (img : Bool) (types : List STok) (fn : Footnotes.Table) (pre lbl post dest title : Str)
    (h : RefText pre lbl post) (ht : ∀ t ∈ types, inertClass t = true) (hc : types.count .coreTokens = 1)
    (hl : Footnotes.lookup fn (Footnotes.normalizeLabel lbl) = some (dest, title)) :
    findCoreTokens (pre ++ opener img ++ lbl ++ ']' :: post) fn =
        .ok ([refMatch img pre.length lbl.length (pre.length + (opener img).length + lbl.length + 1)
          dest title "shortcut" none], []) ∧
      tokenizeInner types fn (pre ++ opener img ++ lbl ++ ']' :: post) =
        .ok (rawOf pre ++ [refToken img dest title "shortcut" none [.rawText lbl]] ++ rawOf post) :=
  ref_shortcut_resolves img types fn pre lbl post dest title h ht hc hl

/-- **A reference with no matching definition stays literal text**: no core match at all; one RawText with the whole text. -/
theorem C07_shortcut_unresolved (img : Bool) (types : List STok) (fn : Footnotes.Table) (pre lbl post : Str)
    (h : RefText pre lbl post) (ht : ∀ t ∈ types, inertClass t = true)
    (hl : Footnotes.lookup fn (Footnotes.normalizeLabel lbl) = none) :
    findCoreTokens (pre ++ opener img ++ lbl ++ ']' :: post) fn = .ok ([], []) ∧
      tokenizeInner types fn (pre ++ opener img ++ lbl ++ ']' :: post) =
        .ok [.rawText (pre ++ opener img ++ lbl ++ ']' :: post)] :=
  ref_shortcut_unresolved img types fn pre lbl post h ht hl

/-- **Full reference `[text][lbl]`**: the lookup is done with `lbl`; the token's child is `text`. -/
theorem C07_full_resolves (img : Bool) (types : List STok) (fn : Footnotes.Table) (pre text lbl post dest title : Str)
    (hpre : plainStr pre = true) (htext : plainStr text = true) (hne : text ≠ [])
    (hlbl : plainStr lbl = true) (hb : isBlank lbl = false) (hpost : plainStr post = true)
    (ht : ∀ t ∈ types, inertClass t = true) (hc : types.count .coreTokens = 1)
    (hl : Footnotes.lookup fn (Footnotes.normalizeLabel lbl) = some (dest, title)) :
    findCoreTokens (pre ++ opener img ++ text ++ ']' :: '[' :: (lbl ++ ']' :: post)) fn =
        .ok ([refMatch img pre.length text.length (pre.length + (opener img).length + text.length + 1 + (1 + lbl.length + 1))
          dest title "full" (some lbl)], []) ∧
      tokenizeInner types fn (pre ++ opener img ++ text ++ ']' :: '[' :: (lbl ++ ']' :: post)) =
        .ok (rawOf pre ++ [refToken img dest title "full" (some lbl) [.rawText text]] ++ rawOf post) :=
  ref_full_resolves img types fn pre text lbl post dest title hpre htext hne hlbl hb hpost ht hc hl

/-- … and when `lbl` has no definition the whole text stays literal - even if `text` itself is a defined label. -/
theorem C07_full_unresolved (img : Bool) (types : List STok) (fn : Footnotes.Table) (pre text lbl post : Str)
    (htext : plainStr text = true) (h : RefText pre lbl post) (ht : ∀ t ∈ types, inertClass t = true)
    (hl : Footnotes.lookup fn (Footnotes.normalizeLabel lbl) = none) :
    findCoreTokens (pre ++ opener img ++ text ++ ']' :: '[' :: (lbl ++ ']' :: post)) fn = .ok ([], []) ∧
      tokenizeInner types fn (pre ++ opener img ++ text ++ ']' :: '[' :: (lbl ++ ']' :: post)) =
        .ok [.rawText (pre ++ opener img ++ text ++ ']' :: '[' :: (lbl ++ ']' :: post))] :=
  ref_full_unresolved img types fn pre text lbl post htext h ht hl

/-- the span-token lists of the bundled configurations satisfy the hypotheses `ht` and `hc` (regenerated lists) -/
theorem C07_resolve_config_current : ∀ cfg, (Config.html = some cfg ∨ Config.markdown = some cfg ∨ Config.default = some cfg) →
    (∀ t ∈ cfg.span, inertClass t = true) ∧ cfg.span.count .coreTokens = 1 :=
  C07_config_covered

/-- **Document level**: `[defLbl]: dest`, a blank line, `pre[lbl]post` under the HTML renderer's configuration renders
    `<p>pre<a href="dest">lbl</a>post</p>` when the two labels are equal after normalisation and `<p>pre[lbl]post</p>`
    otherwise; the definition produces no output.  `hbp` (a Boolean, evaluated per instance) is the one assumption: the block
    phase reads the first line as one definition and the last as one paragraph; the table, the lookup, the token and the
    HTML are proved. -/
theorem C07_shortcut_document_text_partial (cfg : Document.Cfg) (hcfg : Config.html = some cfg) (gas : Nat)
    (defLbl dest pre lbl post : Str) (hd : ∀ c ∈ dest, urlCh c = true) (htext : DocText pre lbl post)
    (hh : ∀ c, pre.head? = some c → pyIsSpace c = false) (hl : ∀ c, post.getLast? = some c → pyIsSpace c = false)
    (hbp : blockPhaseIs cfg.block gas (Lines.normalize (.str (docText defLbl dest pre lbl post)))
      { label := defLbl, dest := dest, title := [], destType := "uri".toList, titleDelim := none }
      (pre ++ ['['] ++ lbl ++ [']'] ++ post ++ ['\n']) = true) (o : Opts) :
    Config.renderHtml o gas (docText defLbl dest pre lbl post) =
      some (if Footnotes.normalizeLabel defLbl = Footnotes.normalizeLabel lbl
        then "<p>".toList ++ pre ++ "<a href=\"".toList ++ dest ++ "\">".toList ++ lbl ++ "</a>".toList ++ post ++ "</p>\n".toList
        else "<p>".toList ++ pre ++ ['['] ++ lbl ++ [']'] ++ post ++ "</p>\n".toList) :=
  C07_shortcut_document_text cfg hcfg gas defLbl dest pre lbl post hd htext hh hl hbp o

end Mistletoe.Props.C07R
