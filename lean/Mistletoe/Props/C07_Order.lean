/-
  C07 (document order) — property theorems only; the proofs are in Proofs/DefOrder.lean (which builds on Props/C07.lean,
  hence this second file).

  Props/C07.lean proves first-wins over the list of definitions in the order `append_footnotes` is CALLED and that all
  inline content is resolved against the one table built from them (`C07_two_phase`).  Here: call order IS document
  order.  `defsOfEntries` lists the matches of every definition entry (`Footnote` / `LinkReferenceDefinitionBlock`) of
  the parse buffer in pre-order, descending into block quotes and list items; the block phase leaves exactly that list in
  its state, whatever the nesting, whatever the token list, whatever the gas (simultaneous induction over the four
  tokenizer functions; `List.read` no longer reads an item it then discards, so every nested tokenization's definitions
  end up in a kept item).
-/
import Mistletoe.Proofs.DefOrder
namespace Mistletoe.Props.C07O
open Mistletoe Mistletoe.Py Mistletoe.Footnotes Mistletoe.Block Mistletoe.Document

/-- **The table is built from the definitions in document order**: if `Document(lines)` returns `d`, the definitions the
    block phase collected are the matches of the definition entries of the parse buffer in pre-order (top level, inside
    block quotes, inside list items alike), and `d.footnotes` is the first-wins table over that list. -/
theorem C07_table_is_document_order (cfg : Document.Cfg) (gas : Nat) (lines : List Str) (d : Doc)
    (h : parseLines cfg gas lines = .ok d) :
    ∃ buf st, blockPhase cfg.block gas lines = .ok (buf, st) ∧
      st.defs = defsOfEntries buf.entries ∧
      d.footnotes = Document.footnotesOf (defsOfEntries buf.entries) :=
  Mistletoe.Props.C07.C07_table_is_document_order cfg gas lines d h

/-- **A label resolves to the first definition in document order** whose normalised label equals it - wherever that
    definition sits relative to the use, at whatever nesting depth - with the destination and title of that definition;
    to nothing when there is none. -/
theorem C07_first_in_document_order (cfg : Document.Cfg) (gas : Nat) (lines : List Str) (d : Doc)
    (h : parseLines cfg gas lines = .ok d) (lbl : Str) :
    ∃ buf st, blockPhase cfg.block gas lines = .ok (buf, st) ∧
      resolve d.footnotes lbl =
        ((defsOfEntries buf.entries).find? (fun m => normalizeLabel m.label == normalizeLabel lbl)).map
          (fun m => (Unescape.escStrip false (strip m.dest), Unescape.escStrip false m.title)) :=
  Mistletoe.Props.C07.C07_first_in_document_order cfg gas lines d h lbl

/-- **Position independence**: two documents (under any two configurations) whose parse buffers list the same
    definitions in the same pre-order have the same table - where the definitions sit does not matter. -/
theorem C07_position_independent (cfg₁ cfg₂ : Document.Cfg) (gas₁ gas₂ : Nat) (lines₁ lines₂ : List Str)
    (d₁ d₂ : Doc) (buf₁ buf₂ : Buf) (st₁ st₂ : St)
    (h₁ : parseLines cfg₁ gas₁ lines₁ = .ok d₁) (h₂ : parseLines cfg₂ gas₂ lines₂ = .ok d₂)
    (hb₁ : blockPhase cfg₁.block gas₁ lines₁ = .ok (buf₁, st₁))
    (hb₂ : blockPhase cfg₂.block gas₂ lines₂ = .ok (buf₂, st₂))
    (hsame : defsOfEntries buf₁.entries = defsOfEntries buf₂.entries) :
    d₁.footnotes = d₂.footnotes :=
  Mistletoe.Props.C07.C07_position_independent cfg₁ cfg₂ gas₁ gas₂ lines₁ lines₂ d₁ d₂ buf₁ buf₂ st₁ st₂ h₁ h₂ hb₁ hb₂ hsame

end Mistletoe.Props.C07O
