/-
  C12 (kind discipline of parsed trees) — property theorems only; the proofs are in Proofs/DocShape.lean (which builds
  on Proofs/DocTotal.lean and Props/C13.lean, hence this second file).

  In the Lean AST inline tokens cannot contain blocks, leaf blocks hold inline tokens and code / HTML blocks keep their
  single raw text as a field - typing facts of the model, enforced on the REAL object graph by the exporter
  (harness/export.py refuses any graph that does not fit).  What typing does not give - which KINDS of blocks sit in a
  `List`, a `ListItem`, a `Quote`, a `Table`, a `TableRow`, and the range of the scalar attributes - is the decidable
  predicate `Doc.shapeOk`, proved here for every parsed document.
-/
import Mistletoe.Proofs.DocShape
namespace Mistletoe.Props.C12S
open Mistletoe Mistletoe.Block

/-- **Every parsed document is well shaped** (`Doc.shapeOk`), for every configuration and every gas: the document, quotes
    and list items hold only flow blocks (no ListItem, TableRow, TableCell); a List is not empty, holds only ListItems, and
    its `start` agrees with its first item's marker (`None` for a bullet `-`/`+`/`*`; the number before `.`/`)`, below
    10^9, for an ordered marker); a Table holds at most one header row and only TableRows, a TableRow only TableCells; a
    link-reference-definition block only definitions; heading levels are 1-6, setext levels 1-2. -/
theorem C12_parsed_shape (cfg : Document.Cfg) (gas : Nat) (lines : List Str) (d : Doc)
    (h : Document.parseLines cfg gas lines = .ok d) (hl : ∀ s ∈ lines, NlEnd s) : d.shapeOk = true :=
  Mistletoe.Props.C12.C12_parsed_shape cfg gas lines d h hl

/-- the same for `Document(text)` on a `str` -/
theorem C12_parsed_shape_str (cfg : Document.Cfg) (gas : Nat) (t : Str) (d : Doc)
    (h : Document.parse cfg gas t = .ok d) : d.shapeOk = true :=
  Mistletoe.Props.C12.C12_parsed_shape_str cfg gas t d h

/-- the predicate is not trivially true: a list holding a paragraph, a start that disagrees with the marker -/
example : (Block.list false none [.paragraph [] 1] 1).shapeOk = false := by decide +kernel
example : (Block.list false (some 4) [.listItem "3.".toList 0 3 false [] 1] 1).shapeOk = false := by decide +kernel
example : (Block.list false (some 3) [.listItem "3.".toList 0 3 false [] 1] 1).shapeOk = true := by decide +kernel

end Mistletoe.Props.C12S
