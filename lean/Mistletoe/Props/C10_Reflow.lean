/-
  C10 (on parsed documents) — reflowing prose to a maximum line length: bound, same words, same meaning, idempotent.

  Property theorems only; the proofs are in Proofs/Reflow.lean (which builds on Props/C09.lean, Props/C10.lean and
  Props/C14.lean, hence this second file).  Props/C10.lean proves the clauses for the fill loop on arbitrary fragment
  lists; here they are carried through `Document(text)` and `MarkdownRenderer(max_line_length=L).render` for the
  **plain-word prose fragment** (all `_partial`: the fragment is a hypothesis): documents of paragraphs separated by
  single empty lines whose lines are plain words joined by single spaces — `plainWord`: non-empty, no whitespace, first
  character not a digit and none of # > ` ~ - _ * + = < [ | :, no character among \ ` < & ~ [ * _ — which is the
  property's quantifier "prose words that cannot be mistaken for block markers at the start of a line" (any word may
  land at a line start after re-breaking).  Not covered: paragraphs inside containers (prefix budgets), hard breaks,
  inline markup.
-/
import Mistletoe.Proofs.Reflow
namespace Mistletoe.Props.C10R
open Mistletoe Mistletoe.Py Mistletoe.Wrap Mistletoe.Markdown Mistletoe.InertInline Mistletoe.Reflow
open Mistletoe.Props.C10 (joinWords)

/-- **Reflow of plain-word prose for the token lists of the working tree** (`Config.markdown`): with
    `max_line_length = L ≥ 1`, `MarkdownRenderer.render(Document(text))` is the text whose paragraphs are re-broken by
    the greedy fill (`reflowG`); every output line is again a non-empty sequence of the same plain words in the same
    order; an output line longer than `L` is a single word without whitespace (no breakable space); and rendering the
    rendered text again with the same `L` reproduces it. -/
theorem C10_prose_reflow_markdown_partial (cfg : Document.Cfg) (hcfg : Config.markdown = some cfg)
    (p : List (List Str)) (rest : List (List (List Str))) (hp : plainPara p = true) (hrest : ∀ q ∈ rest, plainPara q = true)
    (o : Opts) (L : Nat) (hL : 1 ≤ L) (ho : o.maxLineLength = some (L : Int)) (gas : Nat) :
    ∃ d, Document.parse cfg (gas + (2 * rest.length + 15)) (textOf p rest) = .ok d ∧
      render o d = textOf (reflowG L p) (rest.map (reflowG L)) ∧
      (∀ q ∈ p :: rest, plainPara (reflowG L q) = true ∧ (reflowG L q).flatten = q.flatten ∧
        fill L q.flatten = (reflowG L q).map joinWords) ∧
      (∀ q ∈ p :: rest, ∀ l ∈ fill L q.flatten, L < l.length → l ∈ q.flatten ∧ ∀ c ∈ l, pyIsSpace c = false) ∧
      ∃ d', Document.parse cfg (gas + (2 * rest.length + 15)) (render o d) = .ok d' ∧ render o d' = render o d :=
  C10_prose_reflow_markdown cfg hcfg p rest hp hrest o L hL ho gas

/-- **Same meaning**: the HTML of the reflowed text and the HTML of the original text are equal once every "\n" is
    replaced by a space (`nlToSp`: the position of soft line breaks is the only difference), for every HTML option
    set, through the parse-and-render pipeline of the working tree's HTML configuration. -/
theorem C10_prose_reflow_meaning_partial (p : List (List Str)) (rest : List (List (List Str))) (hp : plainPara p = true)
    (hrest : ∀ q ∈ rest, plainPara q = true) (L : Nat) (o : Html.Opts) (gas : Nat) :
    ∃ h h', Config.renderHtml o (gas + (2 * rest.length + 14)) (textOf p rest) = some h ∧
      Config.renderHtml o (gas + (2 * rest.length + 14)) (textOf (reflowG L p) (rest.map (reflowG L))) = some h' ∧
      nlToSp h' = nlToSp h :=
  C10_prose_reflow_html p rest hp hrest L o gas

/-- the same under the Html, Markdown and default token lists, as parsed documents -/
theorem C10_prose_reflow_meaning_configs_partial (cfg : Document.Cfg)
    (hcfg : Config.html = some cfg ∨ Config.markdown = some cfg ∨ Config.default = some cfg)
    (p : List (List Str)) (rest : List (List (List Str))) (hp : plainPara p = true) (hrest : ∀ q ∈ rest, plainPara q = true)
    (L : Nat) (gas : Nat) :
    ∃ d d', Document.parse cfg (gas + (2 * rest.length + cfg.block.types.length + 4)) (textOf p rest) = .ok d ∧
      Document.parse cfg (gas + (2 * rest.length + cfg.block.types.length + 4)) (textOf (reflowG L p) (rest.map (reflowG L))) = .ok d' ∧
      ∀ o : Html.Opts, nlToSp (Html.render o d') = nlToSp (Html.render o d) :=
  C10_prose_reflow_meaning_configs cfg hcfg p rest hp hrest L gas

/-- **Idempotent**, for every covered configuration: reflowing the output again with the same `L` changes nothing. -/
theorem C10_prose_reflow_idempotent_partial (cfg : Document.Cfg) (hpar : .paragraph ∈ cfg.block.types)
    (hbl : .blankLine ∈ cfg.block.types)
    (ht : ∀ t ∈ cfg.span, inertClass t = true) (hc : cfg.span.count .lineBreak = 1)
    (p : List (List Str)) (rest : List (List (List Str))) (hp : plainPara p = true) (hrest : ∀ q ∈ rest, plainPara q = true)
    (o : Opts) (L : Nat) (hL : 1 ≤ L) (ho : o.maxLineLength = some (L : Int)) (gas : Nat) :
    ∃ d, Document.parse cfg (gas + (2 * rest.length + cfg.block.types.length + 4)) (textOf p rest) = .ok d ∧
      ∃ d', Document.parse cfg (gas + (2 * rest.length + cfg.block.types.length + 4)) (render o d) = .ok d' ∧
        renderRes o d' = renderRes o d ∧ render o d' = render o d :=
  Mistletoe.Reflow.C10_prose_reflow_idempotent_partial cfg hpar hbl ht hc p rest hp hrest o L hL ho gas

/-- non-vacuity: a two-paragraph document of plain words satisfies the hypothesis -/
example : plainPara [["an".toList, "extraordinarily".toList, "long".toList], ["word".toList, "here".toList]] = true := by
  decide +kernel

end Mistletoe.Props.C10R
