/-
  C10 (on parsed documents) — reflowing prose to a maximum line length: bound, same words, same meaning, idempotent.

  Property theorems only; the proofs are in Proofs/Reflow.lean (which builds on Props/C09.lean, Props/C10.lean and
  Props/C14.lean, hence this second file).  Props/C10.lean proves the clauses for the fill loop on arbitrary fragment
  lists; here they are carried through `Document(text)` and `MarkdownRenderer(max_line_length=L).render` for the
  **plain-word prose fragment** (all `_partial`: the fragment is a hypothesis): documents of paragraphs separated by
  single empty lines whose lines are plain words joined by single spaces — `plainWord`: non-empty, no whitespace, first
  character not a digit and none of # > ` ~ - _ * + = < [ | :, no character among \ ` < & ~ [ * _ — which is the
  property's quantifier "prose words that cannot be mistaken for block markers at the start of a line" (any word may
  land at a line start after re-breaking), at top level and inside any number of nested block quotes
  (Proofs/ReflowQuote.lean).  Not covered: list items as containers, bare `>` markers and lazy lines, hard breaks,
  inline markup.
-/
import Mistletoe.Proofs.Reflow
import Mistletoe.Proofs.ReflowQuote
namespace Mistletoe.Props.C10R
open Mistletoe Mistletoe.Py Mistletoe.Wrap Mistletoe.Markdown Mistletoe.InertInline Mistletoe.MdRound Mistletoe.Reflow Mistletoe.ReflowQuote
open Mistletoe.Props.C10 (joinWords)

/-- **Reflow of plain-word prose for the token lists of the working tree** (`Config.markdown`): with
    `max_line_length = L ≥ 1`, `MarkdownRenderer.render(Document(text))` is the text whose paragraphs are re-broken by
    the greedy fill (`reflowG`); every output line is again a non-empty sequence of the same plain words in the same
    order; an output line longer than `L` is a single word without whitespace (no breakable space); and rendering the
    rendered text again with the same `L` reproduces it. -/
theorem C10_prose_reflow_markdown_partial (cfg : Document.Cfg) (hcfg : Config.markdown = some cfg)
    (p : List (List Str)) (rest : List (List (List Str))) (hp : plainPara p = true) (hrest : ∀ q ∈ rest, plainPara q = true)
    (o : Opts) (L : Nat) (hL : 1 ≤ L) (ho : o.maxLineLength = some (L : Int)) (gas : Nat) :
    ∃ d, Document.parse cfg (gas + (2 * rest.length + 15)) (textOf p rest) = .ok d ∧
      render o d = textOf (reflowG L p) (rest.map (reflowG L)) ∧
      (∀ q ∈ p :: rest, plainPara (reflowG L q) = true ∧ (reflowG L q).flatten = q.flatten ∧
        fill L q.flatten = (reflowG L q).map joinWords) ∧
      (∀ q ∈ p :: rest, ∀ l ∈ fill L q.flatten, L < l.length → l ∈ q.flatten ∧ ∀ c ∈ l, pyIsSpace c = false) ∧
      ∃ d', Document.parse cfg (gas + (2 * rest.length + 15)) (render o d) = .ok d' ∧ render o d' = render o d :=
  C10_prose_reflow_markdown cfg hcfg p rest hp hrest o L hL ho gas

/-- **Same meaning**: the HTML of the reflowed text and the HTML of the original text are equal once every "\n" is
    replaced by a space (`nlToSp`: the position of soft line breaks is the only difference), for every HTML option
    set, through the parse-and-render pipeline of the working tree's HTML configuration. -/
theorem C10_prose_reflow_meaning_partial (p : List (List Str)) (rest : List (List (List Str))) (hp : plainPara p = true)
    (hrest : ∀ q ∈ rest, plainPara q = true) (L : Nat) (o : Html.Opts) (gas : Nat) :
    ∃ h h', Config.renderHtml o (gas + (2 * rest.length + 14)) (textOf p rest) = some h ∧
      Config.renderHtml o (gas + (2 * rest.length + 14)) (textOf (reflowG L p) (rest.map (reflowG L))) = some h' ∧
      nlToSp h' = nlToSp h :=
  C10_prose_reflow_html p rest hp hrest L o gas

/-- the same under the Html, Markdown and default token lists, as parsed documents -/
theorem C10_prose_reflow_meaning_configs_partial (cfg : Document.Cfg)
    (hcfg : Config.html = some cfg ∨ Config.markdown = some cfg ∨ Config.default = some cfg)
    (p : List (List Str)) (rest : List (List (List Str))) (hp : plainPara p = true) (hrest : ∀ q ∈ rest, plainPara q = true)
    (L : Nat) (gas : Nat) :
    ∃ d d', Document.parse cfg (gas + (2 * rest.length + cfg.block.types.length + 4)) (textOf p rest) = .ok d ∧
      Document.parse cfg (gas + (2 * rest.length + cfg.block.types.length + 4)) (textOf (reflowG L p) (rest.map (reflowG L))) = .ok d' ∧
      ∀ o : Html.Opts, nlToSp (Html.render o d') = nlToSp (Html.render o d) :=
  C10_prose_reflow_meaning_configs cfg hcfg p rest hp hrest L gas

/-- **Idempotent**, for every covered configuration: reflowing the output again with the same `L` changes nothing. -/
theorem C10_prose_reflow_idempotent_partial (cfg : Document.Cfg) (hpar : .paragraph ∈ cfg.block.types)
    (hbl : .blankLine ∈ cfg.block.types)
    (ht : ∀ t ∈ cfg.span, inertClass t = true) (hc : cfg.span.count .lineBreak = 1)
    (p : List (List Str)) (rest : List (List (List Str))) (hp : plainPara p = true) (hrest : ∀ q ∈ rest, plainPara q = true)
    (o : Opts) (L : Nat) (hL : 1 ≤ L) (ho : o.maxLineLength = some (L : Int)) (gas : Nat) :
    ∃ d, Document.parse cfg (gas + (2 * rest.length + cfg.block.types.length + 4)) (textOf p rest) = .ok d ∧
      ∃ d', Document.parse cfg (gas + (2 * rest.length + cfg.block.types.length + 4)) (render o d) = .ok d' ∧
        renderRes o d' = renderRes o d ∧ render o d' = render o d :=
  Mistletoe.Reflow.C10_prose_reflow_idempotent_partial cfg hpar hbl ht hc p rest hp hrest o L hL ho gas

/-- **Reflow of plain-word prose inside `k` nested block quotes** ("> " before every line), for the token lists of the
    working tree: with `max_line_length = L ≥ 1` the renderer re-fills every paragraph with the budget `max (L − 2k) 1`
    (each quote level takes two columns, clamped at 1: `C10_budget`), the output is again `k` quotes around plain-word
    paragraphs with the same words in the same order, and **every output line is the container prefix followed by a body
    that exceeds the budget - or makes the whole line longer than `L` - only if it is a single word without whitespace**
    (no breakable space after the container prefix). -/
theorem C10_quoted_reflow_partial (cfg : Document.Cfg) (hcfg : Config.markdown = some cfg)
    (p : List (List Str)) (rest : List (List (List Str))) (hp : plainPara p = true) (hrest : ∀ q ∈ rest, plainPara q = true)
    (k : Nat) (o : Opts) (L : Nat) (hL : 1 ≤ L) (ho : o.maxLineLength = some (L : Int)) (gas : Nat) :
    ∃ d, Document.parse cfg (gas + (2 * rest.length + 15) + k * 8) (textOfQ k p rest) = .ok d ∧
      d.kids = qBlocks 1 (proseBlocks 1 (paraLines p) (rest.map paraLines)) k ∧
      renderRes o d = .ok (textOfQ k (reflowG (qBudget L k) p) (rest.map (reflowG (qBudget L k)))) ∧
      render o d = textOfQ k (reflowG (qBudget L k) p) (rest.map (reflowG (qBudget L k))) ∧
      (∀ q ∈ p :: rest, plainPara (reflowG (qBudget L k) q) = true ∧ (reflowG (qBudget L k) q).flatten = q.flatten ∧
        fill (qBudget L k) q.flatten = (reflowG (qBudget L k) q).map joinWords) ∧
      (∀ l ∈ linesQ k (reflowG (qBudget L k) p) (rest.map (reflowG (qBudget L k))),
        ∃ body, l = qPre k ++ body ++ ['\n'] ∧ (body = [] ∨ ∃ q ∈ p :: rest, body ∈ fill (qBudget L k) q.flatten) ∧
          ((qBudget L k < body.length ∨ L < (qPre k ++ body).length) → ∀ c ∈ body, pyIsSpace c = false)) ∧
      (∀ q ∈ p :: rest, ∀ body ∈ fill (qBudget L k) q.flatten,
        (qBudget L k < body.length ∨ L < (qPre k ++ body).length) → body ∈ q.flatten ∧ ∀ c ∈ body, pyIsSpace c = false) :=
  Mistletoe.ReflowQuote.C10_quoted_reflow_partial cfg hcfg p rest hp hrest k o L hL ho gas

/-- **Same meaning inside quotes**: the rendered text parses to `k` quotes around the re-filled paragraphs, and its HTML
    equals the original's once every "\n" is replaced by a space. -/
theorem C10_quoted_reflow_meaning_partial (cfg : Document.Cfg) (hcfg : Config.markdown = some cfg)
    (p : List (List Str)) (rest : List (List (List Str))) (hp : plainPara p = true) (hrest : ∀ q ∈ rest, plainPara q = true)
    (k : Nat) (o : Opts) (L : Nat) (hL : 1 ≤ L) (ho : o.maxLineLength = some (L : Int)) (hopts : Html.Opts) (gas : Nat) :
    ∃ d d', Document.parse cfg (gas + (2 * rest.length + 15) + k * 8) (textOfQ k p rest) = .ok d ∧
      Document.parse cfg (gas + (2 * rest.length + 15) + k * 8) (render o d) = .ok d' ∧
      d'.kids = qBlocks 1 (proseBlocks 1 (paraLines (reflowG (qBudget L k) p))
        ((rest.map (reflowG (qBudget L k))).map paraLines)) k ∧
      (∀ q ∈ p :: rest, plainPara (reflowG (qBudget L k) q) = true ∧ (reflowG (qBudget L k) q).flatten = q.flatten) ∧
      ∃ h h', Config.renderHtml hopts (gas + (2 * rest.length + 14) + k * 6) (textOfQ k p rest) = some h ∧
        Config.renderHtml hopts (gas + (2 * rest.length + 14) + k * 6) (render o d) = some h' ∧
        nlToSp h' = nlToSp h ∧
        nlToSp h = nlToSp (qHtml k (htmlParas hopts.dq hopts.sq ['\n'] (joinWords p.flatten)
          (rest.map (fun q => joinWords q.flatten)))) :=
  Mistletoe.ReflowQuote.C10_quoted_reflow_meaning_partial cfg hcfg p rest hp hrest k o L hL ho hopts gas

/-- **Idempotent inside quotes**, for every `L ≥ 1` and every depth `k`, including where the budget clamps (`L ≤ 2k`). -/
theorem C10_quoted_reflow_idempotent_partial (cfg : Document.Cfg) (hcfg : Config.markdown = some cfg)
    (p : List (List Str)) (rest : List (List (List Str))) (hp : plainPara p = true) (hrest : ∀ q ∈ rest, plainPara q = true)
    (k : Nat) (o : Opts) (L : Nat) (hL : 1 ≤ L) (ho : o.maxLineLength = some (L : Int)) (gas : Nat) :
    ∃ d, Document.parse cfg (gas + (2 * rest.length + 15) + k * 8) (textOfQ k p rest) = .ok d ∧
      ∃ d', Document.parse cfg (gas + (2 * rest.length + 15) + k * 8) (render o d) = .ok d' ∧
        renderRes o d' = renderRes o d ∧ render o d' = render o d :=
  Mistletoe.ReflowQuote.C10_quoted_reflow_idempotent_partial cfg hcfg p rest hp hrest k o L hL ho gas

/-- non-vacuity: a two-paragraph document of plain words satisfies the hypothesis -/
example : plainPara [["an".toList, "extraordinarily".toList, "long".toList], ["word".toList, "here".toList]] = true := by
  decide +kernel

end Mistletoe.Props.C10R
