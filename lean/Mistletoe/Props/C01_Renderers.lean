/-
  C01 (renderers other than HTML) — parse-and-render never raises with the Markdown, Jira, XWiki and LaTeX renderers
  (LaTeX: except the documented refusal).

  Property theorems only; the proofs are in Proofs/MdTotal.lean, Proofs/ContribTotal.lean and Proofs/LatexTotal.lean (which build on
  Props/C01.lean, hence this second file).  Each is about the parser model (`Document.parse`, tied to the code by the
  doc / block.buffer / inline units) followed by the renderer's model (`Model/Markdown.lean`, `Model/Jira.lean`,
  `Model/XWiki.lean`, tied to the code by the md.render / jira.render / xwiki.render units), in which every Python
  raise site is an explicit `.err`: a class without render-map entry (`KeyError`), `token.header` of a table without
  header, `children[-1]` / `children[0]` of an empty quote or list item (`IndexError`), a missing title delimiter or
  label (`TypeError`).  The theorems say that none of them is reachable from a parsed document.
-/
import Mistletoe.Proofs.MdTotal
import Mistletoe.Proofs.ContribTotal
import Mistletoe.Proofs.LatexTotal
namespace Mistletoe.Props.C01R
open Mistletoe Mistletoe.Block Mistletoe.Lines

/-- **Parse-and-render with the Markdown renderer returns a string for every text**: with the token lists
    `MarkdownRenderer` installs (regenerated from /repo) and enough gas, `Document(text)` returns a document and
    `MarkdownRenderer(**o).render` returns a string on it, for EVERY option set `o` (every `max_line_length`,
    negative and zero included, both values of `normalize_whitespace`). -/
theorem C01_markdown_total (cfg : Document.Cfg) (hc : Config.markdown = some cfg) (gas : Nat) (t : Str)
    (hg : gasBound cfg.block (docBuf (normalize (.str t))) ≤ gas) (o : Markdown.Opts) :
    ∃ d out, Document.parse cfg gas t = .ok d ∧ Markdown.renderRes o d = .ok out :=
  Mistletoe.Proofs.MdTotal.C01_markdown_total cfg hc gas t hg o

/-- the only error value parse-and-render can return at all is `.fuel` (too little gas given to the model) -/
theorem C01_markdown_no_raise (cfg : Document.Cfg) (hc : Config.markdown = some cfg) (gas : Nat) (t : Str)
    (o : Markdown.Opts) (e : Err) (h : (Document.parse cfg gas t).bind (Markdown.renderRes o) = .err e) : e = .fuel :=
  Mistletoe.Proofs.MdTotal.C01_markdown_no_raise cfg hc gas t o e h

/-- **The Markdown renderer raises on a tree exactly when the tree is outside `mdOk`** (a decidable shape predicate:
    no Math / GithubWiki / XWiki-macro token, every table has a header row of cells, titles carry their delimiter,
    full references their label), for every option set — and every parsed document is inside it. -/
theorem C01_markdown_render_exact (o : Markdown.Opts) (d : Doc) :
    (Markdown.renderRes o d).isOk = Mistletoe.Proofs.MdTotal.mdOk d :=
  Mistletoe.Proofs.MdTotal.renderRes_isOk o d

/-- **Parse-and-render with the Jira renderer returns a string for every text** (token lists regenerated from /repo). -/
theorem C01_jira_total (cfg : Document.Cfg) (hc : Config.jira = some cfg) (gas : Nat) (t : Str)
    (hg : gasBound cfg.block (docBuf (normalize (.str t))) ≤ gas) : ∃ out, Config.renderJira gas t = some out :=
  Mistletoe.Props.C01.C01_jira_total cfg hc gas t hg

/-- **Parse-and-render with the XWiki renderer returns a string for every text** (token lists regenerated from
    /repo: the block list with `HtmlBlock`, the span list with `HtmlSpan`, `XWikiBlockMacroStart` and
    `XWikiBlockMacroEnd`).  The parse model runs the `find` of the two macro classes (`Model/InlineScanX.lean`,
    wired into `Inline.findOne` / `Inline.build`: `parse_group = 1`, `parse_inner = False`, `content = match.group(1)`),
    so `{{name …}}` lines become `XWikiBlockMacroStart` / `XWikiBlockMacroEnd` tokens as in the code, and the
    renderer model renders them (`render_x_wiki_block_macro_start` / `_end`). -/
theorem C01_xwiki_total (cfg : Document.Cfg) (hc : Config.xwiki = some cfg) (gas : Nat) (t : Str)
    (hg : gasBound cfg.block (docBuf (normalize (.str t))) ≤ gas) : ∃ out, Config.renderXWiki gas t = some out :=
  Mistletoe.Props.C01.C01_xwiki_total cfg hc gas t hg

/-- a macro block, kernel-evaluated end to end: the opening and the closing line become the two macro tokens
    (each keeps its own line), the soft line break after the body becomes a space — byte for byte what
    `XWiki20Renderer().render(Document(text))` returns -/
example : Config.renderXWiki 50 "{{info}}\nsome macro body\n{{/info}}\n".toList =
    some "{{info}}\nsome macro body \n{{/info}}\n\n".toList := by decide +kernel

/-- the parsed paragraph of that text: `XWikiBlockMacroStart`, `RawText`, soft `LineBreak`, `XWikiBlockMacroEnd` -/
example : (match Config.xwiki with
    | some cfg => (match Document.parse cfg 50 "{{info}}\nsome macro body\n{{/info}}\n".toList with
      | .ok ⟨[.paragraph [.xwikiMacroStart a, .rawText b, .lineBreak _ true, .xwikiMacroEnd c] _], _⟩ =>
          a == "{{info}}".toList && b == "some macro body".toList && c == "{{/info}}".toList
      | _ => false)
    | none => false) = true := by decide +kernel

/-- **The Jira and XWiki renderers raise on a tree exactly when it is outside `docOk`** — in particular they return a
    string on empty quotes, empty list items, lists without items and tables without header (the crashes of the
    pinned revision that were repaired). -/
theorem C01_contrib_render_exact (d : Doc) :
    (Jira.render d).isOk = Mistletoe.Contrib.docOk false d ∧ (XWiki.render d).isOk = Mistletoe.Contrib.docOk true d :=
  ⟨Mistletoe.Contrib.jira_render_isOk d, Mistletoe.Contrib.xwiki_render_isOk d⟩

/-- **Parse-and-render with the LaTeX renderer returns a string or the documented refusal, for every text**: with
    the token lists the LaTeX renderer installs (regenerated from /repo) and enough gas, `Document(text)` returns a
    document, and `Latex.renderRes` (the renderer model with every Python raise site made explicit: render-map
    `KeyError`, `token.header` of a table, the align option, the `\verb` delimiter search) returns either the rendered
    string or the refusal `RuntimeError('Unable to find delimiter for verb macro')`, the latter only when some inline
    code of the document contains every candidate delimiter. -/
theorem C01_latex_total_or_refusal (cfg : Document.Cfg) (hc : Config.latex = some cfg) (gas : Nat) (t : Str)
    (hg : gasBound cfg.block (docBuf (normalize (.str t))) ≤ gas) :
    ∃ d, Document.parse cfg gas t = .ok d ∧
      (Latex.renderRes d = .ok (Latex.render d) ∨
       (Latex.renderRes d = .err (.refusal 0) ∧ ∃ c ∈ Latex.codes d, Latex.UsesAllDelims c)) :=
  Mistletoe.Props.C01.C01_latex_total cfg hc gas t hg

/-- the only error values parse-and-render with the LaTeX renderer can return: `.fuel` (model gas) and the refusal -/
theorem C01_latex_no_raise (cfg : Document.Cfg) (hc : Config.latex = some cfg) (gas : Nat) (t : Str) (e : Err)
    (h : (Document.parse cfg gas t).bind Latex.renderRes = .err e) : e = .fuel ∨ e = .refusal 0 :=
  Mistletoe.Props.C01.C01_latex_no_raise cfg hc gas t e h

/-- the configurations exist: the regenerated lists are known to the model -/
example : Config.markdown.isSome = true ∧ Config.jira.isSome = true ∧ Config.xwiki.isSome = true ∧ Config.latex.isSome = true := by
  decide +kernel

end Mistletoe.Props.C01R
