/-
  C13 — Every block token reports the source line on which it starts.

  The block-parser model (`Model/Block.lean`, tied to `tokenize_block` and every `start`/`read` by
  the `block.buffer` and `scan.*` correspondence units) carries a *ghost* `origin` on every line:
  the 1-based index of the input line it was cut from.  `Quote.read` and `ListItem.read` strip a
  prefix off a line but keep its origin; nothing else creates lines.  Every entry records, next to
  the `line_number` the code computes (`lines.line_number() + 1` = `start_line + _index`), the
  origin of the line it was dispatched on.  The theorems say the two are equal at every nesting depth.
-/
import Mistletoe.Proofs.Block
import Mistletoe.Proofs.Lines
import Mistletoe.Proofs.DocLines
namespace Mistletoe.Props.C13
open Mistletoe Mistletoe.Py Mistletoe.Scan Mistletoe.Block Mistletoe.Lines

/-! ### `Document.__init__` hands the tokenizer complete lines -/

theorem complete_of_noNl (b : Str) (h : '\n' ∉ b) : NlEnd (complete b) := by
  unfold complete
  have : endsWithNl b = false := by
    induction b with
    | nil => rfl
    | cons c rest ih =>
      have hc : c ≠ '\n' := fun e => h (by simp [e])
      have hr : '\n' ∉ rest := fun e => h (List.mem_cons_of_mem _ e)
      cases rest with
      | nil => simp [endsWithNl, hc]
      | cons d r => rw [endsWithNl_cons_cons]; exact ih hr
  simp only [this, Bool.false_eq_true, if_false]
  exact ⟨b, rfl, h⟩

theorem complete_of_nl (b : Str) (h : '\n' ∉ b) : NlEnd (complete (b ++ ['\n'])) := by
  unfold complete
  simp only [endsWithNl_snoc, if_true]
  exact ⟨b, rfl, h⟩

theorem splitlines_complete : ∀ (t acc : Str), '\n' ∉ acc → ∀ x ∈ (splitlinesAux t acc).map complete, NlEnd x
  | [], acc, ha => by
    unfold splitlinesAux
    split
    · intro x hx; cases hx
    · intro x hx
      simp only [List.map_cons, List.map_nil, List.mem_singleton] at hx
      subst hx
      exact complete_of_noNl _ (by simpa using ha)
  | c :: rest, acc, ha => by
    unfold splitlinesAux
    split
    · rename_i hc
      split
      · rename_i rest'
        intro x hx
        simp only [List.map_cons, List.mem_cons] at hx
        rcases hx with rfl | hx
        · have : ('\n' :: '\r' :: acc).reverse = (acc.reverse ++ ['\r']) ++ ['\n'] := by simp
          rw [this]
          exact complete_of_nl _ (by simp only [List.mem_append, List.mem_reverse, List.mem_singleton, not_or]; exact ⟨ha, by decide⟩)
        · exact splitlines_complete rest' [] (by simp) x hx
      · intro x hx
        simp only [List.map_cons, List.mem_cons] at hx
        rcases hx with rfl | hx
        · exact complete_of_noNl _ (by simp only [List.mem_reverse, List.mem_cons, not_or]; exact ⟨by decide, ha⟩)
        · exact splitlines_complete rest [] (by simp) x hx
    · split
      · intro x hx
        simp only [List.map_cons, List.mem_cons] at hx
        rcases hx with rfl | hx
        · by_cases hn : c = '\n'
          · subst hn
            have : ('\n' :: acc).reverse = acc.reverse ++ ['\n'] := by simp
            rw [this]
            exact complete_of_nl _ (by simpa using ha)
          · exact complete_of_noNl _ (by simp only [List.mem_reverse, List.mem_cons, not_or]; exact ⟨fun e => hn e.symm, ha⟩)
        · exact splitlines_complete rest [] (by simp) x hx
      · rename_i hsep
        have hn : c ≠ '\n' := by
          intro e; subst e; exact hsep (by decide)
        exact splitlines_complete rest (c :: acc) (by simp only [List.mem_cons, not_or]; exact ⟨fun e => hn e.symm, ha⟩)

/-- every line `Document(text)` (a `str`) hands to the tokenizer ends with its only '\n' -/
theorem normalize_str_nlEnd (t : Str) : ∀ x ∈ normalize (.str t), NlEnd x :=
  splitlines_complete t [] (by simp)

/-! ### The property -/

/-- **Every block token, at every nesting depth, reports the input line on which it starts**: for
    every token set and flag setting, every nesting fuel, and every list of complete lines, if the
    block phase returns, then in every entry of the result (recursively through quotes, lists and
    list items) `line_number` equals the index of the input line the entry was dispatched on. -/
theorem C13_line_numbers (cfg : Cfg) (fuel : Nat) (lines : List Str) (b : Buf) (st : St)
    (hl : ∀ s ∈ lines, NlEnd s) (h : blockPhase cfg fuel lines = .ok (b, st)) : EntriesOk b.entries := by
  unfold blockPhase at h
  refine tokenizeBlock_ok cfg fuel _ _ _ _ _ h (by simpa using originsFrom_zipIdx lines 0) ?_
  intro l hm
  simp only [List.mem_map] at hm
  obtain ⟨⟨s, i⟩, hmem, rfl⟩ := hm
  exact hl s (List.mem_zipIdx hmem |>.2.2 ▸ List.getElem_mem _)

/-- the same for a document given as one string -/
theorem C13_document (cfg : Cfg) (fuel : Nat) (t : Str) (b : Buf) (st : St)
    (h : blockPhase cfg fuel (normalize (.str t)) = .ok (b, st)) : EntriesOk b.entries :=
  C13_line_numbers cfg fuel _ b st (normalize_str_nlEnd t) h

/-- **The lines handed to a nested tokenizer** (`Quote.read`, `ListItem.read`: the `start_line`
    hand-off): their origins are `start_line, start_line + 1, …` -/
theorem C13_buffer_origin_quote (cfg : Cfg) (fw : FW) (l0 : Line) (r) (h : quoteLines cfg fw l0 = .ok r)
    (hok : fw.Ok) (hp : fw.peek = some l0) : OriginsFrom r.2.1 r.1 :=
  (quoteLines_origins cfg fw l0 r h hok hp).2

theorem C13_buffer_origin_item (cfg : Cfg) (fw : FW) (prev) (buf : List Line) (cstart i p : Nat) (ld : Str) (ln og : Nat) (nx) (fw' : FW)
    (h : itemLines cfg fw prev = .ok (.lines buf cstart i p ld ln og nx fw')) (hok : fw.Ok) : ln = og ∧ OriginsFrom cstart buf := by
  have := itemLines_origins cfg fw prev _ h hok
  exact ⟨this.2.1, this.2.2⟩

/-- **Table rows**: the k-th line of the buffer `Table.read` returns is the text of the input line
    `start_line + k` (`Table.__init__` gives row k the number `start_line + k`). -/
theorem C13_table_rows (fw : FW) (b : List Str) (sl : Nat) (fw' : FW) (h : readTable fw = some (b, sl, fw')) (hok : fw.Ok) :
    ∀ (k : Nat) (s : Str), b[k]? = some s → ∃ l, fw.lines[fw.pos + k]? = some l ∧ l.s = s ∧ l.origin = sl + k :=
  readTable_rows fw b sl fw' h hok

/-! ### Non-vacuity: a nested document on which the block phase returns, with the numbers shown -/

def sampleCfg : Cfg := { types := [.htmlBlock, .blockCode, .heading, .quote, .codeFence, .thematicBreak, .list, .table, .footnote, .paragraph, .blankLine], tableInterrupt := false }
def sampleDoc : List Str := ["\n", "> - a\n", ">\n", ">   b\n", "> # h\n", "1.\n", "   x\n"].map String.toList

/-- `ln`/`og` of every entry, outermost first -/
def numbers : List Entry → List (Nat × Nat)
  | [] => []
  | e :: es => (match e with
      | .blockCode _ ln og => [(ln, og)]
      | .heading _ _ _ ln og => [(ln, og)]
      | .quote inner _ ln og => (ln, og) :: numbers inner
      | .codeFence _ _ _ _ _ ln og => [(ln, og)]
      | .thematicBreak _ ln og => [(ln, og)]
      | .list items ln og => (ln, og) :: numbersI items
      | .table _ _ ln og => [(ln, og)]
      | .footnote _ ln og => [(ln, og)]
      | .linkRefDefs _ ln og => [(ln, og)]
      | .paragraph _ ln og => [(ln, og)]
      | .setext _ ln og => [(ln, og)]
      | .htmlBlock _ ln og => [(ln, og)]
      | .blankLine ln og => [(ln, og)]) ++ numbers es
where numbersI : List Item → List (Nat × Nat)
  | [] => []
  | .mk inner _ _ _ _ ln og :: is => (ln, og) :: numbers inner ++ numbersI is

example : (match blockPhase sampleCfg 1000 sampleDoc with
    | .ok (b, _) => numbers b.entries
    | .err _ => []) = [(1, 1), (2, 2), (2, 2), (2, 2), (2, 2), (3, 3), (4, 4), (5, 5), (6, 6), (6, 6), (7, 7)] := by decide +kernel

theorem nlEnd_of_check (s : Str) (h : (s.getLast? == some '\n' && !s.dropLast.contains '\n') = true) : NlEnd s := by
  simp only [Bool.and_eq_true, beq_iff_eq, Bool.not_eq_eq_eq_not, Bool.not_true] at h
  have hne : s ≠ [] := by intro e; subst e; simp at h
  have hl : s.getLast hne = '\n' := by
    have := h.1
    rw [List.getLast?_eq_some_getLast hne] at this
    exact Option.some.inj this
  refine ⟨s.dropLast, ?_, ?_⟩
  · have := List.dropLast_concat_getLast hne
    rw [hl] at this; exact this.symm
  · intro hm
    have := h.2
    simp [hm] at this

example : ∀ s ∈ sampleDoc, NlEnd s := by
  intro s hs
  apply nlEnd_of_check
  revert s
  decide

/-! ## From the parse buffer to the tokens: the block token constructors

  `make_tokens` (`Document.mkBlock`/`mkBlocks`/`mkItems`, `tableRow`/`tableRows` of `Model/Document.lean`)
  builds the tokens from the buffer entries: `token.line_number = line_number` for every entry,
  `ListItem(…, line_number)`, `Table.__init__`: header row `start_line`, body row k
  `start_line + 2 + k`, `TableRow.__init__`: every cell the row's number.  `Document.blockLns` is the
  pre-order listing (kind, line_number) of a block and everything nested in it; `entriesLns` the same
  listing computed from the buffer's reported numbers, `entriesOgs` from its ghost origins (a table's
  header row = the origin of the table's first line, body row k = that origin + 2 + k). -/

open Mistletoe.Document in
/-- **The constructors copy the numbers, never recompute them**: whenever `make_tokens` returns, the
    listing of the tokens equals the listing computed from the buffer (for every buffer, well-formed
    or not; Footnote entries yield no token). -/
theorem C13_constructors_copy (cfg : Document.Cfg) (fn : Footnotes.Table) (es : List Entry) (bs : List Mistletoe.Block)
    (h : Document.mkBlocks cfg fn es = .ok bs) : blocksLns bs = entriesLns es :=
  mkBlocks_lns cfg fn es bs h

open Mistletoe.Document in
/-- **Every block token of `Document(lines)`, at every nesting depth (children of block quotes and
    list items, list items, table rows and cells included), reports the 1-based index of the input
    line it was found on**: the listing of the document equals the listing of ghost origins of the
    parse buffer the block phase returned. -/
theorem C13_document_line_numbers (cfg : Document.Cfg) (gas : Nat) (lines : List Str) (d : Doc)
    (hl : ∀ s ∈ lines, NlEnd s) (h : Document.parseLines cfg gas lines = .ok d) :
    ∃ b st, blockPhase cfg.block gas lines = .ok (b, st) ∧ docLns d = entriesOgs b.entries :=
  let ⟨b, st, h1, _, h3⟩ := parseLines_lns cfg gas lines d hl h
  ⟨b, st, h1, h3⟩

open Mistletoe.Document in
/-- the same for a document given as one string -/
theorem C13_document_str_line_numbers (cfg : Document.Cfg) (gas : Nat) (t : Str) (d : Doc)
    (h : Document.parse cfg gas t = .ok d) :
    ∃ b st, blockPhase cfg.block gas (normalize (.str t)) = .ok (b, st) ∧ docLns d = entriesOgs b.entries :=
  C13_document_line_numbers cfg gas _ d (normalize_str_nlEnd t) h

/-- **Table rows**: the number `Table.__init__` gives the header row (`start_line`) is the origin of
    the first line `Table.read` consumed, and the number of body row k (`start_line + 2 + k`) is the
    origin of the line that row was built from (the delimiter row, `start_line + 1`, yields no token). -/
theorem C13_table_row_numbers (fw : FW) (b : List Str) (sl : Nat) (fw' : FW) (h : readTable fw = some (b, sl, fw')) (hok : fw.Ok) :
    (∃ l, fw.peek = some l ∧ some l.s = b[0]? ∧ l.origin = sl) ∧
    ∀ (k : Nat) (s : Str), b[k + 2]? = some s → ∃ l, fw.lines[fw.pos + (k + 2)]? = some l ∧ l.s = s ∧ l.origin = sl + 2 + k := by
  have hr := readTable_rows fw b sl fw' h hok
  obtain ⟨l0, l1, rest, hb, _⟩ := readTable_shape fw b sl fw' h
  constructor
  · obtain ⟨l, h1, h2, h3⟩ := hr 0 l0 (by rw [hb]; rfl)
    exact ⟨l, by simpa [FW.peek] using h1, by rw [hb, h2]; rfl, by simpa using h3⟩
  · intro k s hk
    obtain ⟨l, h1, h2, h3⟩ := hr (k + 2) s hk
    exact ⟨l, h1, h2, by omega⟩

/-- in the listing, the rows of a table are numbered consecutively from the number of the first -/
theorem C13_rows_consecutive (ls : List Str) (a n : Nat) :
    Document.rowsLns ls a n = (ls.zipIdx n).flatMap (fun (l, k) => Document.rowLns l a k) :=
  Document.rowsLns_eq ls a n

/-! ### Non-vacuity: a list item that begins with a blank line, a quote containing a table, a lazy
    continuation line, a link reference definition (no token), a heading -/

def docCfg : Document.Cfg :=
  { block := { types := [.htmlBlock, .blockCode, .heading, .quote, .codeFence, .thematicBreak, .list, .table, .footnote, .paragraph] },
    span := [.escapeSequence, .htmlSpan, .autoLink, .coreTokens, .inlineCode, .lineBreak, .strikethrough] }

/-- line 1 `-` (item that begins with a blank line), 2 its paragraph, 3–5 a table inside a quote
    (4 is the delimiter row), 6 `>`, 7 a paragraph inside the quote, 8 its lazy continuation,
    9 a link reference definition, 10 a heading -/
def docLines10 : List Str :=
  ["-\n", "  foo\n", "> | a | b |\n", "> |---|---|\n", "> | 1 | 2 |\n", ">\n", "> para\n", "lazy\n", "[r]: /u\n", "# h\n"].map String.toList

open Mistletoe.Document in
/-- the listing the kernel computes from the full model: every token reports the index of the line
    that contains its first character (the same list is obtained by walking the token tree of the
    real `Document(lines)` and reading `line_number`) -/
example : (match Document.parseLines docCfg 60 docLines10 with
    | .ok d => docLns d
    | .err _ => []) =
    [(.list, 1), (.listItem, 1), (.paragraph, 2),
     (.quote, 3), (.table, 3), (.tableRow, 3), (.tableCell, 3), (.tableCell, 3),
       (.tableRow, 5), (.tableCell, 5), (.tableCell, 5), (.paragraph, 7),
     (.heading, 10)] := by decide +kernel

open Mistletoe.Document in
/-- and it is the listing of ghost origins of the parse buffer, as `C13_document_line_numbers` says -/
example : (match Document.parseLines docCfg 60 docLines10, blockPhase docCfg.block 60 docLines10 with
    | .ok d, .ok (b, _) => docLns d == entriesOgs b.entries && !(docLns d).isEmpty
    | _, _ => false) = true := by decide +kernel

example : ∀ s ∈ docLines10, NlEnd s := by
  intro s hs; apply nlEnd_of_check; revert s; decide

end Mistletoe.Props.C13
