/-
  C18 (GitHub-wiki renderer under the property's own side condition) — property theorems only; the proofs are in
  Proofs/ContribSame2.lean (which builds on Proofs/ContribSame.lean).

  Props/C18_Text.lean proves the GitHub-wiki clause for texts without "[[".  The property says "no '[[..|..]]'": a text such
  as `a [[b c` or `x[[1]] y` is inside the property.  Here the hypothesis is the property's: the wiki pattern
  `\[\[ *(.+?) *\| *(.+?) *\]\]` matches nowhere in the text (`noWikiLine`, the model's own scanner run on every line; it is
  proved equivalent to the declarative reading "the text has no infix `[[` x `|` y `]]` with x, y non-empty and free of
  newlines").  The invariant carried through the block phase is an 8-state recogniser closed under the operations the
  parser applies to lines (strip, cut, split at `|`, unescape `\|`, join with "\n").
  Not proved: the MathJax clause under "at most one `$`" (`[^$]` matches newlines, so the condition is global; the per-line
  invariant cannot carry it) - Props/C18_Text.lean has it for texts without `$`.
-/
import Mistletoe.Proofs.ContribSame2
namespace Mistletoe.Props.C18N
open Mistletoe Mistletoe.Py Mistletoe.Inline Mistletoe.Html Mistletoe.ContribSame2

/-- **GitHub-wiki renderer**: for every text in which the wiki pattern matches nowhere and every option set, parse-and-render
    under the GithubWiki renderer's token lists and functions gives exactly the HTML renderer's output. -/
theorem C18_githubwiki_same_output_nomatch (o : Opts) (gas : Nat) (t : Str) (ht : noWikiLine t = true) :
    Config.renderContrib Config.githubWiki { o with flavor := .githubWiki } gas t = Config.renderHtml o gas t :=
  Mistletoe.ContribSame2.C18_githubwiki_same_output_nomatch o gas t ht

/-- what the side condition says, declaratively -/
theorem C18_nomatch_spelled_out (t : Str) : noWikiLine t = true ↔
    ¬ ∃ a x y b, t = a ++ '[' :: '[' :: (x ++ '|' :: (y ++ ']' :: ']' :: b)) ∧ x ≠ [] ∧ y ≠ [] ∧ '\n' ∉ x ∧ '\n' ∉ y :=
  noWikiLine_iff_decl t

/-- the hypothesis of Props/C18_Text.lean (no "[[") implies this one -/
theorem C18_nomatch_weaker (t : Str) (h : isInfix ['[', '['] t = false) : noWikiLine t = true :=
  noWikiLine_of_noBB t h

end Mistletoe.Props.C18N
