/-
  C17 — LaTeX output keeps its group/environment structure whatever the text says.

  For EVERY token tree (not only parser output) and every string in every attribute:
  `render d = flat (renderDoc d)` where the event list `renderDoc d` has properly nested brace
  groups and \begin/\end pairs, uses only the renderer's own commands, environments and literal
  template text, and in which every piece of document text is `SafeText` (each of $ # { } & _ % ^ \
  only inside an escaped form), every URL argument is `UrlSafe` (no brace, no backslash except in
  \% and \#, no raw % or #) and every \verb delimiter is one that does not occur in the code.
  The verbatim regions the property sets aside are the `verb`, `listing` and `math` leaves.
  The escape tables are re-probed from /repo on every run (Gen/Chains.lean).
-/
import Mistletoe.Proofs.Latex
namespace Mistletoe.Props.C17
open Mistletoe Mistletoe.Latex Mistletoe.PredLatex Mistletoe.Escape

/-- **Structure is independent of the text.** -/
theorem C17_structure (d : Doc) : render d = flat (renderDoc d) ∧ WellFormed (renderDoc d) :=
  ⟨rfl, doc_wf d⟩

/-- **Per-character escaping of text**: whatever the string, each special character appears only
    in escaped form (`\$ \# \{ \} \& \_ \% \^{} \textbackslash{}`). -/
theorem C17_raw_text_escape (s : Str) : SafeText (latexRawText s) := safeText_latexRawText s

/-- **URL escaping for hyperref**. -/
theorem C17_url_escape (s : Str) : UrlSafe (latexEscapeUrl s) := urlSafe_latexEscapeUrl s

/-- **Verb delimiter choice**: the delimiter used is one of the configured ones and does not occur
    in the code; when none is free the renderer refuses (the documented refusal). -/
theorem C17_verb_delimiter (c : Str) :
    (∀ d, verbDelim c = some d → d ∈ Gen.Chains.verbDelimiters ∧ d ∉ c) ∧
    (verbDelim c = none → ∀ d ∈ Gen.Chains.verbDelimiters, d ∈ c) := by
  refine ⟨fun d h => verbDelim_spec c d h, ?_⟩
  intro h d hd
  unfold verbDelim at h
  have := List.find?_eq_none.mp h d hd
  simpa using this

/-! Non-vacuity: a tree full of special characters. -/
def hostile : Doc :=
  { kids := [.paragraph [.rawText "\\{ 50% $x_1^2$ #1 & }".toList, .image "x}y".toList [] .uri none none [],
                         .link "a{b}\\c%d#e".toList [] .uri none none [.inlineCode "`".toList [] "|!\"".toList]] 1,
             .codeFence "a]b}".toList 0 "```".toList [] "\\end{lstlisting}".toList 2],
    footnotes := [] }

example : String.ofList (render hostile) =
    "\\documentclass{article}\n\\usepackage{graphicx}\n\\usepackage{hyperref}\n\\usepackage{listings}\n\\begin{document}\n\n\\textbackslash{}\\{ 50\\% \\$x\\_1\\^{}2\\$ \\#1 \\& \\}\n\\includegraphics{x\\%7Dy}\n\\href{a\\%7Bb\\%7D\\%5Cc\\%d\\#e}{\\verb'|!\"'}\n\n\\begin{lstlisting}[language=a]b\\}]\n\\end{lstlisting}\\end{lstlisting}\n\\end{document}\n" := by
  decide +kernel

end Mistletoe.Props.C17
