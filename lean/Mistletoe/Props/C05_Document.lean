/-
  C05 (at the level of the document) — property theorems only; the proofs are in Proofs/DocLevel.lean (which builds on
  Props/C05_Lists.lean, Props/C04_General.lean and Props/C07_Order.lean, hence this third file).

  Props/C05.lean / Props/C05_Lists.lean are about the block phase (the parse buffer).  Here the token constructors and the
  inline phase are carried along: `mkBlocks` distributes over concatenation of entries (error order included) and commutes
  with shifting line numbers (`shiftBlocks k`: every `line_number` at every depth - quote / list / item children, table
  header, rows, cells - plus k), so the property holds for `Document(lines)` as stated: A's blocks followed by B's blocks,
  B's blocks reporting line numbers shifted by the number of lines that precede B.  `C05_document_eq` is an equation between
  RESULTS (exceptions of the inline phase of either part included, A's first).  `C05_document_general` drops "neither A nor B
  defines link references": the children are then built against the first-wins table over A's definitions followed by B's.
-/
import Mistletoe.Proofs.DocLevel
namespace Mistletoe.Props.C05D
open Mistletoe Mistletoe.Py Mistletoe.Scan Mistletoe.Block Mistletoe.Document Mistletoe.DocLevel
open Mistletoe.Props.C05 (numbered)

/-- **The property at document level**: parsing A, a blank line and B as one document is `joinDocs` of the two parses - A's
    blocks followed by B's blocks with every line number shifted by `A.length + 1`, no definitions; an exception of either
    inline phase is the exception of the whole. -/
theorem C05_document_eq (cfg : Document.Cfg) (hbl : .blankLine ∉ cfg.block.types) (A B : List Str) (gA gB : Nat)
    (bA bB : Buf) (stA stB : St)
    (hA : blockPhase cfg.block gA A = .ok (bA, stA)) (hlast : lastClosed bA.entries)
    (hdef : stA.defs = [])
    (hB : blockPhase cfg.block gB B = .ok (bB, stB)) (hdefB : stB.defs = [])
    (hnlA : ∀ s ∈ A, NlEnd s) (hnlB : ∀ s ∈ B, NlEnd s)
    (g : Nat) (hg : gA + (gB + cfg.block.types.length + 1) ≤ g) :
    parseLines cfg g (A ++ [['\n']] ++ B) = joinDocs (A.length + 1) (parseLines cfg gA A) (parseLines cfg gB B) :=
  Mistletoe.DocLevel.C05_document_eq cfg hbl A B gA gB bA bB stA stB hA hlast hdef hB hdefB hnlA hnlB g hg

/-- **With definitions** (more than the property asks): the children of the joint document are A's entries followed by B's shifted
    entries, built against the ONE table over A's definitions followed by B's (first wins). -/
theorem C05_document_general (cfg : Document.Cfg) (hbl : .blankLine ∉ cfg.block.types) (A B : List Str) (gA gB : Nat)
    (bA bB : Buf) (stA stB : St)
    (hA : blockPhase cfg.block gA A = .ok (bA, stA)) (hlast : lastClosed bA.entries)
    (hB : blockPhase cfg.block gB B = .ok (bB, stB))
    (hnlA : ∀ s ∈ A, NlEnd s) (hnlB : ∀ s ∈ B, NlEnd s)
    (g : Nat) (hg : gA + (gB + cfg.block.types.length + 1) ≤ g) :
    parseLines cfg g (A ++ [['\n']] ++ B) =
      (let fnAB := Document.footnotesOf (stA.defs ++ stB.defs)
       match rapp (mkBlocks cfg fnAB bA.entries) (rmap (shiftBlocks (A.length + 1)) (mkBlocks cfg fnAB bB.entries)) with
       | .err e => .err e
       | .ok kids => .ok { kids := kids, footnotes := fnAB }) :=
  Mistletoe.DocLevel.C05_document_general cfg hbl A B gA gB bA bB stA stB hA hlast hB hnlA hnlB g hg

end Mistletoe.Props.C05D
