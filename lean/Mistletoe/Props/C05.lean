/-
  C05 — Blocks separated by a blank line are parsed independently of each other.

  "If text A ends in a closed block (paragraph, heading, thematic break, block quote or table) and
  neither A nor B defines link references, then parsing A, a blank line and B as one document yields
  exactly A's blocks followed by B's blocks, with B's blocks reporting line numbers shifted by the
  number of lines that precede B."

  Two independent halves, both over the block-parser model (`Model/Block.lean`), for every token-type
  list and flag setting:

  (S) SUFFIX SHIFT (`C05_suffix_local`, `C05_shift`, `C05_suffix_shift`): what follows a block
      boundary is parsed as if it stood alone.  No reader looks at, or steps back into, the lines
      before the position where its block started (`backstep`, BlockCode's trailing-blank give-back,
      `Footnote.read`'s `_index -= count('\n')`, `List.read`'s `set_pos(anchor)` all stay at or after
      it), and the only way `start_line` enters a result is through the reported line numbers.
      Proved in full.  Side condition: every line of B ends with its only '\n' (what
      `Document.__init__` guarantees, C15); without it `Footnote.read` can hand back more lines than
      it consumed — see `suffix_needs_complete_lines` below.

  (P) PREFIX INDEPENDENCE (`C05_prefix_partial`): A's blocks do not depend on what follows the blank
      line.  FULL-STRENGTH STATEMENT (not proved here):
        if `tokenizeBlock cfg gas A start st = .ok (bA, stA)`, `.blankLine ∉ cfg.types` and the LAST
        entry of `bA.entries` is a paragraph / setext / heading / thematicBreak / quote / table, then
        for every `rest` the run on `A ++ "\n" :: rest` reaches position `A.length + 1` with
        accumulator `bA.entries.reverse`, state `stA`, `loose := true`.
      PROVED (`_partial`): the same conclusion under the hypothesis that EVERY top-level entry of
      `bA.entries` is of one of those kinds (nested content of quotes is arbitrary).  Why the
      restriction: the readers of those kinds (and `Footnote.read`, `Table.read` probes) stop at a
      blank line exactly as at the end of input, which gives a one-lemma-per-reader simulation.
      BlockCode, CodeFence, List and HtmlBlock read across blank lines; for an earlier block of such a
      kind one has to show that its reader stopped before looking at the end of A (true whenever a
      later block exists, but that needs a "did not peek past the end" argument per reader, incl.
      `List.read`'s re-read from `anchor` of a discarded item, which also re-registers the link
      definitions inside it).

  Combination (`C05_blank_line_independent_partial`): under the hypotheses of (P) and (S),
  `blockPhase (A ++ ["\n"] ++ B)` = A's entries ++ B's entries shifted by `A.length + 1`, `loose = true`.
  Link definitions: `St.defs` is only ever appended to (`st.defs ++ ms`) and never read by the block
  phase, so B is read in the state A leaves behind (`C05_blank_line_independent_state`); when A
  defines no link reference that state is the initial one (`Paragraph.parse_setext` is `True` again
  after every top-level read, `sx_all`), which gives the statement with `blockPhase B` itself.
-/
import Mistletoe.Proofs.Locality
namespace Mistletoe.Props.C05
open Mistletoe Mistletoe.Py Mistletoe.Scan Mistletoe.Block

/-! ### (S) -/

/-- **No reader looks before its block.**  The dispatch loop started at the first line of `B` inside
    the buffer `pre ++ B` (first line numbered `start`) returns exactly what it returns on the buffer
    `B` alone whose first line is numbered `start + pre.length` — same entries, same reported line
    numbers, same state, same errors — for every token-type list, gas, state and accumulator. -/
theorem C05_suffix_local (cfg : Cfg) (gas : Nat) (pre B : List Line) (start : Nat) (st : St) (acc : List Entry) (loose : Bool)
    (hB : AllNlEnd B) :
    tokLoop cfg gas { lines := pre ++ B, pos := pre.length, start := start } st acc loose =
      tokLoop cfg gas { lines := B, pos := 0, start := start + pre.length } st acc loose :=
  tokLoop_suffix cfg gas pre B start st acc loose hB

/-- **`start_line` only shifts the numbers.**  `tokenize_block` on the same lines numbered `k` higher
    (ghost origins shifted alike) returns the same buffer with every `line_number` (and ghost origin),
    at every nesting depth, `k` higher (`shiftEntries`; for a table also the first row's number). -/
theorem C05_shift (cfg : Cfg) (k gas : Nat) (lines : List Line) (start : Nat) (st : St) :
    tokenizeBlock cfg gas (lines.map (Line.sh k)) (start + k) st =
      rmap (fun r => ({ entries := shiftEntries k r.1.entries, loose := r.1.loose }, r.2)) (tokenizeBlock cfg gas lines start st) :=
  tokenizeBlock_shift cfg k gas lines start st

/-- **Suffix shift.**  Inside `pre ++ B` (B's ghost origins being those of `B0` raised by
    `pre.length`), the dispatch loop started at B's first line appends to its accumulator exactly the
    entries of `tokenize_block(B0, start)`, each reporting a line number `pre.length` higher. -/
theorem C05_suffix_shift (cfg : Cfg) (gas : Nat) (pre B0 : List Line) (start : Nat) (st : St)
    (acc : List Entry) (loose : Bool) (hB : AllNlEnd B0) :
    tokLoop cfg gas { lines := pre ++ B0.map (Line.sh pre.length), pos := pre.length, start := start } st acc loose =
      rmap (fun r => ({ entries := acc.reverse ++ shiftEntries pre.length r.1.entries, loose := loose || r.1.loose }, r.2))
        (tokenizeBlock cfg (gas + 1) B0 start st) := by
  rw [tokLoop_suffix_shift cfg gas pre B0 start st acc loose hB]
  cases tokenizeBlock cfg (gas + 1) B0 start st <;> rfl

/-- more gas never changes a result that was reached -/
theorem C05_gas_monotone (cfg : Cfg) (lines : List Line) (start : Nat) (st : St) (r) (g g' : Nat) (h : g ≤ g')
    (hr : tokenizeBlock cfg g lines start st = .ok r) : tokenizeBlock cfg g' lines start st = .ok r :=
  tokenizeBlock_mono cfg lines start st r g g' h hr

/-! ### (P) -/

/-- **Prefix independence (partial: every top-level block of A is of a closed kind).**
    Let `tokenize_block(A)` return the buffer `bA` and the state `stA`, all of `bA`'s top-level entries
    being paragraphs, setext/ATX headings, thematic breaks, block quotes or tables, A's lines ending
    with their only newline, and `BlankLine` not among the token types.  Then for ANY lines `rest`,
    the tokenizer on `A ++ "\n" :: rest` is, after some steps, the dispatch loop standing on the
    line after the "\n" with exactly A's entries accumulated, A's final state, and `loose = true`
    (with at least `extra` gas left, for any `extra` exceeding the number of token types). -/
theorem C05_prefix_partial (cfg : Cfg) (hbl : .blankLine ∉ cfg.types) (A : List Line) (nl : Line) (hnl : nl.s = ['\n'])
    (rest : List Line) (start : Nat) (st : St) (gas : Nat) (bA : Buf) (stA : St)
    (hA : tokenizeBlock cfg gas A start st = .ok (bA, stA)) (hcl : ∀ e ∈ bA.entries, closedE e = true)
    (hnlA : AllNlEnd A) (extra : Nat) (hex : cfg.types.length < extra) :
    ∃ g', extra ≤ g' ∧
      tokenizeBlock cfg (gas + extra) (A ++ nl :: rest) start st =
        tokLoop cfg g' { lines := A ++ nl :: rest, pos := A.length + 1, start := start } stA bA.entries.reverse true :=
  tokenizeBlock_prefix cfg hbl A nl hnl rest start st gas bA stA hA hcl hnlA extra hex

/-! ### Combination -/

/-- the lines `Document` hands to the tokenizer: ghost origin = 1-based index -/
def numbered (k : Nat) (ls : List Str) : List Line := (ls.zipIdx k).map (fun (s, i) => ({ s := s, origin := i + 1 } : Line))

theorem numbered_cons (k : Nat) (x : Str) (xs : List Str) :
    numbered k (x :: xs) = { s := x, origin := k + 1 } :: numbered (k + 1) xs := by
  simp [numbered, List.zipIdx_cons]

theorem numbered_append : ∀ (a b : List Str) (k : Nat), numbered k (a ++ b) = numbered k a ++ numbered (k + a.length) b
  | [], b, k => by simp [numbered]
  | x :: xs, b, k => by
    rw [List.cons_append, numbered_cons, numbered_cons, numbered_append xs b (k + 1)]
    simp only [List.cons_append, List.length_cons]
    congr 3; omega

theorem numbered_sh : ∀ (ls : List Str) (k j : Nat), numbered (k + j) ls = (numbered k ls).map (Line.sh j)
  | [], _, _ => by simp [numbered]
  | x :: xs, k, j => by
    rw [numbered_cons, numbered_cons, List.map_cons]
    have := numbered_sh xs (k + 1) j
    have e : k + 1 + j = k + j + 1 := by omega
    rw [e] at this
    rw [this]
    simp only [Line.sh, List.cons.injEq, Line.mk.injEq, true_and, and_true]; omega

theorem numbered_length (k : Nat) (ls : List Str) : (numbered k ls).length = ls.length := by simp [numbered]

theorem numbered_nlEnd (k : Nat) (ls : List Str) (h : ∀ s ∈ ls, NlEnd s) : AllNlEnd (numbered k ls) := by
  intro l hm
  simp only [numbered, List.mem_map] at hm
  obtain ⟨⟨s, i⟩, hmem, rfl⟩ := hm
  exact h s (List.mem_zipIdx hmem |>.2.2 ▸ List.getElem_mem _)

theorem blockPhase_eq (cfg : Cfg) (gas : Nat) (lines : List Str) :
    blockPhase cfg gas lines = tokenizeBlock cfg gas (numbered 0 lines) 1 {} := rfl

/-- **Blocks separated by a blank line are independent (partial), B read in A's final state.**
    If the block phase on `A` returns `bA`/`stA` with every top-level entry a paragraph, setext/ATX
    heading, thematic break, block quote or table, and the block phase on `B`, started in the state
    `stA`, returns `bB`/`stB`, then the block phase on `A ++ ["\n"] ++ B` returns `bA`'s entries followed
    by `bB`'s entries with every line number raised by `A.length + 1`, `loose = true`, state `stB`. -/
theorem C05_blank_line_independent_state (cfg : Cfg) (hbl : .blankLine ∉ cfg.types) (A B : List Str) (gA gB : Nat)
    (bA bB : Buf) (stA stB : St)
    (hA : blockPhase cfg gA A = .ok (bA, stA)) (hcl : ∀ e ∈ bA.entries, closedE e = true)
    (hB : tokenizeBlock cfg gB (numbered 0 B) 1 stA = .ok (bB, stB))
    (hnlA : ∀ s ∈ A, NlEnd s) (hnlB : ∀ s ∈ B, NlEnd s) :
    blockPhase cfg (gA + (gB + cfg.types.length + 1)) (A ++ [['\n']] ++ B) =
      .ok ({ entries := bA.entries ++ shiftEntries (A.length + 1) bB.entries, loose := true }, stB) := by
  rw [blockPhase_eq] at hA ⊢
  have hl : numbered 0 (A ++ [['\n']] ++ B) =
      numbered 0 A ++ { s := ['\n'], origin := A.length + 1 } :: (numbered 0 B).map (Line.sh ((numbered 0 A).length + 1)) := by
    rw [List.append_assoc, numbered_append, List.singleton_append, numbered_cons, numbered_length]
    have := numbered_sh B 0 (A.length + 1)
    simp only [Nat.zero_add] at this ⊢
    rw [this]
  rw [hl]
  have := tokenizeBlock_concat cfg hbl (numbered 0 A) (numbered 0 B) { s := ['\n'], origin := A.length + 1 } rfl 1 {}
    gA gB bA bB stA stB hA hcl hB (numbered_nlEnd 0 A hnlA) (numbered_nlEnd 0 B hnlB)
  rw [numbered_length] at this ⊢
  exact this

/-- **Blocks separated by a blank line are independent (partial).**  As above, for `A` that defines
    no link reference (`stA.defs = []`): then `B` is read in the initial state, i.e. the hypothesis is
    about `blockPhase B` itself.  (`B` may define link references; they end up in `stB`.) -/
theorem C05_blank_line_independent_partial (cfg : Cfg) (hbl : .blankLine ∉ cfg.types) (A B : List Str) (gA gB : Nat)
    (bA bB : Buf) (stA stB : St)
    (hA : blockPhase cfg gA A = .ok (bA, stA)) (hcl : ∀ e ∈ bA.entries, closedE e = true) (hdef : stA.defs = [])
    (hB : blockPhase cfg gB B = .ok (bB, stB))
    (hnlA : ∀ s ∈ A, NlEnd s) (hnlB : ∀ s ∈ B, NlEnd s) :
    blockPhase cfg (gA + (gB + cfg.types.length + 1)) (A ++ [['\n']] ++ B) =
      .ok ({ entries := bA.entries ++ shiftEntries (A.length + 1) bB.entries, loose := true }, stB) := by
  have hsx : stA.setext = true := (sx_all cfg gA).1 _ _ _ _ rfl hA
  have hst : stA = {} := by
    cases stA
    simp only at hsx hdef
    subst hsx; subst hdef; rfl
  subst hst
  exact C05_blank_line_independent_state cfg hbl A B gA gB bA bB _ stB hA hcl hB hnlA hnlB

end Mistletoe.Props.C05
