/-
  C05 — Blocks separated by a blank line are parsed independently of each other.

  "If text A ends in a closed block (paragraph, heading, thematic break, block quote or table) and
  neither A nor B defines link references, then parsing A, a blank line and B as one document yields
  exactly A's blocks followed by B's blocks, with B's blocks reporting line numbers shifted by the
  number of lines that precede B."

  Two independent halves, both over the block-parser model (`Model/Block.lean`), for every token-type
  list and flag setting:

  (S) SUFFIX SHIFT (`C05_suffix_local`, `C05_shift`, `C05_suffix_shift`): what follows a block
      boundary is parsed as if it stood alone.  No reader looks at, or steps back into, the lines
      before the position where its block started (`backstep`, BlockCode's trailing-blank give-back,
      `Footnote.read`'s `_index -= count('\n')`, `List.read`'s `set_pos(anchor)` all stay at or after
      it), and the only way `start_line` enters a result is through the reported line numbers.
      Proved in full.  Side condition: every line of B ends with its only '\n' (what
      `Document.__init__` guarantees, C15); without it `Footnote.read` can hand back more lines than
      it consumed — see `suffix_needs_complete_lines` below.

  (P) PREFIX INDEPENDENCE (`C05_prefix_partial`): A's blocks do not depend on what follows the blank
      line.  FULL-STRENGTH STATEMENT (not proved here):
        if `tokenizeBlock cfg gas A start st = .ok (bA, stA)`, `.blankLine ∉ cfg.types` and the LAST
        entry of `bA.entries` is a paragraph / setext / heading / thematicBreak / quote / table, then
        for every `rest` the run on `A ++ "\n" :: rest` reaches position `A.length + 1` with
        accumulator `bA.entries.reverse`, state `stA`, `loose := true`.
      PROVED (`_partial`): the same conclusion under the additional hypothesis that NO top-level
      entry of `bA.entries` is a list (code blocks, fences, HTML blocks and link reference definitions
      may precede the closed last block; nested content of quotes is arbitrary).  How: the readers of
      the closed kinds (and `Footnote.read`, the `Table.read` probes, an HTML block of kind 6/7) stop
      at a blank line exactly as at the end of input; BlockCode, CodeFence and the other HTML blocks
      read across blank lines, but when a later block exists a line other than "\n" remains at or
      after the cursor they returned, which forces them to have stopped before looking at the end of A.
      Why lists are left out: `List.read` reads a whole item before it discovers that its marker does
      not fit the list and re-reads it from `anchor`; the discarded read may have reached the end of A
      (so it continues into `rest` on the longer buffer) although the cursor it returns is far from the
      end.  Nothing depends on the discarded item except the definitions registered while reading it —
      and whether the re-read at `anchor` is a list again depends on the token order.  With that
      `List.read` the literal statement was FALSE, even for the default token order (see
      `Proofs/LocalityLists.lean`); `List.read` now tests the next marker BEFORE reading its item
      (`otherMarkerType`), and the full-strength statement is proved there
      (`tokenizeBlock_prefix_lists`, `C05_blank_line_independent_full`); see also `list_other_marker_not_read`.

  Combination (`C05_blank_line_independent_partial`): under the hypotheses of (P) and (S),
  `blockPhase (A ++ ["\n"] ++ B)` = A's entries ++ B's entries shifted by `A.length + 1`, `loose = true`.
  Link definitions: `St.defs` is only ever appended to (`st.defs ++ ms`) and never read by the block
  phase, so B is read in the state A leaves behind (`C05_blank_line_independent_state`); when A
  defines no link reference that state is the initial one (`Paragraph.parse_setext` is `True` again
  after every top-level read, `sx_all`), which gives the statement with `blockPhase B` itself.
-/
import Mistletoe.Model.Config
import Mistletoe.Proofs.Locality
namespace Mistletoe.Props.C05
open Mistletoe Mistletoe.Py Mistletoe.Scan Mistletoe.Block

/-! ### (S) -/

/-- **No reader looks before its block.**  The dispatch loop started at the first line of `B` inside
    the buffer `pre ++ B` (first line numbered `start`) returns exactly what it returns on the buffer
    `B` alone whose first line is numbered `start + pre.length` — same entries, same reported line
    numbers, same state, same errors — for every token-type list, gas, state and accumulator. -/
theorem C05_suffix_local (cfg : Cfg) (gas : Nat) (pre B : List Line) (start : Nat) (st : St) (acc : List Entry) (loose : Bool)
    (hB : AllNlEnd B) :
    tokLoop cfg gas { lines := pre ++ B, pos := pre.length, start := start } st acc loose =
      tokLoop cfg gas { lines := B, pos := 0, start := start + pre.length } st acc loose :=
  tokLoop_suffix cfg gas pre B start st acc loose hB

/-- **`start_line` only shifts the numbers.**  `tokenize_block` on the same lines numbered `k` higher
    (ghost origins shifted alike) returns the same buffer with every `line_number` (and ghost origin),
    at every nesting depth, `k` higher (`shiftEntries`; for a table also the first row's number). -/
theorem C05_shift (cfg : Cfg) (k gas : Nat) (lines : List Line) (start : Nat) (st : St) :
    tokenizeBlock cfg gas (lines.map (Line.sh k)) (start + k) st =
      rmap (fun r => ({ entries := shiftEntries k r.1.entries, loose := r.1.loose }, r.2)) (tokenizeBlock cfg gas lines start st) :=
  tokenizeBlock_shift cfg k gas lines start st

/-- **Suffix shift.**  Inside `pre ++ B` (B's ghost origins being those of `B0` raised by
    `pre.length`), the dispatch loop started at B's first line appends to its accumulator exactly the
    entries of `tokenize_block(B0, start)`, each reporting a line number `pre.length` higher. -/
theorem C05_suffix_shift (cfg : Cfg) (gas : Nat) (pre B0 : List Line) (start : Nat) (st : St)
    (acc : List Entry) (loose : Bool) (hB : AllNlEnd B0) :
    tokLoop cfg gas { lines := pre ++ B0.map (Line.sh pre.length), pos := pre.length, start := start } st acc loose =
      rmap (fun r => ({ entries := acc.reverse ++ shiftEntries pre.length r.1.entries, loose := loose || r.1.loose }, r.2))
        (tokenizeBlock cfg (gas + 1) B0 start st) := by
  rw [tokLoop_suffix_shift cfg gas pre B0 start st acc loose hB]
  cases tokenizeBlock cfg (gas + 1) B0 start st <;> rfl

/-- more gas never changes a result that was reached -/
theorem C05_gas_monotone (cfg : Cfg) (lines : List Line) (start : Nat) (st : St) (r) (g g' : Nat) (h : g ≤ g')
    (hr : tokenizeBlock cfg g lines start st = .ok r) : tokenizeBlock cfg g' lines start st = .ok r :=
  tokenizeBlock_mono cfg lines start st r g g' h hr

/-! ### (P) -/

/-- **Prefix independence (partial: no top-level block of A is a list).**
    Let `tokenize_block(A)` return the buffer `bA` and the state `stA`, none of `bA`'s top-level entries
    being a list and the last one being a paragraph, setext/ATX heading, thematic break, block quote or
    table (`lastClosed`), A's lines ending with their only newline, and `BlankLine` not among the token
    types.  Then for ANY lines `rest`,
    the tokenizer on `A ++ "\n" :: rest` is, after some steps, the dispatch loop standing on the
    line after the "\n" with exactly A's entries accumulated, A's final state, and `loose = true`
    (with at least `extra` gas left, for any `extra` exceeding the number of token types). -/
theorem C05_prefix_partial (cfg : Cfg) (hbl : .blankLine ∉ cfg.types) (A : List Line) (nl : Line) (hnl : nl.s = ['\n'])
    (rest : List Line) (start : Nat) (st : St) (gas : Nat) (bA : Buf) (stA : St)
    (hA : tokenizeBlock cfg gas A start st = .ok (bA, stA)) (hnol : ∀ e ∈ bA.entries, noList e = true) (hlast : lastClosed bA.entries)
    (hnlA : AllNlEnd A) (extra : Nat) (hex : cfg.types.length < extra) :
    ∃ g', extra ≤ g' ∧
      tokenizeBlock cfg (gas + extra) (A ++ nl :: rest) start st =
        tokLoop cfg g' { lines := A ++ nl :: rest, pos := A.length + 1, start := start } stA bA.entries.reverse true :=
  tokenizeBlock_prefix cfg hbl A nl hnl rest start st gas bA stA hA hnol hlast hnlA extra hex

/-! ### Combination -/

/-- the lines `Document` hands to the tokenizer: ghost origin = 1-based index -/
def numbered (k : Nat) (ls : List Str) : List Line := (ls.zipIdx k).map (fun (s, i) => ({ s := s, origin := i + 1 } : Line))

theorem numbered_cons (k : Nat) (x : Str) (xs : List Str) :
    numbered k (x :: xs) = { s := x, origin := k + 1 } :: numbered (k + 1) xs := by
  simp [numbered, List.zipIdx_cons]

theorem numbered_append : ∀ (a b : List Str) (k : Nat), numbered k (a ++ b) = numbered k a ++ numbered (k + a.length) b
  | [], b, k => by simp [numbered]
  | x :: xs, b, k => by
    rw [List.cons_append, numbered_cons, numbered_cons, numbered_append xs b (k + 1)]
    simp only [List.cons_append, List.length_cons]
    congr 3; omega

theorem numbered_sh : ∀ (ls : List Str) (k j : Nat), numbered (k + j) ls = (numbered k ls).map (Line.sh j)
  | [], _, _ => by simp [numbered]
  | x :: xs, k, j => by
    rw [numbered_cons, numbered_cons, List.map_cons]
    have := numbered_sh xs (k + 1) j
    have e : k + 1 + j = k + j + 1 := by omega
    rw [e] at this
    rw [this]
    simp only [Line.sh, List.cons.injEq, Line.mk.injEq, true_and, and_true]; omega

theorem numbered_length (k : Nat) (ls : List Str) : (numbered k ls).length = ls.length := by simp [numbered]

theorem numbered_nlEnd (k : Nat) (ls : List Str) (h : ∀ s ∈ ls, NlEnd s) : AllNlEnd (numbered k ls) := by
  intro l hm
  simp only [numbered, List.mem_map] at hm
  obtain ⟨⟨s, i⟩, hmem, rfl⟩ := hm
  exact h s (List.mem_zipIdx hmem |>.2.2 ▸ List.getElem_mem _)

theorem blockPhase_eq (cfg : Cfg) (gas : Nat) (lines : List Str) :
    blockPhase cfg gas lines = tokenizeBlock cfg gas (numbered 0 lines) 1 {} := rfl

/-- **Blocks separated by a blank line are independent (partial), B read in A's final state.**
    If the block phase on `A` returns `bA`/`stA` with no top-level list and the last entry a paragraph,
    setext/ATX heading, thematic break, block quote or table, and the block phase on `B`, started in the state
    `stA`, returns `bB`/`stB`, then the block phase on `A ++ ["\n"] ++ B` returns `bA`'s entries followed
    by `bB`'s entries with every line number raised by `A.length + 1`, `loose = true`, state `stB`. -/
theorem C05_blank_line_independent_state (cfg : Cfg) (hbl : .blankLine ∉ cfg.types) (A B : List Str) (gA gB : Nat)
    (bA bB : Buf) (stA stB : St)
    (hA : blockPhase cfg gA A = .ok (bA, stA)) (hnol : ∀ e ∈ bA.entries, noList e = true) (hlast : lastClosed bA.entries)
    (hB : tokenizeBlock cfg gB (numbered 0 B) 1 stA = .ok (bB, stB))
    (hnlA : ∀ s ∈ A, NlEnd s) (hnlB : ∀ s ∈ B, NlEnd s) :
    blockPhase cfg (gA + (gB + cfg.types.length + 1)) (A ++ [['\n']] ++ B) =
      .ok ({ entries := bA.entries ++ shiftEntries (A.length + 1) bB.entries, loose := true }, stB) := by
  rw [blockPhase_eq] at hA ⊢
  have hl : numbered 0 (A ++ [['\n']] ++ B) =
      numbered 0 A ++ { s := ['\n'], origin := A.length + 1 } :: (numbered 0 B).map (Line.sh ((numbered 0 A).length + 1)) := by
    rw [List.append_assoc, numbered_append, List.singleton_append, numbered_cons, numbered_length]
    have := numbered_sh B 0 (A.length + 1)
    simp only [Nat.zero_add] at this ⊢
    rw [this]
  rw [hl]
  have := tokenizeBlock_concat cfg hbl (numbered 0 A) (numbered 0 B) { s := ['\n'], origin := A.length + 1 } rfl 1 {}
    gA gB bA bB stA stB hA hnol hlast hB (numbered_nlEnd 0 A hnlA) (numbered_nlEnd 0 B hnlB)
  rw [numbered_length] at this ⊢
  exact this

/-- **Blocks separated by a blank line are independent (partial).**  As above, for `A` that defines
    no link reference (`stA.defs = []`): then `B` is read in the initial state, i.e. the hypothesis is
    about `blockPhase B` itself.  (`B` may define link references; they end up in `stB`.) -/
theorem C05_blank_line_independent_partial (cfg : Cfg) (hbl : .blankLine ∉ cfg.types) (A B : List Str) (gA gB : Nat)
    (bA bB : Buf) (stA stB : St)
    (hA : blockPhase cfg gA A = .ok (bA, stA)) (hnol : ∀ e ∈ bA.entries, noList e = true) (hlast : lastClosed bA.entries)
    (hdef : stA.defs = [])
    (hB : blockPhase cfg gB B = .ok (bB, stB))
    (hnlA : ∀ s ∈ A, NlEnd s) (hnlB : ∀ s ∈ B, NlEnd s) :
    blockPhase cfg (gA + (gB + cfg.types.length + 1)) (A ++ [['\n']] ++ B) =
      .ok ({ entries := bA.entries ++ shiftEntries (A.length + 1) bB.entries, loose := true }, stB) := by
  have hsx : stA.setext = true := (sx_all cfg gA).1 _ _ _ _ rfl hA
  have hst : stA = {} := by
    cases stA
    simp only at hsx hdef
    subst hsx; subst hdef; rfl
  subst hst
  exact C05_blank_line_independent_state cfg hbl A B gA gB bA bB _ stB hA hnol hlast hB hnlA hnlB

/-! ### Non-vacuity -/

def defaultTypes : List BTok :=
  [.htmlBlock, .blockCode, .heading, .quote, .codeFence, .thematicBreak, .list, .table, .footnote, .paragraph]
def cfg0 : Cfg := { types := defaultTypes }
def L (s : String) : Str := s.toList

def sampleA : List Str := [L "# h\n", L "```\n", L "code\n", L "```\n", L "> q\n", L "> r\n"]
def sampleB : List Str := [L "- a\n", L "\n", L "  b\n"]

/-- (kind, reported line number, ghost origin) of every entry, outermost first; kinds: 0 blockCode,
    1 heading, 2 quote, 3 codeFence, 4 thematicBreak, 5 list, 6 table, 7 footnote, 8 linkRefDefs,
    9 paragraph (third component: number of lines instead of the origin is NOT used; see `paraLines`),
    10 setext, 11 htmlBlock, 12 blankLine, 13 list item -/
def digest : List Entry → List (Nat × Nat × Nat)
  | [] => []
  | e :: es => (match e with
      | .blockCode _ ln og => [(0, ln, og)]
      | .heading _ _ _ ln og => [(1, ln, og)]
      | .quote inner _ ln og => (2, ln, og) :: digest inner
      | .codeFence _ _ _ _ _ ln og => [(3, ln, og)]
      | .thematicBreak _ ln og => [(4, ln, og)]
      | .list items ln og => (5, ln, og) :: digestI items
      | .table _ _ ln og => [(6, ln, og)]
      | .footnote _ ln og => [(7, ln, og)]
      | .linkRefDefs _ ln og => [(8, ln, og)]
      | .paragraph _ ln og => [(9, ln, og)]
      | .setext _ ln og => [(10, ln, og)]
      | .htmlBlock _ ln og => [(11, ln, og)]
      | .blankLine ln og => [(12, ln, og)]) ++ digest es
where digestI : List Item → List (Nat × Nat × Nat)
  | [] => []
  | .mk inner _ _ _ _ ln og :: is => (13, ln, og) :: digest inner ++ digestI is

def digestR : Res (Buf × St) → Option (List (Nat × Nat × Nat) × Bool × Nat)
  | .ok (b, st) => some (digest b.entries, b.loose, st.defs.length)
  | .err _ => none

/-- A = heading, fenced code, two-line quote; B = a loose list item: the three parses, with the numbers shown -/
example : digestR (blockPhase cfg0 30 sampleA) = some ([(1, 1, 1), (3, 2, 2), (2, 5, 5), (9, 5, 5)], false, 0) := by decide +kernel
example : digestR (blockPhase cfg0 30 sampleB) = some ([(5, 1, 1), (13, 1, 1), (9, 1, 1), (9, 3, 3)], false, 0) := by decide +kernel
example : digestR (blockPhase cfg0 71 (sampleA ++ [['\n']] ++ sampleB)) =
    some ([(1, 1, 1), (3, 2, 2), (2, 5, 5), (9, 5, 5), (5, 8, 8), (13, 8, 8), (9, 8, 8), (9, 10, 10)], true, 0) := by decide +kernel

theorem nlEnd_of_check (s : Str) (h : (s.getLast? == some '\n' && !s.dropLast.contains '\n') = true) : NlEnd s := by
  simp only [Bool.and_eq_true, beq_iff_eq, Bool.not_eq_eq_eq_not, Bool.not_true] at h
  have hne : s ≠ [] := by intro e; subst e; simp at h
  have hl : s.getLast hne = '\n' := by
    have := h.1
    rw [List.getLast?_eq_some_getLast hne] at this
    exact Option.some.inj this
  refine ⟨s.dropLast, ?_, ?_⟩
  · have := List.dropLast_concat_getLast hne
    rw [hl] at this; exact this.symm
  · intro hm
    have := h.2
    simp [hm] at this

def okClosed : Res (Buf × St) → Bool
  | .ok (b, st) => b.entries.all noList && (match b.entries.getLast? with | some e => closedE e | none => true) && st.defs.isEmpty
  | .err _ => false

theorem okClosed_spec (b : Buf) (st : St) (h : okClosed (.ok (b, st)) = true) :
    (∀ e ∈ b.entries, noList e = true) ∧ lastClosed b.entries ∧ st.defs = [] := by
  simp only [okClosed, Bool.and_eq_true, List.all_eq_true, List.isEmpty_iff] at h
  refine ⟨h.1.1, ?_, h.2⟩
  intro e he
  have := h.1.2
  rw [he] at this
  exact this

/-- the hypotheses of `C05_blank_line_independent_partial` hold for `sampleA`, `sampleB` (kernel-evaluated),
    so its conclusion does: an instance of the theorem -/
example : ∃ bA bB stB, blockPhase cfg0 30 sampleA = .ok (bA, {}) ∧ blockPhase cfg0 30 sampleB = .ok (bB, stB) ∧
    blockPhase cfg0 71 (sampleA ++ [['\n']] ++ sampleB) =
      .ok ({ entries := bA.entries ++ shiftEntries (sampleA.length + 1) bB.entries, loose := true }, stB) := by
  have hcA : okClosed (blockPhase cfg0 30 sampleA) = true := by decide +kernel
  have hlB : (digestR (blockPhase cfg0 30 sampleB)).map (·.1.length) = some 4 := by decide +kernel
  have hnA : ∀ s ∈ sampleA, NlEnd s := by
    intro s hs; apply nlEnd_of_check; revert s; decide
  have hnB : ∀ s ∈ sampleB, NlEnd s := by
    intro s hs; apply nlEnd_of_check; revert s; decide
  cases hA : blockPhase cfg0 30 sampleA with
  | err e => rw [hA] at hcA; cases hcA
  | ok rA =>
    obtain ⟨bA, stA⟩ := rA
    cases hB : blockPhase cfg0 30 sampleB with
    | err e => rw [hB] at hlB; cases hlB
    | ok rB =>
      obtain ⟨bB, stB⟩ := rB
      rw [hA] at hcA
      obtain ⟨hnol, hlast, hdef⟩ := okClosed_spec bA stA hcA
      have hsx : stA.setext = true := (sx_all cfg0 30).1 _ _ _ _ rfl hA
      have hst : stA = {} := by
        cases stA
        simp only at hsx hdef
        subst hsx; subst hdef; rfl
      subst hst
      exact ⟨bA, bB, stB, rfl, rfl,
        C05_blank_line_independent_partial cfg0 (by decide) sampleA sampleB 30 30 bA bB _ stB hA hnol hlast rfl hB hnA hnB⟩

/-- instance of `C05_suffix_shift` / `C05_suffix_local`: B = `sampleB` (a list: `ListItem.read` backsteps over
    its trailing blank line, `List.read` re-anchors) behind the seven lines of `sampleA ++ ["\n"]` -/
example : digestR (tokLoop cfg0 40
      { lines := numbered 0 (sampleA ++ [['\n']]) ++ (numbered 0 sampleB).map (Line.sh 7), pos := 7, start := 1 } {} [] false) =
    (digestR (tokenizeBlock cfg0 41 (numbered 0 sampleB) 1 {})).map
      (fun r => (r.1.map (fun x => (x.1, x.2.1 + 7, x.2.2 + 7)), r.2)) := by decide +kernel

example := C05_suffix_shift cfg0 40 (numbered 0 (sampleA ++ [['\n']])) (numbered 0 sampleB) 1 {} [] false
  (numbered_nlEnd 0 sampleB (by intro s hs; apply nlEnd_of_check; revert s; decide))

/-- readers that step back at the very start of B: an HTML block ended by a blank line (`backstep`),
    indented code with trailing blank lines (gives them back) — same digest with three lines in front -/
example :
    let B : List Line := numbered 3 [L "<div>\n", L "\n", L "    code\n", L "\n", L "\n"]
    let pre : List Line := numbered 0 [L "x\n", L "y\n", L "\n"]
    digestR (tokLoop cfg0 40 { lines := pre ++ B, pos := 3, start := 1 } {} [] false) =
      digestR (tokLoop cfg0 40 { lines := B, pos := 0, start := 4 } {} [] false) ∧
    digestR (tokLoop cfg0 40 { lines := B, pos := 0, start := 4 } {} [] false) = some ([(11, 4, 4), (0, 6, 6)], true, 0) := by
  decide +kernel

/-- **The side condition of (S) is needed.**  A "line" with two newlines (impossible after
    `Document.__init__` on a string or on file lines, C15): `Footnote.read` finds no definition and
    hands back `count('\n') = 2` lines although it consumed one, so the cursor lands inside the
    preceding lines; the paragraph then reports line 3 instead of 4.  (The real code does the same:
    `Document(['# x\n','# y\n','# z\n','[a\n\n'])` ends with a Paragraph at line 3 that re-reads `# z`.) -/
theorem suffix_needs_complete_lines :
    let B : List Line := [{ s := L "[a\n\n", origin := 4 }]
    let pre : List Line := numbered 0 [L "# x\n", L "# y\n", L "# z\n"]
    digestR (tokLoop cfg0 40 { lines := pre ++ B, pos := 3, start := 1 } {} [] false) = some ([(9, 3, 4)], false, 0) ∧
    digestR (tokLoop cfg0 40 { lines := B, pos := 0, start := 4 } {} [] false) = some ([(9, 4, 4)], false, 0) := by
  decide +kernel

/-- instance of `C05_prefix_partial`: whatever follows the blank line after `sampleA` -/
example (rest : List Line) : ∃ bA stA g', 30 ≤ g' ∧ tokenizeBlock cfg0 30 (numbered 0 sampleA) 1 {} = .ok (bA, stA) ∧
    tokenizeBlock cfg0 60 (numbered 0 sampleA ++ { s := ['\n'], origin := 7 } :: rest) 1 {} =
      tokLoop cfg0 g' { lines := numbered 0 sampleA ++ { s := ['\n'], origin := 7 } :: rest, pos := 7, start := 1 } stA
        bA.entries.reverse true := by
  have hcA : okClosed (blockPhase cfg0 30 sampleA) = true := by decide +kernel
  cases hA : blockPhase cfg0 30 sampleA with
  | err e => rw [hA] at hcA; cases hcA
  | ok rA =>
    obtain ⟨bA, stA⟩ := rA
    rw [hA] at hcA
    obtain ⟨hnol, hlast, _⟩ := okClosed_spec bA stA hcA
    obtain ⟨g', hg, heq⟩ := C05_prefix_partial cfg0 (by decide) (numbered 0 sampleA) { s := ['\n'], origin := 7 } rfl rest 1 {} 30
      bA stA hA hnol hlast (numbered_nlEnd 0 sampleA (by intro s hs; apply nlEnd_of_check; revert s; decide)) 30 (by decide)
    exact ⟨bA, stA, g', hg, hA, heq⟩

/-- (P) fails without the restriction on the LAST block, as it must: A = a list item; B continues it -/
example : digestR (blockPhase cfg0 30 [L "- a\n"]) = some ([(5, 1, 1), (13, 1, 1), (9, 1, 1)], false, 0) ∧
    digestR (blockPhase cfg0 30 [L "- a\n", L "\n", L "  b\n"]) =
      some ([(5, 1, 1), (13, 1, 1), (9, 1, 1), (9, 3, 3)], false, 0) := by decide +kernel

def cfgX : Cfg := { types := [.table, .list, .footnote, .paragraph] }
def exA : List Str := [L "- a\n", L "* b | c\n", L "|-|-|\n"]
def exB : List Str := [L "  [x]: y\n"]

/-- **A marker of another type is left unread** (behaviour after the repair of `List.read`; before it, the
    item behind such a marker was read and then discarded, but the link reference definitions found
    in it stayed registered — `append_footnotes` was called twice for `[x]` on this input, and in
    `["- \n", "\n", "* * *\n", "para [foo]\n"] ++ ["\n"] ++ ["      [foo]: /url\n"]` a definition that
    neither part contains was registered, turning `[foo]` into a link).
    Token order `[Table, List, Footnote, Paragraph]`: A = "- a", "* b | c", "|-|-|" gives a list and a
    table (closed last block), no definition.  `List.read` sees that `*` does not fit the `-` list
    and stops in front of "* b | c", which the dispatcher reads as a table.  With B = "  [x]: y"
    behind a blank line, `[x]` is registered once, by B's own `Footnote.read`
    (kinds: 5 list, 6 table, 7 footnote; last component = number of definitions registered). -/
theorem list_other_marker_not_read :
    digestR (blockPhase cfgX 60 exA) = some ([(5, 1, 1), (13, 1, 1), (9, 1, 1), (6, 2, 2)], false, 0) ∧
    digestR (blockPhase cfgX 60 exB) = some ([(7, 1, 1)], false, 1) ∧
    digestR (blockPhase cfgX 60 (exA ++ [['\n']] ++ exB)) =
      some ([(5, 1, 1), (13, 1, 1), (9, 1, 1), (6, 2, 2), (7, 5, 5)], true, 1) := by
  refine ⟨?_, ?_, ?_⟩ <;> decide +kernel


/-- the hypothesis `.blankLine ∉ cfg.types` of the prefix theorems holds for the token lists of the working
    tree outside the Markdown renderer (default list and the HTML renderer's list, regenerated from /repo) -/
theorem C05_config_current : ∀ cfg, (Config.html = some cfg ∨ Config.default = some cfg) → BTok.blankLine ∉ cfg.block.types := by
  have h : ∀ o ∈ [Config.html, Config.default], ∀ cfg, o = some cfg → (!cfg.block.types.contains BTok.blankLine) = true := by
    decide +kernel
  intro cfg hc
  have := h (some cfg) (by rcases hc with hc | hc <;> simp [hc]) cfg rfl
  simpa using this

end Mistletoe.Props.C05
