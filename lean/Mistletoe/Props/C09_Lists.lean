/-
  C09 (fragment with lists) — property theorem only; the proofs are in Proofs/MdRoundLists.lean and Proofs/MdRoundLists2.lean.

  The tree type `MB` adds LISTS to the blocks of Props/C09.lean (inert prose paragraphs, ATX headings, thematic breaks): bullet
  (`-`, `+`, `*`) or ordered (consecutive numbers from `start` below 10^9, `.` or `)`), marker in column 0, padding 1-4 (exactly 1
  under normalize_whitespace=True, where the renderer rewrites it), tight or loose, items of any number of blocks (nested lists
  to any depth included), siblings separated by single empty lines; the whole inside `k ≥ 0` nested block quotes.  `MB.oks nw`
  is the decidable normal form for the value `nw` of normalize_whitespace.  Under the Markdown token list every separator line
  is a BlankLine token; the proof tracks where each of them ends up (last child of the item before it, or of the enclosing
  level) and shows that the renderer re-emits exactly the lines.
-/
import Mistletoe.Proofs.MdRoundLists2
namespace Mistletoe.Props.C09L
open Mistletoe Mistletoe.Py Mistletoe.Block Mistletoe.Inline Mistletoe.InertInline Mistletoe.MdRound
open Mistletoe.Props.C09 (quoted)

/-- **Round trip of documents with lists in the renderer's normal form, for the token lists of the working tree**
    (`Config.markdown`), inside `k ≥ 0` nested block quotes, no line limit, either value of normalize_whitespace:
    `MarkdownRenderer.render(Document(text))` is the text; rendering again reproduces it; the rendered text parses like the
    original under every configuration (same document, same definitions, same HTML). -/
theorem C09_lists_roundtrip_partial (cfg : Document.Cfg) (hcfg : Config.markdown = some cfg)
    (o : Markdown.Opts) (ho : o.maxLineLength = none)
    (ts : List MB) (hne : ts ≠ []) (hok : MB.oks o.normalizeWhitespace ts = true)
    (hnt : ∀ l ∈ wrs ts, '\t' ∉ l) (k : Nat) (gas : Nat) :
    ∃ d, Document.parse cfg (gas + (needsM ts + 1) + k * 8) (quoted k (wrs ts)).flatten = .ok d ∧
      Markdown.render o d = (quoted k (wrs ts)).flatten ∧
      (∃ d', Document.parse cfg (gas + (needsM ts + 1) + k * 8) (Markdown.render o d) = .ok d' ∧
        Markdown.render o d' = Markdown.render o d) ∧
      (∀ (cfg' : Document.Cfg) (g : Nat),
        Document.parse cfg' g (Markdown.render o d) = Document.parse cfg' g (quoted k (wrs ts)).flatten) ∧
      (∀ (hopts : Html.Opts) (g : Nat),
        Config.renderHtml hopts g (Markdown.render o d) = Config.renderHtml hopts g (quoted k (wrs ts)).flatten) :=
  Mistletoe.Props.C09.C09_lists_roundtrip_markdown cfg hcfg o ho ts hne hok hnt k gas

/-- at top level, with the parsed tree: `List` / `ListItem` / `BlankLine` tokens exactly as `blks 1 ts` says -/
theorem C09_lists_exact_partial (cfg : Document.Cfg) (hty : cfg.block.types = Props.C14.markdownTypes)
    (ht : ∀ t ∈ cfg.span, inertClass t = true) (hc : cfg.span.count .lineBreak = 1)
    (o : Markdown.Opts) (ho : o.maxLineLength = none)
    (ts : List MB) (hne : ts ≠ []) (hok : MB.oks o.normalizeWhitespace ts = true) (gas : Nat) :
    ∃ d, Document.parseLines cfg (gas + (needsM ts + 1)) (wrs ts) = .ok d ∧
      d.kids = blks 1 ts ∧
      Markdown.renderRes o d = .ok (wrs ts).flatten ∧ Markdown.render o d = (wrs ts).flatten :=
  Mistletoe.Props.C09.C09_lists_exact_partial cfg hty ht hc o ho ts hne hok gas

end Mistletoe.Props.C09L
