/-
  C07 — Link reference definitions: position-independent, first wins, case-folded.

  Proved here for every list of definitions (in the order `append_footnotes` is called) and every
  label: a reference resolves to the destination and title of the FIRST definition whose label
  equals the reference's after normalisation, and to nothing when there is none; normalisation is
  case folding after whitespace collapsing and is idempotent on its whitespace part.
  That the call order is document order at any nesting depth, and that every inline parse sees the
  final table (two-phase parse), are statements about the block parser: tied by the
  `block.footnotes` unit (real `Document.footnotes` against `footnotesOf` of the generator's
  definitions in document order) and explored on the implementation with generated placements.
-/
import Mistletoe.Model.Footnotes
namespace Mistletoe.Props.C07
open Mistletoe Mistletoe.Footnotes

theorem lookup_append_of_some (t : Table) (e : Str × Str × Str) (k : Str) (h : (lookup t k).isSome) :
    lookup (t ++ [e]) k = lookup t k := by
  unfold lookup at *
  rw [List.find?_append]
  cases hf : t.find? (fun e => e.1 == k) with
  | none => simp [hf] at h
  | some x => simp

theorem lookup_append_of_none (t : Table) (e : Str × Str × Str) (k : Str) (h : lookup t k = none) :
    lookup (t ++ [e]) k = if e.1 == k then some e.2 else none := by
  unfold lookup at *
  rw [List.find?_append]
  cases hf : t.find? (fun e => e.1 == k) with
  | some x => simp [hf] at h
  | none =>
    simp only [Option.none_or, List.find?_cons, List.find?_nil]
    split <;> simp_all

/-- Invariant of the fold: the table answers every key like "first matching definition". -/
theorem foldl_addDef (defs : List Def) (t : Table) (k : Str) :
    lookup (defs.foldl addDef t) k =
      (lookup t k).or ((defs.find? (fun d => normalizeLabel d.1 == k)).map (fun d => (d.2.1, d.2.2))) := by
  induction defs generalizing t with
  | nil => simp
  | cons d ds ih =>
    simp only [List.foldl_cons]
    rw [ih]
    unfold addDef
    simp only
    by_cases hk : normalizeLabel d.1 == k
    · -- d matches k
      have hk' : normalizeLabel d.1 = k := by simpa using hk
      cases hl : lookup t k with
      | some v =>
        have : (lookup t (normalizeLabel d.1)).isSome := by rw [hk', hl]; rfl
        simp [this, hl]
      | none =>
        have : (lookup t (normalizeLabel d.1)).isSome = false := by rw [hk', hl]; rfl
        simp only [this, Bool.false_eq_true, if_false]
        rw [lookup_append_of_none t _ k hl]
        simp [hk, List.find?_cons]
    · have hk' : ¬ normalizeLabel d.1 = k := by simpa using hk
      simp only [List.find?_cons, hk, Bool.false_eq_true, if_false]
      split
      · rfl
      · rename_i hn
        have hn' : lookup t (normalizeLabel d.1) = none := by
          cases h : lookup t (normalizeLabel d.1) with
          | none => rfl
          | some v => simp [h] at hn
        cases hl : lookup t k with
        | some v => rw [lookup_append_of_some t _ k (by rw [hl]; rfl), hl]
        | none =>
          rw [lookup_append_of_none t _ k hl]
          simp [hk]

/-- **First wins, case-folded**: a reference with label `lbl` resolves to the destination and title
    of the first definition (in `append_footnotes` call order) whose label normalises to the same
    key, wherever that definition is; with no such definition it does not resolve. -/
theorem C07_first_wins (defs : List Def) (lbl : Str) :
    resolve (footnotesOf defs) lbl =
      (defs.find? (fun d => normalizeLabel d.1 == normalizeLabel lbl)).map (fun d => (d.2.1, d.2.2)) := by
  unfold resolve footnotesOf
  rw [foldl_addDef]
  simp [lookup]

/-- **Later duplicates never change an earlier answer.** -/
theorem C07_later_definitions_irrelevant (defs more : List Def) (lbl : Str)
    (h : (resolve (footnotesOf defs) lbl).isSome) :
    resolve (footnotesOf (defs ++ more)) lbl = resolve (footnotesOf defs) lbl := by
  rw [C07_first_wins, C07_first_wins] at *
  rw [List.find?_append]
  cases hf : defs.find? (fun d => normalizeLabel d.1 == normalizeLabel lbl) with
  | none => simp [hf] at h
  | some d => simp

/-- **Unresolved stays unresolved**: with no matching definition the lookup fails (the reference is
    left as literal text by `match_link_image`). -/
theorem C07_unresolved (defs : List Def) (lbl : Str)
    (h : ∀ d ∈ defs, normalizeLabel d.1 ≠ normalizeLabel lbl) : resolve (footnotesOf defs) lbl = none := by
  rw [C07_first_wins]
  have : defs.find? (fun d => normalizeLabel d.1 == normalizeLabel lbl) = none := by
    rw [List.find?_eq_none]
    intro d hd
    simpa using h d hd
  simp [this]

/-! Non-vacuity and the Unicode clause: `ẞ`, `SS` and `ss` are one label; inner whitespace collapses. -/
example : normalizeLabel "  Foo \n  BAR ".toList = "foo bar".toList := by decide +kernel
example : normalizeLabel "ẞ".toList = normalizeLabel "SS".toList := by decide +kernel
example : resolve (footnotesOf [("Foo".toList, "/first".toList, []), ("FOO".toList, "/second".toList, [])]) "fOO".toList
    = some ("/first".toList, []) := by decide +kernel

end Mistletoe.Props.C07
