/-
  C07 — Link reference definitions: position-independent, first wins, case-folded.

  Proved here for every list of definitions (in the order `append_footnotes` is called) and every
  label: a reference resolves to the destination and title of the FIRST definition whose label
  equals the reference's after normalisation, and to nothing when there is none; normalisation is
  case folding after whitespace collapsing and is idempotent on its whitespace part.
  That the call order is document order at any nesting depth, and that every inline parse sees the
  final table (two-phase parse), are statements about the block parser: tied by the
  `block.footnotes` unit (real `Document.footnotes` against `footnotesOf` of the generator's
  definitions in document order) and explored on the implementation with generated placements.
-/
import Mistletoe.Model.Footnotes
import Mistletoe.Model.Document
namespace Mistletoe.Props.C07
open Mistletoe Mistletoe.Footnotes

theorem lookup_append_of_some (t : Table) (e : Str × Str × Str) (k : Str) (h : (lookup t k).isSome) :
    lookup (t ++ [e]) k = lookup t k := by
  unfold lookup at *
  rw [List.find?_append]
  cases hf : t.find? (fun e => e.1 == k) with
  | none => simp [hf] at h
  | some x => simp

theorem lookup_append_of_none (t : Table) (e : Str × Str × Str) (k : Str) (h : lookup t k = none) :
    lookup (t ++ [e]) k = if e.1 == k then some e.2 else none := by
  unfold lookup at *
  rw [List.find?_append]
  cases hf : t.find? (fun e => e.1 == k) with
  | some x => simp [hf] at h
  | none =>
    simp only [Option.none_or, List.find?_cons, List.find?_nil]
    split <;> simp_all

/-- Invariant of the fold: the table answers every key like "first matching definition". -/
theorem foldl_addDef (defs : List Def) (t : Table) (k : Str) :
    lookup (defs.foldl addDef t) k =
      (lookup t k).or ((defs.find? (fun d => normalizeLabel d.1 == k)).map (fun d => (d.2.1, d.2.2))) := by
  induction defs generalizing t with
  | nil => simp
  | cons d ds ih =>
    simp only [List.foldl_cons]
    rw [ih]
    unfold addDef
    simp only
    by_cases hk : normalizeLabel d.1 == k
    · -- d matches k
      have hk' : normalizeLabel d.1 = k := by simpa using hk
      cases hl : lookup t k with
      | some v =>
        have : (lookup t (normalizeLabel d.1)).isSome := by rw [hk', hl]; rfl
        simp [this, hl]
      | none =>
        have : (lookup t (normalizeLabel d.1)).isSome = false := by rw [hk', hl]; rfl
        simp only [this, Bool.false_eq_true, if_false]
        rw [lookup_append_of_none t _ k hl]
        simp [hk, List.find?_cons]
    · have hk' : ¬ normalizeLabel d.1 = k := by simpa using hk
      simp only [List.find?_cons, hk, Bool.false_eq_true, if_false]
      split
      · rfl
      · rename_i hn
        have hn' : lookup t (normalizeLabel d.1) = none := by
          cases h : lookup t (normalizeLabel d.1) with
          | none => rfl
          | some v => simp [h] at hn
        cases hl : lookup t k with
        | some v => rw [lookup_append_of_some t _ k (by rw [hl]; rfl), hl]
        | none =>
          rw [lookup_append_of_none t _ k hl]
          simp [hk]

/-- **First wins, case-folded**: a reference with label `lbl` resolves to the destination and title
    of the first definition (in `append_footnotes` call order) whose label normalises to the same
    key, wherever that definition is; with no such definition it does not resolve. -/
theorem C07_first_wins (defs : List Def) (lbl : Str) :
    resolve (footnotesOf defs) lbl =
      (defs.find? (fun d => normalizeLabel d.1 == normalizeLabel lbl)).map (fun d => (d.2.1, d.2.2)) := by
  unfold resolve footnotesOf
  rw [foldl_addDef]
  simp [lookup]

/-- **Later duplicates never change an earlier answer.** -/
theorem C07_later_definitions_irrelevant (defs more : List Def) (lbl : Str)
    (h : (resolve (footnotesOf defs) lbl).isSome) :
    resolve (footnotesOf (defs ++ more)) lbl = resolve (footnotesOf defs) lbl := by
  rw [C07_first_wins, C07_first_wins] at *
  rw [List.find?_append]
  cases hf : defs.find? (fun d => normalizeLabel d.1 == normalizeLabel lbl) with
  | none => simp [hf] at h
  | some d => simp

/-- **Unresolved stays unresolved**: with no matching definition the lookup fails (the reference is
    left as literal text by `match_link_image`). -/
theorem C07_unresolved (defs : List Def) (lbl : Str)
    (h : ∀ d ∈ defs, normalizeLabel d.1 ≠ normalizeLabel lbl) : resolve (footnotesOf defs) lbl = none := by
  rw [C07_first_wins]
  have : defs.find? (fun d => normalizeLabel d.1 == normalizeLabel lbl) = none := by
    rw [List.find?_eq_none]
    intro d hd
    simpa using h d hd
  simp [this]

/-! Non-vacuity and the Unicode clause: `ẞ`, `SS` and `ss` are one label; inner whitespace collapses. -/
example : normalizeLabel "  Foo \n  BAR ".toList = "foo bar".toList := by decide +kernel
example : normalizeLabel "ẞ".toList = normalizeLabel "SS".toList := by decide +kernel
example : resolve (footnotesOf [("Foo".toList, "/first".toList, []), ("FOO".toList, "/second".toList, [])]) "fOO".toList
    = some ("/first".toList, []) := by decide +kernel


/-! ### Position independence: the two-phase parse (over the whole-document model)

  `Document.parseLines` (model of `Document.__init__`): the block phase runs over the WHOLE document,
  containers included, collecting every definition handed to `append_footnotes` in call order
  (`st.defs`); only then are the block tokens constructed, and every inline tokenization, at every
  nesting depth, is given the one table built from all of them.  So whether a definition sits before or
  after its use, at top level or inside a block quote or list item, cannot matter: there is one table. -/

open Mistletoe.Document in
/-- **All inline content of a document is resolved against one table, built from every definition of
    the document**: if `Document(lines)` returns `d`, then there are a parse buffer `buf` and a final
    block-phase state `st` with `blockPhase = (buf, st)`, the document's `footnotes` is
    `footnotesOf st.defs` (first-wins over all definitions in call order, see `C07_first_wins`), and the
    token tree is `make_tokens buf` computed with exactly that table. -/
theorem C07_two_phase (cfg : Document.Cfg) (gas : Nat) (lines : List Str) (d : Doc)
    (h : parseLines cfg gas lines = .ok d) :
    ∃ buf st, Block.blockPhase cfg.block gas lines = .ok (buf, st) ∧
      d.footnotes = Document.footnotesOf st.defs ∧
      mkBlocks cfg (Document.footnotesOf st.defs) buf.entries = .ok d.kids := by
  unfold parseLines at h
  cases hb : Block.blockPhase cfg.block gas lines with
  | err e => rw [hb] at h; cases h
  | ok r =>
    obtain ⟨buf, st⟩ := r
    rw [hb] at h
    cases hk : mkBlocks cfg (Document.footnotesOf st.defs) buf.entries with
    | err e => simp [hk] at h
    | ok kids =>
      simp [hk] at h
      subst h
      exact ⟨buf, st, rfl, rfl, hk⟩

open Mistletoe.Document in
/-- **Definitions produce no output of their own**: the constructor of a `Footnote` entry returns no
    token (`None`), whatever the table and the configuration. -/
theorem C07_definitions_no_token (cfg : Document.Cfg) (fn : Footnotes.Table) (ms : List Block.FnMatch) (ln og : Nat) :
    mkBlock cfg fn (.footnote ms ln og) = .ok none := by
  simp [mkBlock]

end Mistletoe.Props.C07
