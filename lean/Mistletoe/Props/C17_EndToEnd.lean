/-
  C17 (for every text) — property theorem only; the proof is in Proofs/LatexEndToEnd.lean (Props/C17.lean's structure
  theorem for every tree, composed with the parser's totality and Proofs/LatexTotal.lean).
-/
import Mistletoe.Proofs.LatexEndToEnd
namespace Mistletoe.Props.C17E
open Mistletoe Mistletoe.Block Mistletoe.Lines

/-- **For every input text** (LaTeX token lists of the working tree, enough gas) the parse returns a document and the LaTeX
    renderer EITHER refuses with the documented `\verb` refusal (some inline code uses every candidate delimiter) OR its
    output is the serialisation of an event list with balanced groups, properly nested environments, only the renderer's own
    commands and every special character of the text escaped (`WellFormed`). -/
theorem C17_every_text (cfg : Document.Cfg) (hc : Config.latex = some cfg) (gas : Nat) (t : Str)
    (hg : gasBound cfg.block (docBuf (normalize (.str t))) ≤ gas) :
    ∃ d, Document.parse cfg gas t = .ok d ∧ Config.renderLatex gas t = some (Latex.renderRes d) ∧
      ((Latex.renderRes d = .err (.refusal 0) ∧ ∃ c ∈ Latex.codes d, Latex.UsesAllDelims c) ∨
       (Latex.renderRes d = .ok (Latex.flat (Latex.renderDoc d)) ∧ PredLatex.WellFormed (Latex.renderDoc d))) :=
  Mistletoe.Props.C17.C17_every_text cfg hc gas t hg

end Mistletoe.Props.C17E
