/-
  C18 — HTML-based contrib renderers conservatively extend the HTML renderer.

  Layer 1 (regenerated on every run): the *resolved* render_map and helper methods of TocRenderer,
  GithubWikiRenderer, MathJaxRenderer and PygmentsRenderer, read from the imported working tree
  (Gen/RenderMaps.lean), agree with HtmlRenderer's on every key outside the extension's own keys;
  the token lists differ only by the extension's token.  These are `decide`d on the generated
  tables, so an override added to a contrib renderer, or an MRO change in the MathJax double
  inheritance, breaks the build of this file.

  Layer 2: in the model the rendering functions are shared (the flavour is read only by
  `supported` and `suffix`), which is what layer 1 licenses; the `render.<R>` correspondence
  units compare each real contrib renderer with the model byte for byte.
-/
import Mistletoe.Model.Html
namespace Mistletoe.Props.C18
open Mistletoe Mistletoe.Html Mistletoe.Gen.RenderMaps

def lookup (m : List (String × String)) (k : String) : Option String :=
  (m.find? (fun kv => kv.1 == k)).map (·.2)

/-- Every key of `base` outside `ext` resolves to the same function in `R`. -/
def sameExcept (R base : List (String × String)) (ext : List String) : Bool :=
  base.all (fun kv => ext.contains kv.1 || lookup R kv.1 == some kv.2)

/-- `R` has exactly the keys of `base` plus `extra`. -/
def keysAre (R base : List (String × String)) (extra : List String) : Bool :=
  R.all (fun kv => (base.map (·.1)).contains kv.1 || extra.contains kv.1)
  && base.all (fun kv => (R.map (·.1)).contains kv.1)

/-- **Method resolution**: outside the keys of their own extension the four renderers dispatch to
    exactly the functions HtmlRenderer dispatches to. -/
theorem C18_resolution :
    sameExcept toc html ["Heading", "SetextHeading"] = true ∧
    sameExcept githubWiki html [] = true ∧
    sameExcept mathjax html ["Document"] = true ∧
    sameExcept pygments html ["CodeFence", "BlockCode"] = true ∧
    keysAre toc html [] = true ∧ keysAre githubWiki html ["GithubWiki"] = true ∧
    keysAre mathjax html ["Math"] = true ∧ keysAre pygments html [] = true := by
  decide +kernel

/-- **Helpers** (`render`, `render_inner`, `render_to_plain`, `escape_url`, `escape_html_text`,
    `render_table_row`, `render_table_cell`) resolve as in HtmlRenderer — the MRO anchor. -/
theorem C18_helpers :
    tocHelpers = htmlHelpers ∧ githubWikiHelpers = htmlHelpers ∧ mathjaxHelpers = htmlHelpers ∧
    pygmentsHelpers = htmlHelpers := by
  decide +kernel

/-- **Token lists** inside the renderer's context: block lists equal HtmlRenderer's; span lists
    equal it up to the extension's own token. -/
theorem C18_token_lists :
    tocBlockTokens = htmlBlockTokens ∧ githubWikiBlockTokens = htmlBlockTokens ∧
    mathjaxBlockTokens = htmlBlockTokens ∧ pygmentsBlockTokens = htmlBlockTokens ∧
    tocSpanTokens = htmlSpanTokens ∧ pygmentsSpanTokens = htmlSpanTokens ∧
    githubWikiSpanTokens.filter (· != "GithubWiki") = htmlSpanTokens ∧
    mathjaxSpanTokens.filter (· != "Math") = htmlSpanTokens := by
  decide +kernel

/-- **Same output**: for every tree and every option set the flavoured renderer's output is the
    HTML renderer's output followed by the flavour's suffix (the MathJax script line, else nothing). -/
theorem C18_render_same (o : Opts) (fl : Flavor) (d : Doc) :
    renderFlavored { o with flavor := fl } d = renderFlavored { o with flavor := .html } d ++ suffix fl := by
  simp [renderFlavored, render, Opts.q, suffix]

/-- The suffix is the generated `MathJaxRenderer.mathjax_src` for MathJax and empty otherwise. -/
theorem C18_suffix : suffix .mathjax = mathjaxSrc ∧ suffix .toc = [] ∧ suffix .githubWiki = [] ∧ suffix .pygments = [] :=
  ⟨rfl, rfl, rfl, rfl⟩

example : mathjaxSrc ≠ [] := by decide

end Mistletoe.Props.C18
