/-
  C08 — HTML output is well-formed and document text cannot inject markup.

  The theorems quantify over EVERY token tree of the model's AST type (not only parser output),
  every string in every attribute, and all option combinations: they are independent of the
  parser.  `renderDoc` is the model of `HtmlRenderer.render` as an event list; `render o d =
  flat (renderDoc o.q d)` is the output string, compared byte for byte with the real renderer by the
  `render.html` correspondence unit.  The only hypothesis is `levelsOks` (heading levels 1…6,
  which C12 states of parsed documents): it makes `h<level>` a tag of the fixed vocabulary.
-/
import Mistletoe.Proofs.Html
namespace Mistletoe.Props.C08
open Mistletoe Mistletoe.Html Mistletoe.Pred Mistletoe.Escape

/-- **Well-formed for every tree and every option set** (raw HTML leaves set aside): the output is
    the spelling of an event list that is properly nested, uses only the fixed tag vocabulary and
    the fixed attribute names, whose attribute values contain no `"`, `<`, `>`, and whose text
    contains no `<`, `>` and `&` only as the five character references. -/
theorem C08_with_raw (o : Opts) (d : Doc) (h : levelsOks d.kids = true) :
    render o d = flat (renderDoc o.q d) ∧ WellFormed (renderDoc o.q d)
    ∧ rawsOf (renderDoc o.q d) = (if (renderDoc o.q d).isEmpty then [] else htmlOfL d.kids) := by
  refine ⟨rfl, ⟨(doc_wf o.q d h).1, ?_⟩, raws_doc o.q d⟩
  intro e he
  exact List.all_eq_true.mp (doc_wf o.q d h).2 e he

theorem htmlSpansL_nil_of_noHtml : ∀ (is : List Inline), noHtmlInlines is = true → htmlSpansL is = []
  | [], _ => rfl
  | i :: is, h => by
    simp only [noHtmlInlines, Bool.and_eq_true] at h
    have hi : htmlSpans i = [] := by
      cases i <;> simp only [noHtmlInline] at h <;> simp only [htmlSpans] <;>
        first | rfl | exact htmlSpansL_nil_of_noHtml _ h.1 | (exfalso; exact Bool.false_ne_true h.1)
    simp [htmlSpansL, hi, htmlSpansL_nil_of_noHtml is h.2]

theorem cellsHtml_nil : ∀ (cs : List Block), noHtmlBlocks cs = true → cellsHtml cs = []
  | [], _ => rfl
  | c :: cs, h => by
    simp only [noHtmlBlocks, Bool.and_eq_true] at h
    have hc : cellHtml c = [] := by
      cases c <;> simp only [cellHtml]
      rename_i a k _
      exact htmlSpansL_nil_of_noHtml k (by simpa [noHtmlBlock] using h.1)
    simp [cellsHtml, hc, cellsHtml_nil cs h.2]

mutual
theorem htmlOf_nil : ∀ (b : Block), noHtmlBlock b = true → htmlOf b = []
  | .htmlBlock .., h => by simp [noHtmlBlock] at h
  | .paragraph k _, h => by simpa [htmlOf] using htmlSpansL_nil_of_noHtml k (by simpa [noHtmlBlock] using h)
  | .heading _ _ k _, h => by simpa [htmlOf] using htmlSpansL_nil_of_noHtml k (by simpa [noHtmlBlock] using h)
  | .setextHeading _ _ k _, h => by simpa [htmlOf] using htmlSpansL_nil_of_noHtml k (by simpa [noHtmlBlock] using h)
  | .quote kids _, h => by simpa [htmlOf] using htmlOfL_nil kids (by simpa [noHtmlBlock] using h)
  | .list _ _ items _, h => by simpa [htmlOf] using htmlOfL_nil items (by simpa [noHtmlBlock] using h)
  | .listItem _ _ _ _ kids _, h => by simpa [htmlOf] using htmlOfL_nil kids (by simpa [noHtmlBlock] using h)
  | .table _ header rows _, h => by
    simp only [noHtmlBlock, Bool.and_eq_true] at h
    simp only [htmlOf, htmlOfL_nil rows h.2, List.append_nil]
    cases header with
    | nil => rfl
    | cons hr _ =>
      simp only [noHtmlBlocks, Bool.and_eq_true] at h
      cases hr <;> simp only [rowHtml]
      rename_i a cells _
      exact cellsHtml_nil cells (by simpa [noHtmlBlock] using h.1.1)
  | .tableRow _ cells _, h => by simpa [htmlOf] using cellsHtml_nil cells (by simpa [noHtmlBlock] using h)
  | .tableCell _ k _, h => by simpa [htmlOf] using htmlSpansL_nil_of_noHtml k (by simpa [noHtmlBlock] using h)
  | .blockCode .., _ => rfl
  | .codeFence .., _ => rfl
  | .thematicBreak .., _ => rfl
  | .blankLine _, _ => rfl
  | .linkRefDefBlock .., _ => rfl
theorem htmlOfL_nil : ∀ (bs : List Block), noHtmlBlocks bs = true → htmlOfL bs = []
  | [], _ => rfl
  | b :: bs, h => by
    simp only [noHtmlBlocks, Bool.and_eq_true] at h
    simp [htmlOfL, htmlOf_nil b h.1, htmlOfL_nil bs h.2]
end

/-- **Raw-HTML processing disabled** (the tree holds no HtmlBlock / HtmlSpan token): the output
    consists *solely* of the renderer's own tags and escaped text — no verbatim leaf at all. -/
theorem C08_no_raw (o : Opts) (d : Doc) (h : levelsOks d.kids = true) (hn : noHtmlBlocks d.kids = true) :
    WellFormed (renderDoc o.q d) ∧ ∀ e ∈ renderDoc o.q d, isRaw e = false := by
  have hw := C08_with_raw o d h
  refine ⟨hw.2.1, ?_⟩
  have hr : rawsOf (renderDoc o.q d) = [] := by
    rw [hw.2.2, htmlOfL_nil d.kids hn]; split <;> rfl
  intro e he
  cases e <;> try rfl
  rename_i s
  have : s ∈ rawsOf (renderDoc o.q d) := by
    simp only [rawsOf, List.mem_filterMap]
    exact ⟨_, he, rfl⟩
  rw [hr] at this
  cases this

/-- **The escaping helpers themselves**, for every string: link destinations and image sources
    (`escape_url`), titles / alt text / language tags (`html.escape`) never end their attribute;
    text (`escape_html_text`, all four option sets) never opens a tag or a reference. -/
theorem C08_helpers (s : Str) (dq sq : Bool) :
    safeAttr (htmlEscapeUrl s) = true ∧ safeAttr (htmlEscape s) = true ∧
    safeText (escapeHtmlText dq sq s) = true :=
  ⟨safeAttr_htmlEscapeUrl s, safeAttr_htmlEscape s, safeText_escapeHtmlText dq sq s⟩

/-! Non-vacuity: a hostile tree meets the hypotheses, and its rendering is visibly inert. -/
def hostile : Doc :=
  { kids := [.paragraph [.image "x\"onerror=\"alert(1)".toList "t\"<".toList .uri none none [.rawText "a\"<b>&".toList],
                         .link "javascript:\"><script>".toList [] .uri none none [.rawText "<&>".toList]] 1,
             .codeFence "py\" onload=\"x".toList 0 "```".toList [] "</code>".toList 2,
             .heading 2 [] [.autoLink "a@b\"c".toList true] 3],
    footnotes := [] }

example : levelsOks hostile.kids = true ∧ noHtmlBlocks hostile.kids = true := by decide

example : String.ofList (render {} hostile) =
    "<p><img src=\"x%22onerror=%22alert(1)\" alt=\"a&quot;&lt;b&gt;&amp;\" title=\"t&quot;&lt;\" /><a href=\"javascript:%22%3E%3Cscript%3E\">&lt;&amp;&gt;</a></p>\n<pre><code class=\"language-py&quot; onload=&quot;x\">&lt;/code&gt;</code></pre>\n<h2><a href=\"mailto:a@b%22c\">a@b\"c</a></h2>\n" := by
  decide +kernel

end Mistletoe.Props.C08
