/-
  C10 (paragraphs inside list items) — property theorems only; the proofs are in Proofs/ReflowList.lean (which builds on
  Proofs/MdRoundLists2.lean and Proofs/ReflowQuote.lean, hence this third file).

  Props/C10_Reflow.lean carries the four clauses through `Document(text)` and `MarkdownRenderer(max_line_length=L)` for
  plain-word prose at top level and inside k nested block quotes.  Here the CONTAINER IS A LIST ITEM (the property's
  mechanism: "containers shrink the budget by their prefix width (render_quote, render_list_item)"): documents of
  plain-word paragraphs and lists in the renderer's normal form (`PT`, mapped into the `MB` trees of Props/C09_Lists.lean:
  bullet and ordered lists, padding 1-4, tight or loose, nested to any depth, items holding paragraphs and lists), at top
  level and with `k` block quotes around the whole document.  `oksP` is the decidable admissibility predicate; it asks for
  `plainPara` of every paragraph and the list rules of C09, nothing about the lines (the line shape is proved).
  A paragraph behind item prefixes of total width `w` (and `k` quote markers) is filled with the budget
  `max (L − 2k − w) 1`; clamping at 1 does not break idempotence.
  Not covered: a list directly behind a paragraph inside an item (no empty line), block quotes inside items, hard breaks,
  inline markup; the meaning clause compares the HTML of the trees parsed under the Markdown renderer's token list.
-/
import Mistletoe.Proofs.ReflowList
namespace Mistletoe.Props.C10L
open Mistletoe Mistletoe.Py Mistletoe.Wrap Mistletoe.Markdown Mistletoe.InertInline Mistletoe.MdRound Mistletoe.Reflow Mistletoe.ReflowQuote
open Mistletoe.ReflowList
open Mistletoe.Props.C10 (joinWords)

/-- **Reflow inside list items** (clauses 1, 2 and the words of 3) for the token lists of the working tree: the renderer does
    not raise; its output is the text of the same tree with every paragraph re-filled by the greedy loop with the budget
    `bud L w = max (L − w) 1`, `w` the total width of the item prefixes around it; the re-filled tree is in the fragment with
    the same word sequence in every paragraph; every output line is "\n" or prefix ++ body ++ "\n" with the body a line of
    the fill loop, and a body longer than its budget - likewise a line longer than `L` - is one single word without whitespace. -/
theorem C10_list_reflow_partial (cfg : Document.Cfg) (hcfg : Config.markdown = some cfg)
    (o : Opts) (L : Nat) (hL : 1 ≤ L) (ho : o.maxLineLength = some (L : Int))
    (ts : List PT) (hne : ts ≠ []) (hok : oksP o.normalizeWhitespace ts = true) (gas : Nat) :
    ∃ d, Document.parse cfg (gas + (needsM (mbs ts) + 1)) (textL ts) = .ok d ∧ d.kids = blks 1 (mbs ts) ∧
      renderRes o d = .ok (textL (reflows L 0 ts)) ∧ render o d = textL (reflows L 0 ts) ∧
      (oksP o.normalizeWhitespace (reflows L 0 ts) = true ∧ norms (reflows L 0 ts) = norms ts ∧
        parasS 0 (reflows L 0 ts) = (parasS 0 ts).map (refillAt L) ∧
        ∀ p ∈ parasS 0 ts, plainPara p.2 = true ∧ plainPara (reflowG (bud L p.1) p.2) = true ∧
          (reflowG (bud L p.1) p.2).flatten = p.2.flatten ∧
          fill (bud L p.1) p.2.flatten = (reflowG (bud L p.1) p.2).map joinWords) ∧
      (∀ l ∈ wrs (mbs (reflows L 0 ts)), l = ['\n'] ∨ ∃ p ∈ parasS 0 ts, ∃ pre body, l = pre ++ body ++ ['\n'] ∧
        pre.length = p.1 ∧ (∀ c ∈ pre, preChar c = true) ∧ body ∈ fill (bud L p.1) p.2.flatten ∧
        ((bud L p.1 < body.length ∨ L < (pre ++ body).length) → body ∈ p.2.flatten ∧ ∀ c ∈ body, pyIsSpace c = false)) :=
  Mistletoe.ReflowList.C10_list_reflow_partial cfg hcfg o L hL ho ts hne hok gas

/-- **The same inside `k` nested block quotes** around the whole document (`k = 0` is the theorem above): the quotes take `2k`
    off the limit, the items go on from there. -/
theorem C10_list_reflow_quoted_partial (cfg : Document.Cfg) (hcfg : Config.markdown = some cfg)
    (o : Opts) (L : Nat) (hL : 1 ≤ L) (ho : o.maxLineLength = some (L : Int))
    (ts : List PT) (hne : ts ≠ []) (hok : oksP o.normalizeWhitespace ts = true) (k : Nat) (gas : Nat) :
    ∃ d, Document.parse cfg (gas + (needsM (mbs ts) + 1) + k * 8) (textLQ k ts) = .ok d ∧
      d.kids = qBlocks 1 (blks 1 (mbs ts)) k ∧
      renderRes o d = .ok (textLQ k (reflows (qBudget L k) 0 ts)) ∧ render o d = textLQ k (reflows (qBudget L k) 0 ts) ∧
      (oksP o.normalizeWhitespace (reflows (qBudget L k) 0 ts) = true ∧ norms (reflows (qBudget L k) 0 ts) = norms ts ∧
        parasS 0 (reflows (qBudget L k) 0 ts) = (parasS 0 ts).map (refillAt (qBudget L k)) ∧
        ∀ p ∈ parasS 0 ts, plainPara p.2 = true ∧ plainPara (reflowG (bud (qBudget L k) p.1) p.2) = true ∧
          (reflowG (bud (qBudget L k) p.1) p.2).flatten = p.2.flatten ∧
          fill (bud (qBudget L k) p.1) p.2.flatten = (reflowG (bud (qBudget L k) p.1) p.2).map joinWords) ∧
      (∀ l ∈ qStrs k (wrs (mbs (reflows (qBudget L k) 0 ts))), l = qPre k ++ ['\n'] ∨
        ∃ p ∈ parasS 0 ts, ∃ pre body, l = qPre k ++ (pre ++ body ++ ['\n']) ∧
          pre.length = p.1 ∧ (∀ c ∈ pre, preChar c = true) ∧ body ∈ fill (bud (qBudget L k) p.1) p.2.flatten ∧
          ((bud (qBudget L k) p.1 < body.length ∨ L < (qPre k ++ pre ++ body).length) →
            body ∈ p.2.flatten ∧ ∀ c ∈ body, pyIsSpace c = false)) :=
  Mistletoe.ReflowList.C10_list_reflow_quoted_partial cfg hcfg o L hL ho ts hne hok k gas

/-- **Same meaning** (clause 3) at quote depth `k ≥ 0`: the output parses again, to the token tree of the re-filled tree, which has
    the same lists / items / markers and the same words per paragraph; the HTML of the two trees is equal once every "\n" is
    replaced by a space. -/
theorem C10_list_reflow_quoted_meaning_partial (cfg : Document.Cfg) (hcfg : Config.markdown = some cfg)
    (o : Opts) (L : Nat) (hL : 1 ≤ L) (ho : o.maxLineLength = some (L : Int))
    (ts : List PT) (hne : ts ≠ []) (hok : oksP o.normalizeWhitespace ts = true) (k : Nat) (gas : Nat) :
    ∃ d d', Document.parse cfg (gas + (needsM (mbs ts) + 1) + k * 8) (textLQ k ts) = .ok d ∧
      Document.parse cfg (gas + (needsM (mbs ts) + 1) + k * 8) (render o d) = .ok d' ∧
      d.kids = qBlocks 1 (blks 1 (mbs ts)) k ∧ d'.kids = qBlocks 1 (blks 1 (mbs (reflows (qBudget L k) 0 ts))) k ∧
      oksP o.normalizeWhitespace (reflows (qBudget L k) 0 ts) = true ∧ norms (reflows (qBudget L k) 0 ts) = norms ts ∧
      ∀ hopts : Html.Opts, nlToSp (Html.render hopts d') = nlToSp (Html.render hopts d) :=
  Mistletoe.ReflowList.C10_list_reflow_quoted_meaning_partial cfg hcfg o L hL ho ts hne hok k gas

/-- **Reflowing again changes nothing** (clause 4) at quote depth `k ≥ 0`, for every `L ≥ 1`, also where budgets are clamped to 1. -/
theorem C10_list_reflow_quoted_idempotent_partial (cfg : Document.Cfg) (hcfg : Config.markdown = some cfg)
    (o : Opts) (L : Nat) (hL : 1 ≤ L) (ho : o.maxLineLength = some (L : Int))
    (ts : List PT) (hne : ts ≠ []) (hok : oksP o.normalizeWhitespace ts = true) (k : Nat) (gas : Nat) :
    ∃ d, Document.parse cfg (gas + (needsM (mbs ts) + 1) + k * 8) (textLQ k ts) = .ok d ∧
      ∃ d', Document.parse cfg (gas + (needsM (mbs ts) + 1) + k * 8) (render o d) = .ok d' ∧
        renderRes o d' = renderRes o d ∧ render o d' = render o d :=
  Mistletoe.ReflowList.C10_list_reflow_quoted_idempotent_partial cfg hcfg o L hL ho ts hne hok k gas

end Mistletoe.Props.C10L
