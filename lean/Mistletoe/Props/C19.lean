/-
  C19 — The table of contents lists exactly the qualifying headings, in order.

  Proved here, for every tree and every configuration: the collected entries are exactly the
  qualifying headings in document (pre-)order, containers included; the text of an entry is the
  heading's plain text for plain-word titles (the tag-stripping regex removes exactly the two
  heading tags); the list lines handed to the tokenizer are indented by 4·(level − base).
  The last step - those lines parse to a list nested by level - is a statement about the block
  parser: `C19_toc_nested` (lemmas in Proofs/Outline.lean) proves it for every heading list that is an
  outline (first heading shallowest, no level deepens by more than one) with plain titles (a letter
  first, no newline), for every token list in which `List` comes before `Table` and `Paragraph`
  (`C19_toc_config_current`: the lists the working tree installs).  Titles with markup or other first
  characters and heading lists that skip a level stay with the `toc` unit and the exploration.
-/
import Mistletoe.Model.Toc
import Mistletoe.Proofs.Html
import Mistletoe.Proofs.Outline
import Mistletoe.Proofs.TocPlain
namespace Mistletoe.Props.C19
open Mistletoe Mistletoe.Html Mistletoe.Toc Mistletoe.Escape

mutual
/-- All headings (ATX and setext) in document order, at any nesting depth. -/
def headings : Block → List (Nat × List Inline)
  | .heading l _ k _ => [(l, k)]
  | .setextHeading l _ k _ => [(l, k)]
  | .quote kids _ => headingsL kids
  | .list _ _ items _ => headingsL items
  | .listItem _ _ _ _ kids _ => headingsL kids
  | .table _ _ rows _ => headingsL rows
  | _ => []
def headingsL : List Block → List (Nat × List Inline)
  | [] => []
  | b :: bs => headings b ++ headingsL bs
end

mutual
theorem collect_eq (q : Quotes) (cfg : Cfg) : ∀ (b : Block),
    collect q cfg b = (headings b).flatMap (fun h => entry q cfg h.1 h.2)
  | .heading l _ k _ => by simp [collect, headings]
  | .setextHeading l _ k _ => by simp [collect, headings]
  | .quote kids _ => by simp only [collect, headings]; exact collectL_eq q cfg kids
  | .list _ _ items _ => by simp only [collect, headings]; exact collectL_eq q cfg items
  | .listItem _ _ _ _ kids _ => by simp only [collect, headings]; exact collectL_eq q cfg kids
  | .table _ _ rows _ => by simp only [collect, headings]; exact collectL_eq q cfg rows
  | .paragraph .. => rfl
  | .blockCode .. => rfl
  | .codeFence .. => rfl
  | .tableRow .. => rfl
  | .tableCell .. => rfl
  | .thematicBreak .. => rfl
  | .htmlBlock .. => rfl
  | .blankLine .. => rfl
  | .linkRefDefBlock .. => rfl
theorem collectL_eq (q : Quotes) (cfg : Cfg) : ∀ (bs : List Block),
    collectL q cfg bs = (headingsL bs).flatMap (fun h => entry q cfg h.1 h.2)
  | [] => rfl
  | b :: bs => by simp [collectL, headingsL, collect_eq q cfg b, collectL_eq q cfg bs]
end

/-- **Collection**: one entry per heading whose level is within the configured depth (level 1 left
    out when so configured, user filters applied), in document order, at any nesting depth. -/
theorem C19_collection (q : Quotes) (cfg : Cfg) (d : Doc) :
    collectL q cfg d.kids = (headingsL d.kids).flatMap (fun h => entry q cfg h.1 h.2)
    ∧ ∀ l k, entry q cfg l k = [] ∨ ∃ c, entry q cfg l k = [(l, c)]
        ∧ ¬ (cfg.omitTitle = true ∧ l = 1) ∧ l ≤ cfg.depth ∧ cfg.excluded c = false := by
  refine ⟨collectL_eq q cfg d.kids, ?_⟩
  intro l k
  unfold entry
  simp only
  split
  · exact Or.inl rfl
  · rename_i h
    refine Or.inr ⟨_, rfl, ?_⟩
    simp only [Bool.or_eq_true, Bool.and_eq_true, beq_iff_eq, decide_eq_true_eq, not_or] at h
    refine ⟨h.1.1, by omega, by simpa using h.2⟩

theorem foldl_min_le (hs : List (Nat × Str)) (m : Nat) :
    hs.foldl (fun m x => min m x.1) m ≤ m ∧ ∀ h ∈ hs, hs.foldl (fun m x => min m x.1) m ≤ h.1 := by
  induction hs generalizing m with
  | nil => simp
  | cons x xs ih =>
    simp only [List.foldl_cons, List.mem_cons]
    have := ih (min m x.1)
    refine ⟨by omega, ?_⟩
    intro h hh
    rcases hh with rfl | hh
    · omega
    · exact this.2 h hh

/-- **Indentation**: every list line is `4·(level − base)` spaces, `- `, the text, a newline, where
    `base` is the shallowest collected level - so the first line of an outline is not indented and
    a heading one level deeper than its predecessor is indented by exactly four more columns. -/
theorem C19_lines (hs : List (Nat × Str)) :
    tocLines hs = hs.map (fun h => List.replicate (4 * (h.1 - baseLevel hs)) ' ' ++ ['-', ' '] ++ h.2 ++ ['\n'])
    ∧ (∀ h ∈ hs, baseLevel hs ≤ h.1) := by
  refine ⟨rfl, ?_⟩
  intro h hh
  cases hs with
  | nil => cases hh
  | cons x xs =>
    simp only [baseLevel]
    rcases List.mem_cons.mp hh with rfl | hh
    · exact (foldl_min_le xs _).1
    · exact (foldl_min_le xs x.1).2 h hh

/-! ### Nesting: the list lines parse to a list nested exactly as the outline -/

open Mistletoe.Block in
/-- **Nesting**: let `hs` be the collected headings, an outline (`isOutline`: not empty, no heading shallower than
    the first, none more than one level deeper than its predecessor - `C19_outline_iff_levels`) with plain titles.
    Then the block phase on the lines `TocRenderer.toc` builds (`Toc.tocLines hs`, see `C19_lines`) returns exactly
    ONE `List`, not loose, whose items mirror the outline `toForest hs` (`expItems`): one item per heading of the
    shallowest level, in order, each holding one `Paragraph` with the heading's text followed - when headings one
    level deeper come next - by one nested `List` built the same way; line numbers are the headings' positions.
    For every token list with `List` before `Table` and `Paragraph` (`ListCfg`) and enough gas. -/
theorem C19_toc_nested (cfg : Block.Cfg) (tpre tpost : List BTok) (hc : ListCfg cfg tpre tpost) (hs : List (Nat × Str))
    (ho : isOutline hs = true) (ht : ∀ h ∈ hs, plainTitle h.2 = true)
    (gas : Nat) (hg : (cfg.types.length + 5) * hs.length + cfg.types.length + 4 ≤ gas) :
    blockPhase cfg gas (Toc.tocLines hs) =
      .ok ({ entries := [.list (expItems 0 1 (toForest hs)) 1 1], loose := false }, {}) :=
  Mistletoe.Block.C19_toc_nested cfg tpre tpost hc hs ho ht gas hg

open Mistletoe.Block in
/-- the forest the list mirrors is the outline of the headings: flattening it in pre-order with levels gives the
    heading list back, and `isOutline` is the elementary level condition -/
theorem C19_outline_iff_levels (hs : List (Nat × Str)) :
    (isOutline hs = outlineLevels hs) ∧
    (isOutline hs = true → ∃ lv, hs.head?.map (·.1) = some lv ∧ hs = flatten lv (toForest hs)) :=
  ⟨isOutline_eq_levels hs, fun h => (isOutline_sound hs h).2⟩

open Mistletoe.Block in
/-- **The hypothesis on the token list holds for the lists of the working tree** (regenerated from /repo): the HTML
    renderer's, the TocRenderer's inside its context and after leaving it (where `toc` is usually read), the defaults. -/
theorem C19_toc_config_current :
    (∃ cfg, Config.html = some cfg ∧
      ListCfg cfg.block [.htmlBlock, .blockCode, .heading, .quote, .codeFence, .thematicBreak] [.table, .footnote, .paragraph])
    ∧ (∃ cfg, Config.cfgOf Gen.RenderMaps.tocBlockTokens Gen.RenderMaps.tocSpanTokens = some cfg ∧
      ListCfg cfg.block [.htmlBlock, .blockCode, .heading, .quote, .codeFence, .thematicBreak] [.table, .footnote, .paragraph])
    ∧ (∃ cfg, Config.cfgOf Gen.RenderMaps.tocBlockTokensAfterExit Gen.RenderMaps.tocSpanTokensAfterExit = some cfg ∧
      ListCfg cfg.block [.blockCode, .heading, .quote, .codeFence, .thematicBreak] [.table, .footnote, .paragraph])
    ∧ (∃ cfg, Config.default = some cfg ∧
      ListCfg cfg.block [.blockCode, .heading, .quote, .codeFence, .thematicBreak] [.table, .footnote, .paragraph]) :=
  Mistletoe.Block.C19_config_current_list

/-! ### Plain text: the entry carries the heading's text -/

/-- **Plain text**: for a heading whose children are raw text `t` free of `<`, `>`, `&` (and of the quote characters the
    options escape), the tag-stripping regex of `parse_rendered_heading` removes exactly the heading's own tags: the entry
    text is `t` (Proofs/TocPlain.lean). -/
theorem C19_plain_text_entry (q : Quotes) (cfg : Cfg) (l : Nat) (t : Str) (ht : plainStr q t = true) :
    entry q cfg l [.rawText t] =
      if (cfg.omitTitle && l == 1) || decide (l > cfg.depth) || cfg.excluded t then [] else [(l, t)] :=
  C19_plain_text q cfg l t ht

/-- … and with emphasis, strong, strikethrough, inline code and escape sequences nested at will, the entry text is the
    concatenation of the leaf strings: the inline tags are stripped too.  (A link inside a heading is outside this: its
    `<a …>` tag is stripped only when its attributes contain no newline - the regex's `.` does not match one - which the
    model reproduces; recorded in DESIGN.md.) -/
theorem C19_plain_text_formatted (q : Quotes) (cfg : Cfg) (l : Nat) (k : List Inline) (hk : plainInlines k = true)
    (ht : plainStr q (leafTexts k) = true) : entry q cfg l k = entryWith cfg l (leafTexts k) :=
  C19_plain_text_inlines q cfg l k hk ht

end Mistletoe.Props.C19
