/-
  C09 (fragment with code blocks) — property theorems only; the proofs are in Proofs/MdRoundCode.lean.

  Extends the fragment of Props/C09.lean (`Blk`: inert prose paragraphs, ATX headings, thematic breaks) by fenced code
  blocks and indented code blocks in the renderer's normal form (`Blk2`): an opening fence of three or more backquotes
  or tildes at indentation 0 with any info string on the same line (not starting with the fence character; without
  backquote for a backquote fence), content lines that are complete lines, do not close the fence and are empty or not
  all whitespace, closed by the same fence string; an indented block of lines "    text" (no blank line inside, first
  non-blank character not `[`), no two indented blocks adjacent.  Excluded because the pinned renderer does NOT
  reproduce them (kernel-checked in Proofs/MdRoundCode.lean and reproduced on the real code): a whitespace-only content
  line (blanked by prefix_lines), a tilde info string starting with `~`, a content line that closes the fence.
-/
import Mistletoe.Proofs.MdRoundCode
namespace Mistletoe.Props.C09C
open Mistletoe Mistletoe.MdRound Mistletoe.MdRoundCode

/-- **Round trip of the fragment with code blocks, for the token lists of the working tree** (`Config.markdown`), inside
    `k ≥ 0` nested block quotes ("> " before every line; tab-free lines when quoted): `MarkdownRenderer(no line limit,
    either normalize_whitespace).render(Document(text))` is the text; rendering again reproduces it; the rendered text
    parses like the original under every configuration (same document, same definitions, same HTML). -/
theorem C09_code_blocks_roundtrip_partial (cfg : Document.Cfg) (hcfg : Config.markdown = some cfg)
    (it : Blk2) (rest : List Blk2) (hok : it.ok = true) (hrest : ∀ x ∈ rest, x.ok = true) (hadj : adjOk it rest = true)
    (hnt : ∀ l ∈ itemsLines2 it rest, '\t' ∉ l) (k : Nat)
    (o : Markdown.Opts) (ho : o.maxLineLength = none) (gas : Nat) :
    ∃ d, Document.parse cfg (gas + (2 * rest.length + 14) + k * 8) (qStrs k (itemsLines2 it rest)).flatten = .ok d ∧
      Markdown.render o d = (qStrs k (itemsLines2 it rest)).flatten ∧
      (∃ d', Document.parse cfg (gas + (2 * rest.length + 14) + k * 8) (Markdown.render o d) = .ok d' ∧
        Markdown.render o d' = Markdown.render o d) ∧
      (∀ (cfg' : Document.Cfg) (g : Nat),
        Document.parse cfg' g (Markdown.render o d) = Document.parse cfg' g (qStrs k (itemsLines2 it rest)).flatten) ∧
      (∀ (hopts : Html.Opts) (g : Nat),
        Config.renderHtml hopts g (Markdown.render o d) = Config.renderHtml hopts g (qStrs k (itemsLines2 it rest)).flatten) :=
  C09_quoted_code_blocks_roundtrip_markdown cfg hcfg it rest hok hrest hadj hnt k o ho gas

/-- at top level no hypothesis on tabs is needed (a tab inside a code line is reproduced) -/
theorem C09_code_blocks_top_level_partial (cfg : Document.Cfg) (hcfg : Config.markdown = some cfg)
    (it : Blk2) (rest : List Blk2) (hok : it.ok = true) (hrest : ∀ x ∈ rest, x.ok = true) (hadj : adjOk it rest = true)
    (o : Markdown.Opts) (ho : o.maxLineLength = none) (gas : Nat) :
    ∃ d, Document.parse cfg (gas + (2 * rest.length + 14)) (itemsLines2 it rest).flatten = .ok d ∧
      Markdown.render o d = (itemsLines2 it rest).flatten ∧
      (∃ d', Document.parse cfg (gas + (2 * rest.length + 14)) (Markdown.render o d) = .ok d' ∧
        Markdown.render o d' = Markdown.render o d) ∧
      (∀ (cfg' : Document.Cfg) (g : Nat),
        Document.parse cfg' g (Markdown.render o d) = Document.parse cfg' g (itemsLines2 it rest).flatten) ∧
      (∀ (hopts : Html.Opts) (g : Nat),
        Config.renderHtml hopts g (Markdown.render o d) = Config.renderHtml hopts g (itemsLines2 it rest).flatten) :=
  C09_code_blocks_roundtrip_markdown cfg hcfg it rest hok hrest hadj o ho gas

/-- non-vacuity: a fenced block with an info string, an empty content line and a line that looks like a heading -/
example : (Blk2.fence "```".toList "py".toList ["x = 1\n".toList, "\n".toList, "# not a heading\n".toList]).ok = true := by
  decide +kernel

end Mistletoe.Props.C09C
