/-
  C14 (continuation lines) — property theorems only; the proofs are in Proofs/InertCont.lean (which builds on Proofs/Inert.lean
  and Proofs/InertInline5.lean).

  `inertLine` (Props/C14.lean) asks of every line what is only needed of the FIRST line of a paragraph.  A later line only has
  to survive `Paragraph.read`: not blank, no `check_interrupts_paragraph` fires, not a setext underline - `inertCont`.  It may
  begin with `[` (a definition cannot interrupt a paragraph), be an ordered-list-looking line not numbered 1, a lone `*` / `+`,
  be indented four or more spaces, start an HTML block of condition 7.  The table condition stays (a delimiter row on a LATER
  line ends the paragraph before it: model and code agree).
-/
import Mistletoe.Proofs.InertCont
namespace Mistletoe.Props.C14C
open Mistletoe Mistletoe.Py Mistletoe.Scan Mistletoe.Block
open Mistletoe Mistletoe.Py Mistletoe.Scan Mistletoe.Block Mistletoe.Inline Mistletoe.InertInline Mistletoe.InertInline5
open Mistletoe.Html Mistletoe.Escape Mistletoe.InertCont
open Mistletoe.Props.C14

/-- the condition on continuation lines is weaker than `inertLine` -/
theorem C14_inertCont_weaker (l : Str) (h : inertLine l = true) : inertCont l = true :=
  Mistletoe.Props.C14.C14_inertCont_weaker l h

/-- **Block phase**: a first line that is `inertLine` and later lines that are `inertCont` form ONE paragraph entry, for every
    token list containing Paragraph. -/
theorem C14_block_phase_cont (cfg : Cfg) (hpar : .paragraph ∈ cfg.types) (l0 : Str) (tl : List Str)
    (h0 : inertLine l0 = true) (h : ∀ s ∈ tl, inertCont s = true) (gas : Nat) :
    blockPhase cfg (gas + (cfg.types.length + 4)) (l0 :: tl) =
      .ok ({ entries := [.paragraph (l0 :: tl) 1 1], loose := false }, {}) :=
  Mistletoe.Props.C14.C14_block_phase_cont cfg hpar l0 tl h0 h gas

/-- **End to end** with the widest inline condition (`inertBody5` of the joined stripped text): one paragraph of raw text and soft
    breaks, rendered `<p>` + escaped text + `</p>`, for every option set. -/
theorem C14_prose_text6 (cfg : Document.Cfg) (hpar : .paragraph ∈ cfg.block.types)
    (ht : ∀ t ∈ cfg.span, inertClass t = true) (hc : cfg.span.count .lineBreak = 1)
    (l0 : Str) (tl : List Str) (h1 : ∀ l ∈ l0 :: tl, oneLine l = true)
    (h0 : inertLine l0 = true) (hk : ∀ l ∈ tl, inertCont l = true)
    (hl : ∀ l ∈ l0 :: tl, proseLine l = true)
    (hi : inertBody5 (Document.joinNl ((l0 :: tl).map strip)) = true) (gas : Nat) :
    Document.parse cfg (gas + (cfg.block.types.length + 4)) (l0 :: tl).flatten =
        .ok { kids := [.paragraph (proseInlines ((l0 :: tl).map strip)) 1], footnotes := [] } ∧
    ∀ o : Opts, render o { kids := [.paragraph (proseInlines ((l0 :: tl).map strip)) 1], footnotes := [] } =
        "<p>".toList ++ escapeHtmlText o.dq o.sq (Document.joinNl ((l0 :: tl).map strip)) ++ "</p>\n".toList :=
  Mistletoe.Props.C14.C14_prose_text6 cfg hpar ht hc l0 tl h1 h0 hk hl hi gas

end Mistletoe.Props.C14C
