/-
  C03 (fragment with tables and indented code blocks) — property theorems only; the proofs are in Proofs/ComposeTable.lean
  (which builds on Proofs/ComposeCode.lean, hence this further file).

  The tree type `T4` keeps everything `T3` (Props/C03_Code.lean) has and adds
    * TABLES: header row, delimiter row with per-column alignment (`---`, `:--`, `:-:`, `--:`, any padding), body rows; outer
      pipes chosen per row; cells of inert one-line text; body rows shorter than the header (padded with empty cells) or longer
      (the excess cells are kept, with no alignment - a deviation from GFM recorded as an observation);
    * INDENTED CODE BLOCKS: lines indented by four or more spaces, interior blank lines kept;
  at top level, inside block quotes and inside list items (an indented code block not as the first block of an item), to any
  depth.  `T4.oks` is the decidable admissibility predicate; the delimiter row needs no scanner check (its shape is proved).
  Not covered: rows indented 1-3 spaces, cells with backslashes / escaped pipes / inline markup, a table directly after a
  paragraph, tabs.
  The proof of the indented-code case found two defects of the pinned code (a whitespace-only line of four spaces started a
  code block; trailing whitespace-only lines stayed in the block), repaired in /repo by 0b09465 and 2952153.
-/
import Mistletoe.Proofs.ComposeTable
namespace Mistletoe.Props.C03T
open Mistletoe Mistletoe.Block Mistletoe.Html Mistletoe.InertInline Mistletoe.ComposeT

/-- **The document written from a tree with tables and indented code blocks parses back to that tree** (`blocks4`: a `Table` token
    with `column_align`, the header `TableRow`, the body rows, `TableCell`s with their alignment and inline children; a
    `BlockCode` token with the content minus four columns), every token on the line the writer put it on; no definitions. -/
theorem C03_table_document_partial (cfg : Document.Cfg) (ti : Bool)
    (hb : cfg.block = { types := Props.C14.defaultTypes, tableInterrupt := ti })
    (ht : ∀ t ∈ cfg.span, inertClass t = true) (hc : cfg.span.count .lineBreak = 1)
    (ts : List T4) (h : T4.oks ts = true) (hne : ts ≠ []) (gas : Nat) (hg : needs4 ts ≤ gas) :
    Document.parseLines cfg gas (writes4 ts) = .ok { kids := blocks4 1 ts, footnotes := [] } ∧
    Document.parse cfg gas (writes4 ts).flatten = .ok { kids := blocks4 1 ts, footnotes := [] } :=
  Mistletoe.ComposeT.C03_table_document_partial cfg ti hb ht hc ts h hne gas hg

/-- **… and the HTML renderer gives, byte for byte, the HTML written directly from the tree** (`<table>`, `<thead>`, `<tbody>`,
    `align` attributes, escaped cell text; `<pre><code>` for code), for every option set, through the parse-and-render
    pipeline of the working tree's HTML configuration. -/
theorem C03_table_html_partial (o : Opts) (ts : List T4) (h : T4.oks ts = true) (hne : ts ≠ []) (gas : Nat) (hg : needs4 ts ≤ gas) :
    Config.renderHtml o gas (writes4 ts).flatten = some (htmlOf4 o ts) :=
  Mistletoe.ComposeT.C03_table_html_partial o ts h hne gas hg

end Mistletoe.Props.C03T
