/-
  C19 (end to end) — property theorems only; the proofs are in Proofs/TocEndToEnd.lean (which builds on Props/C19.lean,
  Proofs/Outline.lean and Proofs/TocPlain.lean, hence this second file).

  Props/C19.lean proves four separate pieces: the collected `_headings` are the qualifying headings in pre-order
  (`C19_collection`), the list lines (`C19_lines`), the nesting of the list parsed from them (`C19_toc_nested`) and the plain
  text of a heading (`C19_plain_text_*`).  Here they are COMPOSED into the property as stated, about a document and about a
  text: hypotheses (all decidable, evaluated on the parsed tree) - every heading of the document has children made of raw
  text, emphasis, strong, strikethrough, inline code and escapes whose text holds no `<`, `>`, `&` (`plainHeadings`); the
  qualifying headings form an outline (`isOutline`: none shallower than the first, none more than one level deeper than its
  predecessor) and their texts are plain-word titles (`titlesPlain`: a letter first, no newline).
  Not covered: the inline phase on each title of the toc list (`make_tokens`, kernel-evaluated on the sample only); headings
  with links, images or raw HTML; outlines that skip a level.
-/
import Mistletoe.Proofs.TocEndToEnd
namespace Mistletoe.Props.C19E
open Mistletoe Mistletoe.Html Mistletoe.Toc Mistletoe.Escape Mistletoe.Props.C19

/-- **After rendering, `_headings` is exactly the list of qualifying headings** - level within `depth`, level 1 left out under
    `omit_title`, not filtered - of the document, at any depth (block quotes, lists), in document order, each with its level
    and its plain text. -/
theorem C19_document_headings (q : Quotes) (cfg : Toc.Cfg) (d : Doc) (hp : plainHeadings q d = true) :
    collectL q cfg d.kids = expectedHs cfg d :=
  Mistletoe.Props.C19.C19_document_headings q cfg d hp

/-- what "qualifying" means, spelled out -/
theorem C19_expected_spelled_out (cfg : Toc.Cfg) (d : Doc) (l : Nat) (c : Str) : (l, c) ∈ expectedHs cfg d ↔
    ∃ k, (l, k) ∈ headingsL d.kids ∧ c = leafTexts k ∧
      ¬ (cfg.omitTitle = true ∧ l = 1) ∧ l ≤ cfg.depth ∧ cfg.excluded c = false :=
  Mistletoe.Props.C19.mem_expectedHs cfg d l c

open Mistletoe.Block in
/-- **From a text, under the TocRenderer's token lists of the working tree**: if `Document(text)` is `d` and the hypotheses
    hold, the pipeline text → document → `_headings` → list lines → `tokenize` (inside the `with` block or after it) returns
    ONE list, not loose, nested exactly as the outline of the qualifying headings: one item per qualifying heading, in
    document order, carrying its plain text, a nested list iff deeper headings follow. -/
theorem C19_text_toc_current (q : Quotes) (cfg : Toc.Cfg) (pcfg : Document.Cfg)
    (hpcfg : Config.cfgOf Gen.RenderMaps.tocBlockTokens Gen.RenderMaps.tocSpanTokens = some pcfg)
    (gasP : Nat) (t : Str) (d : Doc)
    (hparse : Document.parse pcfg gasP t = .ok d) (hp : plainHeadings q d = true)
    (ho : isOutline (expectedHs cfg d) = true) (ht : titlesPlain (expectedHs cfg d) = true) :
    collectL q cfg d.kids = expectedHs cfg d
    ∧ (∀ gasT, 15 * (expectedHs cfg d).length + 14 ≤ gasT →
        tocOfText q cfg pcfg pcfg.block gasP gasT t =
          .ok ({ entries := [.list (expItems 0 1 (toForest (expectedHs cfg d))) 1 1], loose := false }, {}))
    ∧ (∀ acfg, Config.cfgOf Gen.RenderMaps.tocBlockTokensAfterExit Gen.RenderMaps.tocSpanTokensAfterExit = some acfg →
        ∀ gasT, 14 * (expectedHs cfg d).length + 13 ≤ gasT →
        tocOfText q cfg pcfg acfg.block gasP gasT t =
          .ok ({ entries := [.list (expItems 0 1 (toForest (expectedHs cfg d))) 1 1], loose := false }, {})) :=
  Mistletoe.Props.C19.C19_text_toc_current q cfg pcfg hpcfg gasP t d hparse hp ho ht

end Mistletoe.Props.C19E
