/-
  C19 (the token tree `toc` returns) — property theorems only; the proofs are in Proofs/TocTokens.lean (which builds on
  Proofs/TocEndToEnd.lean and Proofs/InertInline5.lean).

  Props/C19_EndToEnd.lean stops at the parse buffer of the list lines `TocRenderer.toc` builds.  Here the last step - token
  constructors and the inline phase on every title - is carried along: the document of those lines has ONE child, the List token
  `expectedTocList` (not loose, no `start`; one ListItem per qualifying heading with leader `-`, indentation as the nesting says,
  holding `Paragraph [RawText title]` and - iff deeper headings follow - one nested List).  Extra hypothesis `titlesInert`: every
  qualifying title is inert inline text (`inertBody5`), has no blank at either end and no newline.  It is what excludes titles
  whose plain text is Markdown syntax again (`## a \*b\* c` comes back with emphasis: recorded observation).
-/
import Mistletoe.Proofs.TocTokens
namespace Mistletoe.Props.C19T
open Mistletoe Mistletoe.Py Mistletoe.Html Mistletoe.Escape Mistletoe.Block Mistletoe.Props.C19
open Mistletoe.Toc (collectL)

/-- **The table of contents as a token tree**: under the hypotheses of `C19_document_toc` and `titlesInert`, for every
    configuration with `List` before `Table` and `Paragraph` and covered span classes, the document of the toc lines has
    exactly one child: the List nested as the outline of the qualifying headings, each item a Paragraph of ONE RawText
    carrying the heading's plain text. -/
theorem C19_document_toc_tokens (q : Quotes) (tcfg : Toc.Cfg) (d : Doc) (hp : plainHeadings q d = true)
    (ho : isOutline (expectedHs tcfg d) = true) (ht : titlesPlain (expectedHs tcfg d) = true)
    (hi : titlesInert (expectedHs tcfg d) = true)
    (cfg : Document.Cfg) (tpre tpost : List BTok) (hc : ListCfg cfg.block tpre tpost)
    (hs : ∀ t ∈ cfg.span, InertInline.inertClass t = true)
    (gas : Nat) (hg : (cfg.block.types.length + 5) * (expectedHs tcfg d).length + cfg.block.types.length + 4 ≤ gas) :
    Document.parseLines cfg gas (Toc.tocLines (collectL q tcfg d.kids)) =
      .ok { kids := [expectedTocList (toForest (expectedHs tcfg d))], footnotes := [] } :=
  Mistletoe.Props.C19.C19_document_toc_tokens q tcfg d hp ho ht hi cfg tpre tpost hc hs gas hg

end Mistletoe.Props.C19T
