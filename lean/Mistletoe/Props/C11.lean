/-
  C11 — Results depend only on input and renderer, never on earlier library use.

  The state machine of Model/State.lean is run over arbitrary histories.  Proved, with no bound on
  the length of the history, the programs of the parses in it, or the points at which exceptions
  are raised:
    * after a renderer's context exits the active token sets are exactly the defaults;
    * every `with R(...)` block over a bundled renderer, started in a clean state, ends in a clean
      state - whatever was parsed inside and wherever a parse raised;
    * hence every history of such blocks ends clean (induction over the history);
    * what a parse computes through the one global that carries data (the code-span matches) does
      not depend on the state it starts in.
  The constructor effects are regenerated from the code on every run (Gen/Constructors.lean).
-/
import Mistletoe.Model.State
namespace Mistletoe.Props.C11
open Mistletoe Mistletoe.State Mistletoe.Gen.Constructors

/-- The scratch fields a parse must leave as it found them. -/
def ScratchOk (g : Globals) : Prop := g.parseSetext = true ∧ g.charrefStd = true

mutual
theorem exec_inv : ∀ (p : Prog) (g : Globals),
    (exec p g).1.blockTypes = g.blockTypes ∧ (exec p g).1.spanTypes = g.spanTypes ∧
    (g.charrefStd = true → (exec p g).1.charrefStd = true) ∧
    (g.parseSetext = true → (exec p g).1.parseSetext = true)
  | .raise, g => by simp [exec]
  | .quote inner, g => by
    have ih := execList_inv inner { g with parseSetext := false }
    simp only [exec]
    exact ⟨ih.1, ih.2.1, fun h => ih.2.2.1 h, fun _ => trivial⟩
  | .inline n ra, g => by
    simp only [exec]
    cases ra with
    | none => simp
    | some r => cases r <;> simp
theorem execList_inv : ∀ (ps : List Prog) (g : Globals),
    (execList ps g).1.blockTypes = g.blockTypes ∧ (execList ps g).1.spanTypes = g.spanTypes ∧
    (g.charrefStd = true → (execList ps g).1.charrefStd = true) ∧
    (g.parseSetext = true → (execList ps g).1.parseSetext = true)
  | [], g => by simp [execList]
  | p :: ps, g => by
    have h1 := exec_inv p g
    have h2 := execList_inv ps (exec p g).1
    simp only [execList]
    split
    · exact h1
    · exact ⟨h2.1.trans h1.1, h2.2.1.trans h1.2.1, fun h => h2.2.2.1 (h1.2.2.1 h), fun h => h2.2.2.2 (h1.2.2.2 h)⟩
end

/-- **A parse restores the scratch state, exception or not.** -/
theorem C11_parse_restores (p : List Prog) (g : Globals) (h : ScratchOk g) :
    ScratchOk (document p g).1 ∧ (document p g).1.blockTypes = g.blockTypes
      ∧ (document p g).1.spanTypes = g.spanTypes := by
  have ih := execList_inv p { g with rootSet := true }
  unfold document
  simp only
  split <;> exact ⟨⟨ih.2.2.2 h.1, ih.2.2.1 h.2⟩, ih.1, ih.2.1⟩

mutual
theorem exec_out : ∀ (p : Prog) (g g' : Globals),
    (exec p g).2 = (exec p g').2
  | .raise, _, _ => rfl
  | .quote inner, g, g' => by
    simp only [exec]
    exact execList_out inner _ _
  | .inline n ra, g, g' => by
    simp only [exec]
    cases ra with
    | none => rfl
    | some r => cases r <;> rfl
theorem execList_out : ∀ (ps : List Prog) (g g' : Globals),
    (execList ps g).2 = (execList ps g').2
  | [], _, _ => rfl
  | p :: ps, g, g' => by
    have h1 := exec_out p g g'
    have h2 := execList_out ps (exec p g).1 (exec p g').1
    simp only [execList]
    rw [show (exec p g).2.1 = (exec p g').2.1 from congrArg Prod.fst h1,
        show (exec p g).2.2 = (exec p g').2.2 from congrArg Prod.snd h1]
    split
    · rfl
    · rw [show (execList ps (exec p g).1).2.1 = (execList ps (exec p g').1).2.1 from congrArg Prod.fst h2,
          show (execList ps (exec p g).1).2.2 = (execList ps (exec p g').1).2.2 from congrArg Prod.snd h2]
end

/-- **No data leaks through the globals**: whether a parse raises and which code-span matches each
    inline scan hands over do not depend on the state the parse starts in (in particular not on
    matches a previous, aborted parse left behind). -/
theorem C11_output_function_of_input (p : List Prog) (g g' : Globals) :
    (document p g).2 = (document p g').2 := by
  unfold document
  have := execList_out p { g with rootSet := true } { g' with rootSet := true }
  simp only
  rw [show (execList p { g with rootSet := true }).2.1 = (execList p { g' with rootSet := true }).2.1 from congrArg Prod.fst this,
      show (execList p { g with rootSet := true }).2.2 = (execList p { g' with rootSet := true }).2.2 from congrArg Prod.snd this]

/-- **After a renderer's context exits, the active token sets are exactly the defaults.** -/
theorem C11_exit_defaults (g : Globals) :
    (exitRenderer g).blockTypes = Gen.RenderMaps.defaultBlockTokens ∧
    (exitRenderer g).spanTypes = Gen.RenderMaps.defaultSpanTokens ∧
    (exitRenderer g).parseSetext = g.parseSetext ∧ (exitRenderer g).charrefStd = g.charrefStd :=
  ⟨rfl, rfl, rfl, rfl⟩

theorem applyTokOp_scratch (g g' : Globals) (op : TokOp) (h : applyTokOp g op = some g') :
    g'.parseSetext = g.parseSetext ∧ g'.charrefStd = g.charrefStd := by
  cases op with
  | add blk cls pos => cases blk <;> simp [applyTokOp] at h <;> subst h <;> exact ⟨rfl, rfl⟩
  | remove blk cls =>
    cases blk <;> simp only [applyTokOp, Option.map_eq_some_iff] at h <;> obtain ⟨l, _, rfl⟩ := h <;> exact ⟨rfl, rfl⟩

theorem applyTokOps_scratch : ∀ (ops : List TokOp) (g : Globals),
    (applyTokOps ops g).1.parseSetext = g.parseSetext ∧ (applyTokOps ops g).1.charrefStd = g.charrefStd
  | [], g => ⟨rfl, rfl⟩
  | op :: ops, g => by
    simp only [applyTokOps]
    split
    · rename_i g' h
      have h1 := applyTokOp_scratch g g' op h
      have h2 := applyTokOps_scratch ops g'
      exact ⟨h2.1.trans h1.1, h2.2.trans h1.2⟩
    · exact ⟨rfl, rfl⟩

theorem runBody_scratch : ∀ (ops : List Op) (g : Globals), ScratchOk g → ScratchOk (runBody ops g).1
  | [], g, h => h
  | .parse p :: ops, g, h => by
    simp only [runBody]
    have := (C11_parse_restores p g h).1
    split
    · exact this
    · exact runBody_scratch ops _ this
  | .addToken blk cls pos :: ops, g, h => by
    simp only [runBody]
    split
    · rename_i g' hg
      have := applyTokOp_scratch g g' _ hg
      exact runBody_scratch ops g' ⟨this.1.trans h.1, this.2.trans h.2⟩
    · exact h

/-- Same token lists ⇒ a constructor behaves the same (it reads nothing else). -/
theorem applyTokOps_lists : ∀ (ops : List TokOp) (g g' : Globals),
    g.blockTypes = g'.blockTypes → g.spanTypes = g'.spanTypes →
    (applyTokOps ops g).2 = (applyTokOps ops g').2
  | [], _, _, _, _ => rfl
  | op :: ops, g, g', hb, hs => by
    simp only [applyTokOps]
    cases op with
    | add blk cls pos =>
      cases blk <;> simp only [applyTokOp] <;> apply applyTokOps_lists <;> simp [hb, hs]
    | remove blk cls =>
      cases blk
      · simp only [applyTokOp, ← hs]
        cases hr : removeFirst g.spanTypes cls with
        | none => rfl
        | some l => simp only [Option.map_some]; apply applyTokOps_lists <;> simp [hb]
      · simp only [applyTokOp, ← hb]
        cases hr : removeFirst g.blockTypes cls with
        | none => rfl
        | some l => simp only [Option.map_some]; apply applyTokOps_lists <;> simp [hs]

/-- The constructors of the bundled renderers (regenerated from the code). -/
def bundled : List (List TokOp) := [html, toc, githubWiki, mathjax, pygments, htmlNoHtml, latex, markdown, ast, jira, xwiki]

/-- From the default token lists no bundled constructor raises. -/
theorem bundled_ok : ∀ c ∈ bundled, (applyTokOps c defaults).2 = false := by decide +kernel

/-- **A with-block restores everything**: started clean, a block over any bundled renderer ends
    clean, whatever is parsed inside, whichever custom tokens are added, wherever a parse raises. -/
theorem C11_with_block_restores (ctor : List TokOp) (hc : ctor ∈ bundled) (body : List Op) (g : Globals)
    (h : Clean g) : Clean (withBlock ctor body g) := by
  unfold withBlock
  have hno : (applyTokOps ctor g).2 = false := by
    rw [applyTokOps_lists ctor g defaults h.1 h.2.1]
    exact bundled_ok ctor hc
  simp only [hno, Bool.false_eq_true, if_false]
  have hs := applyTokOps_scratch ctor g
  have hb := runBody_scratch body (applyTokOps ctor g).1 ⟨hs.1.trans h.2.2.1, hs.2.trans h.2.2.2⟩
  exact ⟨rfl, rfl, hb.1, hb.2⟩

/-- **History independence of the state**: after any sequence of with-blocks over bundled
    renderers the state is clean, so the next use starts as in a fresh interpreter. -/
theorem C11_history_clean : ∀ (hist : List (List TokOp × List Op)), (∀ b ∈ hist, b.1 ∈ bundled) →
    ∀ (g : Globals), Clean g → Clean (runHistory hist g)
  | [], _, g, h => h
  | (ctor, body) :: rest, hb, g, h => by
    simp only [runHistory]
    exact C11_history_clean rest (fun b hbm => hb b (List.mem_cons_of_mem _ hbm)) _
      (C11_with_block_restores ctor (hb (ctor, body) (List.mem_cons_self ..)) body g h)

theorem defaults_clean : Clean defaults := ⟨rfl, rfl, rfl, rfl⟩

/-- Custom tokens are recognised only inside the renderer's context (C16's last clause): after the
    block no custom class is in either list. -/
theorem C11_custom_tokens_only_in_context (ctor : List TokOp) (hc : ctor ∈ bundled) (body : List Op) (cls : String)
    (hn : cls ∉ Gen.RenderMaps.defaultBlockTokens ∧ cls ∉ Gen.RenderMaps.defaultSpanTokens) :
    cls ∉ (withBlock ctor body defaults).blockTypes ∧ cls ∉ (withBlock ctor body defaults).spanTypes := by
  have := C11_with_block_restores ctor hc body defaults defaults_clean
  rw [this.1, this.2.1]
  exact hn

/-! Non-vacuity: a history with a parse that raises between the core scan and the code-span
    hand-over inside a block quote, with a custom span token added. -/
example : Clean (runHistory
    [(markdown, [.addToken false "RaisingSpan" 5, .parse [.quote [.inline 1 (some .betweenScanAndDrain)]]]),
     (html, [.parse [.inline 0 none]])] defaults) := by
  unfold Clean; decide

example : (document [.quote [.inline 1 (some .betweenScanAndDrain)]] defaults).1.codeMatches = 1 := by decide

end Mistletoe.Props.C11
