/-
  C01 (block phase) — for every text input, parsing never raises and always terminates.

  The block phase of `Document(lines)` is `Block.blockPhase cfg gas lines` (`Model/Block.lean`, tied
  to `tokenize_block` and every `start`/`read`/`check_interrupts_paragraph` by the `block.buffer` and
  `scan.*` correspondence units).  Every Python raise site of that code is an `.err` constructor of
  the model (`.index`, `.type`, `.stopIteration`, `.unbound`, …); the only other error is `.fuel`:
  the structural recursion counter `gas` (or the fuel of an inner loop) ran out.  The theorems say

  * no raise site is reachable (`C01_block_no_raise`),
  * the fuel every reader passes to its inner loop suffices, and an explicit amount of outer gas,
    `gasBound`, suffices: the block phase returns (`C01_block_terminates`),
  * more gas never changes a result (`C01_block_gas_mono`), so beyond `gasBound` the gas is
    irrelevant (`C01_block_gas_irrelevant`).

  The lines are assumed complete (`NlEnd`: each ends with its only '\n'); `C13.normalize_str_nlEnd`
  proves that `Document(str)` always produces such lines (`C01_block_document`).
-/
import Mistletoe.Proofs.BlockTotal
import Mistletoe.Props.C13
namespace Mistletoe.Props.C01
open Mistletoe Mistletoe.Py Mistletoe.Scan Mistletoe.Block Mistletoe.Lines

/-- **The block phase never raises.**  For every token set and flag setting, every amount of gas
    and every list of complete lines: if the block-phase model reports an error at all, that
    error is `.fuel` (the recursion counter ran out) — never one of the modelled Python exceptions
    (IndexError, TypeError, StopIteration, UnboundLocalError, …). -/
theorem C01_block_no_raise (cfg : Cfg) (gas : Nat) (lines : List Str) (e : Err)
    (hl : ∀ s ∈ lines, NlEnd s) (h : blockPhase cfg gas lines = .err e) : e = .fuel :=
  blockPhase_no_raise cfg gas lines e hl h

/-- the same for `tokenize_block` on any buffer of complete lines, at any nesting depth -/
theorem C01_tokenize_block_no_raise (cfg : Cfg) (gas : Nat) (lines : List Line) (start : Nat) (st : St) (e : Err)
    (hl : AllNlEnd lines) (h : tokenizeBlock cfg gas lines start st = .err e) : e = .fuel :=
  tokenizeBlock_no_raise cfg gas lines start st e hl h

/-- **The block phase terminates and returns.**  With at least `gasBound cfg (docLines lines)` gas
    — `(W + 1) * (2 * W + number of token types + 4)` where `W` is the number of characters of the
    document, a tab counting 4 — the block phase of any list of complete lines returns a parse
    buffer: no exception, no exhausted fuel in any inner loop, no exhausted gas.  (Nesting is
    bounded because `Quote.read` / `ListItem.read` hand strictly less weight to the nested
    `tokenize_block`; every loop round of every reader consumes a line.) -/
theorem C01_block_terminates (cfg : Cfg) (gas : Nat) (lines : List Str) (hl : ∀ s ∈ lines, NlEnd s)
    (hg : gasBound cfg (docLines lines) ≤ gas) : ∃ r, blockPhase cfg gas lines = .ok r :=
  blockPhase_total cfg gas lines hl hg

/-- the same for `tokenize_block` on any buffer of complete lines -/
theorem C01_tokenize_block_terminates (cfg : Cfg) (gas : Nat) (lines : List Line) (start : Nat) (st : St)
    (hl : AllNlEnd lines) (hg : gasBound cfg lines ≤ gas) : ∃ r, tokenizeBlock cfg gas lines start st = .ok r :=
  tokenizeBlock_total cfg gas lines start st hg hl

/-- the closed form of the bound: `W` is the sum over the lines of their length, tabs counting 4 -/
theorem C01_gasBound_closed_form (cfg : Cfg) (lines : List Str) :
    gasBound cfg (docLines lines) =
      ((lines.map sw).sum + 1) * (2 * (lines.map sw).sum + cfg.types.length + 4) := by
  unfold gasBound gasK; rw [lw_docLines]

/-- **More gas never changes the result**: a buffer returned with gas `g` is returned with every
    `g' ≥ g`. -/
theorem C01_block_gas_mono (cfg : Cfg) (lines : List Str) (r : Buf × St) (g g' : Nat) (hle : g ≤ g')
    (h : blockPhase cfg g lines = .ok r) : blockPhase cfg g' lines = .ok r :=
  blockPhase_gas_mono cfg lines r g g' hle h

/-- hence the gas is irrelevant from `gasBound` on: the model has one well-defined result -/
theorem C01_block_gas_irrelevant (cfg : Cfg) (gas : Nat) (lines : List Str) (hl : ∀ s ∈ lines, NlEnd s)
    (hg : gasBound cfg (docLines lines) ≤ gas) :
    blockPhase cfg gas lines = blockPhase cfg (gasBound cfg (docLines lines)) lines :=
  blockPhase_gas_irrelevant cfg gas lines hl hg

/-- **For a document given as one string** (`Document(text)`): the block phase returns, whatever
    the text. -/
theorem C01_block_document (cfg : Cfg) (t : Str) :
    ∃ r, blockPhase cfg (gasBound cfg (docLines (normalize (.str t)))) (normalize (.str t)) = .ok r :=
  C01_block_terminates cfg _ _ (C13.normalize_str_nlEnd t) (Nat.le_refl _)

/-! ### Non-vacuity -/

def sampleCfg : Cfg := { types := [.htmlBlock, .blockCode, .heading, .quote, .codeFence, .thematicBreak, .list, .table, .footnote, .paragraph, .blankLine], tableInterrupt := false }

/-- a quote containing a list containing a paragraph and a fenced block; a link reference
    definition; an indented code block whose indentation is a tab -/
def sampleDoc : List Str := ["> - a\n", ">   ```\n", ">   x\n", ">   ```\n", "[r]: /u\n", "\tcode\n"].map String.toList

example : ∀ s ∈ sampleDoc, NlEnd s := by
  intro s hs
  apply C13.nlEnd_of_check
  revert s
  decide

/-- the bound, computed -/
example : gasBound sampleCfg (docLines sampleDoc) = 4830 := by decide +kernel

/-- the shape of the result: quote [ list [ item [ paragraph, codeFence ] ] ], footnote, blockCode -/
def shapeOk : Res (Buf × St) → Bool
  | .ok (⟨[.quote [.list [.mk [.paragraph _ _ _, .codeFence _ _ _ _ _ _ _] _ _ _ _ _ _] _ _] _ _ _,
           .footnote _ _ _, .blockCode _ _ _], _⟩, _) => true
  | _ => false

/-- `C01_block_terminates` on the sample: with `gasBound` gas the block phase returns the nested buffer -/
example : shapeOk (blockPhase sampleCfg (gasBound sampleCfg (docLines sampleDoc)) sampleDoc) = true := by decide +kernel

/-- `C01_block_no_raise` is not vacuous: with too little gas the model does report an error, and
    it is `.fuel` -/
example : blockPhase sampleCfg 27 sampleDoc = .err .fuel := by
  cases h : blockPhase sampleCfg 27 sampleDoc with
  | err e =>
    rw [C01_block_no_raise sampleCfg 27 sampleDoc e (by
      intro s hs; apply C13.nlEnd_of_check; revert s; decide) h]
  | ok r =>
    exfalso
    have : (blockPhase sampleCfg 27 sampleDoc).isOk = false := by decide +kernel
    rw [h] at this; cases this

/-- `C01_block_gas_mono` on the sample: 28 units of gas already give the result; so does any more -/
example : shapeOk (blockPhase sampleCfg 28 sampleDoc) = true := by decide +kernel

example (g : Nat) (hg : 28 ≤ g) : shapeOk (blockPhase sampleCfg g sampleDoc) = true := by
  cases h : blockPhase sampleCfg 28 sampleDoc with
  | err e =>
    have : shapeOk (blockPhase sampleCfg 28 sampleDoc) = true := by decide +kernel
    rw [h] at this; cases this
  | ok r =>
    rw [C01_block_gas_mono sampleCfg sampleDoc r 28 g hg h]
    have : shapeOk (blockPhase sampleCfg 28 sampleDoc) = true := by decide +kernel
    rw [h] at this; exact this

/-- `C01_block_document` on a concrete string -/
example : ∃ r, blockPhase sampleCfg (gasBound sampleCfg (docLines (normalize (.str "> - a\n>   b".toList))))
    (normalize (.str "> - a\n>   b".toList)) = .ok r := C01_block_document sampleCfg _

end Mistletoe.Props.C01
