/-
  C01 (block phase) — for every text input, parsing never raises and always terminates.

  The block phase of `Document(lines)` is `Block.blockPhase cfg gas lines` (`Model/Block.lean`, tied
  to `tokenize_block` and every `start`/`read`/`check_interrupts_paragraph` by the `block.buffer` and
  `scan.*` correspondence units).  Every Python raise site of that code is an `.err` constructor of
  the model (`.index`, `.type`, `.stopIteration`, `.unbound`, …); the only other error is `.fuel`:
  the structural recursion counter `gas` (or the fuel of an inner loop) ran out.  The theorems say

  * no raise site is reachable (`C01_block_no_raise`),
  * the fuel every reader passes to its inner loop suffices, and an explicit amount of outer gas,
    `gasBound`, suffices: the block phase returns (`C01_block_terminates`),
  * more gas never changes a result (`C01_block_gas_mono`), so beyond `gasBound` the gas is
    irrelevant (`C01_block_gas_irrelevant`).

  The lines are assumed complete (`NlEnd`: each ends with its only '\n'); `C13.normalize_str_nlEnd`
  proves that `Document(str)` always produces such lines (`C01_block_document`).
-/
import Mistletoe.Proofs.BlockTotal
import Mistletoe.Proofs.DocTotal
import Mistletoe.Props.C06
import Mistletoe.Model.Config
import Mistletoe.Props.C13
namespace Mistletoe.Props.C01
open Mistletoe Mistletoe.Py Mistletoe.Scan Mistletoe.Block Mistletoe.Lines

/-- **The block phase never raises.**  For every token set and flag setting, every amount of gas
    and every list of complete lines: if the block-phase model reports an error at all, that
    error is `.fuel` (the recursion counter ran out) — never one of the modelled Python exceptions
    (IndexError, TypeError, StopIteration, UnboundLocalError, …). -/
theorem C01_block_no_raise (cfg : Cfg) (gas : Nat) (lines : List Str) (e : Err)
    (hl : ∀ s ∈ lines, NlEnd s) (h : blockPhase cfg gas lines = .err e) : e = .fuel :=
  blockPhase_no_raise cfg gas lines e hl h

/-- the same for `tokenize_block` on any buffer of complete lines, at any nesting depth -/
theorem C01_tokenize_block_no_raise (cfg : Cfg) (gas : Nat) (lines : List Line) (start : Nat) (st : St) (e : Err)
    (hl : AllNlEnd lines) (h : tokenizeBlock cfg gas lines start st = .err e) : e = .fuel :=
  tokenizeBlock_no_raise cfg gas lines start st e hl h

/-- **The block phase terminates and returns.**  With at least `gasBound cfg (docBuf lines)` gas
    — `(W + 1) * (2 * W + number of token types + 4)` where `W` is the number of characters of the
    document, a tab counting 4 — the block phase of any list of complete lines returns a parse
    buffer: no exception, no exhausted fuel in any inner loop, no exhausted gas.  (Nesting is
    bounded because `Quote.read` / `ListItem.read` hand strictly less weight to the nested
    `tokenize_block`; every loop round of every reader consumes a line.) -/
theorem C01_block_terminates (cfg : Cfg) (gas : Nat) (lines : List Str) (hl : ∀ s ∈ lines, NlEnd s)
    (hg : gasBound cfg (docBuf lines) ≤ gas) : ∃ r, blockPhase cfg gas lines = .ok r :=
  blockPhase_total cfg gas lines hl hg

/-- the same for `tokenize_block` on any buffer of complete lines -/
theorem C01_tokenize_block_terminates (cfg : Cfg) (gas : Nat) (lines : List Line) (start : Nat) (st : St)
    (hl : AllNlEnd lines) (hg : gasBound cfg lines ≤ gas) : ∃ r, tokenizeBlock cfg gas lines start st = .ok r :=
  tokenizeBlock_total cfg gas lines start st hg hl

/-- the closed form of the bound: `W` is the sum over the lines of their length, tabs counting 4 -/
theorem C01_gasBound_closed_form (cfg : Cfg) (lines : List Str) :
    gasBound cfg (docBuf lines) =
      ((lines.map sw).sum + 1) * (2 * (lines.map sw).sum + cfg.types.length + 4) := by
  unfold gasBound gasK; rw [lw_docBuf]

/-- **More gas never changes the result**: a buffer returned with gas `g` is returned with every
    `g' ≥ g`. -/
theorem C01_block_gas_mono (cfg : Cfg) (lines : List Str) (r : Buf × St) (g g' : Nat) (hle : g ≤ g')
    (h : blockPhase cfg g lines = .ok r) : blockPhase cfg g' lines = .ok r :=
  blockPhase_gas_mono cfg lines r g g' hle h

/-- hence the gas is irrelevant from `gasBound` on: the model has one well-defined result -/
theorem C01_block_gas_irrelevant (cfg : Cfg) (gas : Nat) (lines : List Str) (hl : ∀ s ∈ lines, NlEnd s)
    (hg : gasBound cfg (docBuf lines) ≤ gas) :
    blockPhase cfg gas lines = blockPhase cfg (gasBound cfg (docBuf lines)) lines :=
  blockPhase_gas_irrelevant cfg gas lines hl hg

/-- **For a document given as one string** (`Document(text)`): the block phase returns, whatever
    the text. -/
theorem C01_block_document (cfg : Cfg) (t : Str) :
    ∃ r, blockPhase cfg (gasBound cfg (docBuf (normalize (.str t)))) (normalize (.str t)) = .ok r :=
  C01_block_terminates cfg _ _ (C13.normalize_str_nlEnd t) (Nat.le_refl _)

/-! ### Non-vacuity -/

def sampleCfg : Cfg := { types := [.htmlBlock, .blockCode, .heading, .quote, .codeFence, .thematicBreak, .list, .table, .footnote, .paragraph, .blankLine], tableInterrupt := false }

/-- a quote containing a list containing a paragraph and a fenced block; a link reference
    definition; an indented code block whose indentation is a tab -/
def sampleDoc : List Str := ["> - a\n", ">   ```\n", ">   x\n", ">   ```\n", "[r]: /u\n", "\tcode\n"].map String.toList

example : ∀ s ∈ sampleDoc, NlEnd s := by
  intro s hs
  apply C13.nlEnd_of_check
  revert s
  decide

/-- the bound, computed -/
example : gasBound sampleCfg (docBuf sampleDoc) = 4830 := by decide +kernel

/-- the shape of the result: quote [ list [ item [ paragraph, codeFence ] ] ], footnote, blockCode -/
def shapeOk : Res (Buf × St) → Bool
  | .ok (⟨[.quote [.list [.mk [.paragraph _ _ _, .codeFence _ _ _ _ _ _ _] _ _ _ _ _ _] _ _] _ _ _,
           .footnote _ _ _, .blockCode _ _ _], _⟩, _) => true
  | _ => false

/-- `C01_block_terminates` on the sample: with `gasBound` gas the block phase returns the nested buffer -/
example : shapeOk (blockPhase sampleCfg (gasBound sampleCfg (docBuf sampleDoc)) sampleDoc) = true := by decide +kernel

/-- `C01_block_no_raise` is not vacuous: with too little gas the model does report an error, and
    it is `.fuel` -/
example : blockPhase sampleCfg 27 sampleDoc = .err .fuel := by
  cases h : blockPhase sampleCfg 27 sampleDoc with
  | err e =>
    rw [C01_block_no_raise sampleCfg 27 sampleDoc e (by
      intro s hs; apply C13.nlEnd_of_check; revert s; decide) h]
  | ok r =>
    exfalso
    have : (blockPhase sampleCfg 27 sampleDoc).isOk = false := by decide +kernel
    rw [h] at this; cases this

/-- `C01_block_gas_mono` on the sample: 28 units of gas already give the result; so does any more -/
example : shapeOk (blockPhase sampleCfg 28 sampleDoc) = true := by decide +kernel

example (g : Nat) (hg : 28 ≤ g) : shapeOk (blockPhase sampleCfg g sampleDoc) = true := by
  cases h : blockPhase sampleCfg 28 sampleDoc with
  | err e =>
    have : shapeOk (blockPhase sampleCfg 28 sampleDoc) = true := by decide +kernel
    rw [h] at this; cases this
  | ok r =>
    rw [C01_block_gas_mono sampleCfg sampleDoc r 28 g hg h]
    have : shapeOk (blockPhase sampleCfg 28 sampleDoc) = true := by decide +kernel
    rw [h] at this; exact this

/-- `C01_block_document` on a concrete string -/
example : ∃ r, blockPhase sampleCfg (gasBound sampleCfg (docBuf (normalize (.str "> - a\n>   b".toList))))
    (normalize (.str "> - a\n>   b".toList)) = .ok r := C01_block_document sampleCfg _

/-! ## The block token constructors (`Document(lines)`)

  `Document.parseLines cfg gas lines` is the block phase followed by `make_tokens`: the constructors of
  block_token.py (`Model/Document.lean`), which index into the buffers the readers returned
  (`List.__init__`: `self.children[0].leader`; `Table.__init__`: `lines[1]`, `parse_align(column)`;
  `SetextHeading.__init__`: `lines.pop()`) and start the inline phase on each leaf. -/

/-- **Every parse buffer is well-formed, at every depth** (`Block.EntryWF`): a heading has level
    1..6; a list has at least one item and every item's leader is a bullet or 1–9 digits and a
    delimiter (so `int(leader[:-1])` is defined); a table buffer has at least two lines, the second
    matching `delimiter_row_pattern` and containing '-'; a setext buffer has at least two lines;
    a paragraph at least one; a Footnote entry at least one definition. -/
theorem C01_block_buffer_wf (cfg : Cfg) (gas : Nat) (lines : List Str) (b : Buf) (st : St)
    (hl : ∀ s ∈ lines, NlEnd s) (h : blockPhase cfg gas lines = .ok (b, st)) : EntriesWF b.entries :=
  blockPhase_wf cfg gas lines b st hl h

/-- for C12: every heading entry at any depth has a level in 1..6 -/
theorem C01_heading_level_range (cfg : Cfg) (gas : Nat) (lines : List Str) (b : Buf) (st : St)
    (hl : ∀ s ∈ lines, NlEnd s) (h : blockPhase cfg gas lines = .ok (b, st))
    (lvl : Nat) (c cl : Str) (ln og : Nat) (hm : Entry.heading lvl c cl ln og ∈ subEntriesL b.entries) : 1 ≤ lvl ∧ lvl ≤ 6 :=
  blockPhase_heading_level cfg gas lines b st hl h lvl c cl ln og hm

/-- for C12: every list entry at any depth has at least one item (and well-formed items) -/
theorem C01_list_nonempty (cfg : Cfg) (gas : Nat) (lines : List Str) (b : Buf) (st : St)
    (hl : ∀ s ∈ lines, NlEnd s) (h : blockPhase cfg gas lines = .ok (b, st))
    (items : List Item) (ln og : Nat) (hm : Entry.list items ln og ∈ subEntriesL b.entries) : 1 ≤ items.length ∧ ItemsWF items :=
  blockPhase_list_nonempty cfg gas lines b st hl h items ln og hm

/-- `Table.parse_align` is never handed an empty column: every column `column_align_pattern.findall`
    returns is non-empty (for every row, delimiter row or not) -/
theorem C01_table_columns_nonempty (row : Str) : ∀ c ∈ findAligns row, c ≠ [] := findAligns_ne row

/-- **`Document(lines)` never raises.**  Hypothesis `hinl`: the inline phase returns on every
    string under the configured span tokens and every definitions table
    (`∀ fn s, ∃ ks, tokenizeInner cfg.span fn s = .ok ks`; discharged by the inline totality proof).
    Then for every gas and every list of complete lines, the only error `parseLines` can report is
    `.fuel`: no `IndexError` in `List.__init__`, `Table.__init__`, `Table.parse_align`,
    `SetextHeading.__init__`, no `ValueError` in `int(leader[:-1])`, and none of the block-phase errors. -/
theorem C01_document_no_raise (cfg : Document.Cfg) (gas : Nat) (lines : List Str) (hl : ∀ s ∈ lines, NlEnd s)
    (hinl : ∀ fn s, ∃ ks, Inline.tokenizeInner cfg.span fn s = .ok ks) (e : Err)
    (h : Document.parseLines cfg gas lines = .err e) : e = .fuel :=
  Document.parseLines_no_raise cfg gas lines hl hinl e h

/-- **`Document(lines)` terminates and returns** with `gasBound` gas (same hypothesis `hinl` on the
    inline phase as `C01_document_no_raise`). -/
theorem C01_document_terminates (cfg : Document.Cfg) (gas : Nat) (lines : List Str) (hl : ∀ s ∈ lines, NlEnd s)
    (hinl : ∀ fn s, ∃ ks, Inline.tokenizeInner cfg.span fn s = .ok ks)
    (hg : gasBound cfg.block (docBuf lines) ≤ gas) : ∃ d, Document.parseLines cfg gas lines = .ok d :=
  Document.parseLines_total cfg gas lines hl hinl hg

/-- more gas never changes the document -/
theorem C01_document_gas_mono (cfg : Document.Cfg) (lines : List Str) (d : Doc) (g g' : Nat) (hle : g ≤ g')
    (h : Document.parseLines cfg g lines = .ok d) : Document.parseLines cfg g' lines = .ok d :=
  Document.parseLines_gas_mono cfg lines d g g' hle h

/-- the same for `Document(text)` given one `str`: no hypothesis on the text -/
theorem C01_document_str_no_raise (cfg : Document.Cfg) (gas : Nat) (t : Str)
    (hinl : ∀ fn s, ∃ ks, Inline.tokenizeInner cfg.span fn s = .ok ks) (e : Err)
    (h : Document.parse cfg gas t = .err e) : e = .fuel :=
  C01_document_no_raise cfg gas _ (C13.normalize_str_nlEnd t) hinl e h

theorem C01_document_str_terminates (cfg : Document.Cfg) (gas : Nat) (t : Str)
    (hinl : ∀ fn s, ∃ ks, Inline.tokenizeInner cfg.span fn s = .ok ks)
    (hg : gasBound cfg.block (docBuf (normalize (.str t))) ≤ gas) : ∃ d, Document.parse cfg gas t = .ok d :=
  C01_document_terminates cfg gas _ (C13.normalize_str_nlEnd t) hinl hg

/-! ### Non-vacuity -/

def docCfg : Document.Cfg :=
  { block := { types := [.htmlBlock, .blockCode, .heading, .quote, .codeFence, .thematicBreak, .list, .table, .footnote, .paragraph] },
    span := [.escapeSequence, .htmlSpan, .autoLink, .coreTokens, .inlineCode, .lineBreak, .strikethrough] }

/-- a setext heading, a quote holding an ordered list that starts at 3 (with emphasis inside), an
    ATX heading.  (No table here: `Document.zipLongest` of `Model/Document.lean` is compiled by
    well-founded recursion, so the kernel cannot evaluate `TableRow`; the table buffer is checked
    at the block level below.) -/
def docSample : List Str := ["Title\n", "=====\n", "> 3. *x*\n", "## h\n"].map String.toList

theorem docSample_nlEnd : ∀ s ∈ docSample, NlEnd s := by
  intro s hs; apply C13.nlEnd_of_check; revert s; decide

def docShapeOk : Res Doc → Bool
  | .ok ⟨[.setextHeading 1 _ [.rawText _] 1,
          .quote [.list false (some 3) [.listItem _ 0 3 false [.paragraph [.emphasis _ _] 3] 3] 3] 3,
          .heading 2 _ _ 4], []⟩ => true
  | _ => false

example : gasBound docCfg.block (docBuf docSample) = 1782 := by decide +kernel

/-- the whole of `Document(lines)` evaluated by the kernel with `gasBound` gas: it returns the
    document (so the conclusion of `C01_document_terminates` holds on the sample, inline phase included) -/
example : docShapeOk (Document.parseLines docCfg (gasBound docCfg.block (docBuf docSample)) docSample) = true := by
  decide +kernel

/-- with too little gas the error is `.fuel` (the hypothesis of `C01_document_no_raise` is satisfiable) -/
example : (match Document.parseLines docCfg 28 docSample with | .err .fuel => true | _ => false) = true := by decide +kernel

/-- the theorems applied to the sample -/
example (hinl : ∀ fn s, ∃ ks, Inline.tokenizeInner docCfg.span fn s = .ok ks) :
    ∃ d, Document.parseLines docCfg 1782 docSample = .ok d :=
  C01_document_terminates docCfg 1782 docSample docSample_nlEnd hinl (by decide +kernel)

/-- the parse buffer of the sample as the kernel computes it: a two-line setext buffer, a list with
    one item whose leader is "3.", a heading of level 2 -/
example : (match blockPhase docCfg.block 40 docSample with
    | .ok (⟨[.setext [_, _] _ _, .quote [.list [.mk _ _ _ _ ['3', '.'] _ _] _ _] _ _ _, .heading 2 _ _ _ _], _⟩, _) => true
    | _ => false) = true := by decide +kernel

/-- a table buffer as the kernel computes it: three lines, the second one the delimiter row, from
    which `findall` returns the non-empty columns "---" and ":-:" -/
example : (match blockPhase docCfg.block 40 (["| a | b |\n", "|---|:-:|\n", "| 1 | *2* |\n"].map String.toList) with
    | .ok (⟨[.table [_, l1, _] 1 _ _], _⟩, _) =>
        delimiterRow l1 && l1.contains '-' && findAligns l1 == ["---".toList, ":-:".toList]
    | _ => false) = true := by decide +kernel

/-! ## The silent inner fuels never truncate

  `blockCodeLoop`, `codeFenceLoop`, `tableLoop`, `htmlBlockLoop`, `footnoteLines`, `skipBlanks` return
  what they have when their fuel is 0 (no `.err`).  With more fuel than lines remain after the
  cursor — every caller passes `fw.remaining + 1` for a cursor at or after `fw` — that branch never
  ends the loop: the result is the same for every such fuel, i.e. the model loop equals the
  unbounded Python loop. -/

/-- **the fuel of every silently-fuelled block loop is irrelevant once it exceeds the number of
    remaining lines** -/
theorem C01_block_inner_fuel_irrelevant (fuel fuel' : Nat) (fw : FW) (h : fw.remaining < fuel) (h' : fw.remaining < fuel') :
    (∀ buf tb, blockCodeLoop fuel fw buf tb = blockCodeLoop fuel' fw buf tb) ∧
    (∀ ld p buf, codeFenceLoop ld p fuel fw buf = codeFenceLoop ld p fuel' fw buf) ∧
    (∀ buf, tableLoop fuel fw buf = tableLoop fuel' fw buf) ∧
    (∀ ec buf, htmlBlockLoop ec fuel fw buf = htmlBlockLoop ec fuel' fw buf) ∧
    (∀ buf, footnoteLines fuel fw buf = footnoteLines fuel' fw buf) ∧
    (∀ n, skipBlanks fuel fw n = skipBlanks fuel' fw n) :=
  ⟨fun buf tb => blockCodeLoop_fuel fuel fuel' fw buf tb h h',
   fun ld p buf => codeFenceLoop_fuel ld p fuel fuel' fw buf h h',
   fun buf => tableLoop_fuel fuel fuel' fw buf h h',
   fun ec buf => htmlBlockLoop_fuel ec fuel fuel' fw buf h h',
   fun buf => footnoteLines_fuel fuel fuel' fw buf h h',
   fun n => skipBlanks_fuel fuel fuel' fw n h h'⟩

/-- the same for the loops that report `.err .fuel` (Paragraph.read, Quote.read, ListItem.read) -/
theorem C01_block_inner_fuel_irrelevant_err (cfg : Cfg) (fuel fuel' : Nat) (fw : FW) (h : fw.remaining < fuel) (h' : fw.remaining < fuel') :
    (∀ so buf, paragraphLoop cfg so fuel fw buf = paragraphLoop cfg so fuel' fw buf) ∧
    (∀ buf fl, quoteLoop cfg fuel fw buf fl = quoteLoop cfg fuel' fw buf fl) ∧
    (∀ pre buf nl, itemLoop cfg pre fuel fw buf nl = itemLoop cfg pre fuel' fw buf nl) :=
  ⟨fun so buf => paragraphLoop_fuel cfg so fuel fuel' fw buf h h',
   fun buf fl => quoteLoop_fuel cfg fuel fuel' fw buf fl h h',
   fun pre buf nl => itemLoop_fuel cfg pre fuel fuel' fw buf nl h h'⟩

/-- `Footnote.read`'s `while offset < len(string) - 1` loop: `len(string) + 2` rounds or more -/
theorem C01_footnote_fuel_irrelevant (s : Str) (fuel fuel' : Nat) (h : s.length + 2 ≤ fuel) (h' : s.length + 2 ≤ fuel') :
    footnoteRefs s fuel 0 [] = footnoteRefs s fuel' 0 [] :=
  footnoteRefs_fuel s fuel fuel' 0 [] (by omega) (by omega) (by omega) (by omega)

/-- the fuelled regex scanners: `column_align_pattern.findall` (`findAligns`), the tail loop of
    `delimiter_row_pattern` (`delimiterRow`), the attribute loop of `_open_tag` (`attrs`), and
    `escaped_pipe_pattern.sub` (`unescapePipes`) do not depend on their fuel once it exceeds the
    length of the text -/
theorem C01_scanner_fuel_irrelevant (s : Str) (fuel fuel' : Nat) (h : s.length < fuel) (h' : s.length < fuel') :
    alignCols fuel s = alignCols fuel' s ∧ delimRest fuel s = delimRest fuel' s ∧ attrs fuel s = attrs fuel' s ∧
    delimiterRowWith fuel s = delimiterRowWith fuel' s ∧
    (∀ prev, Document.unescapePipes fuel prev s = Document.unescapePipes fuel' prev s) :=
  ⟨alignCols_fuel fuel fuel' s h h', delimRest_fuel fuel fuel' s h h', attrs_fuel fuel fuel' s h h',
   delimiterRowWith_fuel s fuel fuel' h h', fun prev => Document.unescapePipes_fuel fuel fuel' prev s h h'⟩

/-- `delimiterRow` is `delimiterRowWith` at the fuel it passes -/
example (line : Str) : delimiterRow line = delimiterRowWith (line.length + 1) line := delimiterRow_eq_with line

/-- non-vacuity: a fenced block read with fuel 3 (two lines remain) and with fuel 1000 -/
example :
    let fw : FW := { lines := docBuf (["```\n", "x\n", "```\n", "y\n"].map String.toList), pos := 1 }
    fw.remaining = 3 ∧ (codeFenceLoop "```".toList 0 4 fw []).1 = ["x\n".toList] ∧
      codeFenceLoop "```".toList 0 4 fw [] = codeFenceLoop "```".toList 0 1000 fw [] := by
  refine ⟨by decide +kernel, by decide +kernel, ?_⟩
  exact (C01_block_inner_fuel_irrelevant 4 1000 _ (by decide +kernel) (by decide +kernel)).2.1 _ _ _


/-! ### Parse-and-render is total: the three phases together

  The hypothesis `hinl` of the Document-level theorems (the inline phase returns) is discharged by
  `C06_tokenize_inner_total` (Proofs/CoreTotal.lean: `find_core_tokens`, `process_emphasis`, the link
  matchers and the span tokenizer never raise and their fuels suffice), for EVERY span-token list.
  The HTML renderer model (`Html.render`) is a total Lean function, so parse-and-render returns a
  string whenever the parse does. -/

/-- **`Document(text)` never raises**, for every text, every block- and span-token list and every gas:
    the only error value the model can return is running out of gas. -/
theorem C01_parse_no_raise (cfg : Document.Cfg) (gas : Nat) (t : Str) (e : Err)
    (h : Document.parse cfg gas t = .err e) : e = .fuel :=
  C01_document_str_no_raise cfg gas t (fun fn s => C06.C06_tokenize_inner_total cfg.span fn s) e h

/-- **`Document(text)` terminates and returns a document** once the gas is at least the closed-form bound
    `gasBound` of the normalised lines (and then more gas changes nothing: `C01_document_gas_mono`). -/
theorem C01_parse_terminates (cfg : Document.Cfg) (gas : Nat) (t : Str)
    (hg : gasBound cfg.block (docBuf (normalize (.str t))) ≤ gas) : ∃ d, Document.parse cfg gas t = .ok d :=
  C01_document_str_terminates cfg gas t (fun fn s => C06.C06_tokenize_inner_total cfg.span fn s) hg

/-- the same for a document given as a list of complete lines -/
theorem C01_parse_lines_total (cfg : Document.Cfg) (gas : Nat) (lines : List Str) (hl : ∀ s ∈ lines, NlEnd s)
    (hg : gasBound cfg.block (docBuf lines) ≤ gas) : ∃ d, Document.parseLines cfg gas lines = .ok d :=
  C01_document_terminates cfg gas lines hl (fun fn s => C06.C06_tokenize_inner_total cfg.span fn s) hg

/-- **Parse-and-render with the HTML renderer returns a string for every text**: with the token lists
    the HTML renderer installs (regenerated from /repo) and enough gas, `Config.renderHtml` is `some _`,
    whatever the options. -/
theorem C01_html_total (opts : Html.Opts) (cfg : Document.Cfg) (hc : Config.html = some cfg) (gas : Nat) (t : Str)
    (hg : gasBound cfg.block (docBuf (normalize (.str t))) ≤ gas) : ∃ out, Config.renderHtml opts gas t = some out := by
  obtain ⟨d, hd⟩ := C01_parse_terminates cfg gas t hg
  exact ⟨Html.render opts d, by simp [Config.renderHtml, hc, hd]⟩

/-- the configuration exists: the regenerated lists are known to the model -/
example : Config.html.isSome = true := by decide +kernel

end Mistletoe.Props.C01
