/-
  C05 (prefix half at full strength) — property theorems only; the proofs are in Proofs/LocalityLists.lean (which builds
  on Props/C05.lean, hence this second file).

  Props/C05.lean proves the prefix half for A without a top-level list (`C05_prefix_partial`).  The restriction was not
  a weakness of the proof: with a list among A's blocks the statement was FALSE for the pinned code - `List.read` read
  the item behind a marker of another type before discarding it, that read ran on through the blank line into B, and a
  link reference definition found there stayed registered (kernel-checked counterexamples, reproduced on the real code,
  repaired in /repo: "fix: List.read leaves an item whose marker starts another list unread").  For the repaired code
  (the model follows it: `readList` compares the next marker first, `otherMarkerType`) the statement holds as the
  property states it.
-/
import Mistletoe.Proofs.LocalityLists
namespace Mistletoe.Props.C05L
open Mistletoe Mistletoe.Block Mistletoe.Props.C05

/-- **Prefix independence, no restriction on lists.**  If `tokenize_block(A)` returns the buffer `bA` and the state
    `stA`, the last of `bA`'s top-level entries being a paragraph, setext/ATX heading, thematic break, block quote or table
    (`lastClosed`), A's lines ending with their only newline, and `BlankLine` not among the token types, then for ANY
    lines `rest` the tokenizer on `A ++ "\n" :: rest` reaches the line after the "\n" with exactly A's entries
    accumulated, A's final state and `loose = true`. -/
theorem C05_prefix (cfg : Cfg) (hbl : .blankLine ∉ cfg.types) (A : List Line) (nl : Line) (hnl : nl.s = ['\n'])
    (rest : List Line) (start : Nat) (st : St) (gas : Nat) (bA : Buf) (stA : St)
    (hA : tokenizeBlock cfg gas A start st = .ok (bA, stA)) (hlast : lastClosed bA.entries)
    (hnlA : AllNlEnd A) (extra : Nat) (hex : cfg.types.length < extra) :
    ∃ g', extra ≤ g' ∧
      tokenizeBlock cfg (gas + extra) (A ++ nl :: rest) start st =
        tokLoop cfg g' { lines := A ++ nl :: rest, pos := A.length + 1, start := start } stA bA.entries.reverse true :=
  Mistletoe.Props.C05.C05_prefix cfg hbl A nl hnl rest start st gas bA stA hA hlast hnlA extra hex

/-- **Blocks separated by a blank line are parsed independently of each other** (the property as stated): if the block
    phase on `A` returns `bA` with a closed last block and no link reference definition, and the block phase on `B`
    returns `bB`/`stB`, then the block phase on `A ++ ["\n"] ++ B` returns exactly `bA`'s entries followed by `bB`'s
    entries with every line number, at every depth, raised by the number of lines that precede B, and B's state. -/
theorem C05_blank_line_independent (cfg : Cfg) (hbl : .blankLine ∉ cfg.types) (A B : List Str) (gA gB : Nat)
    (bA bB : Buf) (stA stB : St)
    (hA : blockPhase cfg gA A = .ok (bA, stA)) (hlast : lastClosed bA.entries)
    (hdef : stA.defs = [])
    (hB : blockPhase cfg gB B = .ok (bB, stB))
    (hnlA : ∀ s ∈ A, NlEnd s) (hnlB : ∀ s ∈ B, NlEnd s) :
    blockPhase cfg (gA + (gB + cfg.types.length + 1)) (A ++ [['\n']] ++ B) =
      .ok ({ entries := bA.entries ++ shiftEntries (A.length + 1) bB.entries, loose := true }, stB) :=
  C05_blank_line_independent_full cfg hbl A B gA gB bA bB stA stB hA hlast hdef hB hnlA hnlB

/-- the input on which the pinned code broke the property: the model of the repaired code registers no definition
    (`- ` / blank / `* * *` / `para [foo]`, then a blank line and `      [foo]: /url`) -/
example : (match blockPhase cfg0 60 [L "- \n", L "\n", L "* * *\n", L "para [foo]\n", L "\n", L "      [foo]: /url\n"] with
    | .ok r => some r.2.defs.length | .err _ => none) = some 0 := by decide +kernel

end Mistletoe.Props.C05L
