/-
  C03 (fragment with fenced code blocks and setext headings) — property theorems only; the proofs are in
  Proofs/ComposeCode.lean (which builds on Proofs/ComposeLists2.lean and Proofs/MdRoundCode.lean, hence this third file).

  The tree type `T3` keeps everything `T2` (Props/C03_Lists.lean) has - paragraphs, ATX headings, thematic breaks, block
  quotes with either marker, bullet and ordered lists nested to any depth - and adds
    * FENCED CODE BLOCKS: either fence character, >= 3 characters, at indentation 0-3, any info string the specification
      admits, any content lines that do not close the fence (blank lines, lines that look like other blocks, shorter fences,
      fences of the other character, the fence followed by text), a closing fence of the same character at least as long, at
      indentation 0-3, with trailing spaces; at top level, inside block quotes and as the first or a later block of a list
      item, to any depth;
    * SETEXT HEADINGS: one or more text lines and an underline `=+` / `-+` at indentation 0-3 with trailing spaces; at top
      level and inside list items (not inside block quotes: the recorded finding `setext-in-quote`).
  `T3.oks` is the decidable admissibility predicate.  Not covered: tabs, unclosed fences, a fence directly adjacent to another
  block, a fence at indentation 1-3 as the first block of a list item or directly behind a list, whitespace-only content lines
  inside list items, and what `T2` already excludes.
  The proof of the fence case found a defect of the pinned code (a content line beginning with the fence and one word long
  closed the block), repaired in /repo by 99c8328; see Proofs/ComposeCode2.lean.
-/
import Mistletoe.Proofs.ComposeCode
namespace Mistletoe.Props.C03C
open Mistletoe Mistletoe.Block Mistletoe.Html Mistletoe.InertInline Mistletoe.ComposeC

/-- **The document written from a tree with code blocks and setext headings parses back to that tree**: for every admissible
    forest `ts` (`T3.oks`), under the default block token list and every covered span list, `Document(write(ts))` - from the
    lines and from the `str` - is exactly `blocks3 1 ts`: a `CodeFence` token per fenced block with `language` = the first word
    of the info string (escapes and character references resolved), the indentation, the fence, the info string and `content`
    = the content lines with the opening indentation removed; a `SetextHeading` token per setext heading with its level and
    text lines; everything else as in Props/C03_Lists.lean; every token on the line the writer put it on; no definitions. -/
theorem C03_code_document_partial (cfg : Document.Cfg) (ti : Bool)
    (hb : cfg.block = { types := Props.C14.defaultTypes, tableInterrupt := ti })
    (ht : ∀ t ∈ cfg.span, inertClass t = true) (hc : cfg.span.count .lineBreak = 1)
    (ts : List T3) (h : T3.oks ts = true) (hne : ts ≠ []) (gas : Nat) (hg : needs3 ts ≤ gas) :
    Document.parseLines cfg gas (writes3 ts) = .ok { kids := blocks3 1 ts, footnotes := [] } ∧
    Document.parse cfg gas (writes3 ts).flatten = .ok { kids := blocks3 1 ts, footnotes := [] } :=
  Mistletoe.ComposeC.C03_code_document_partial cfg ti hb ht hc ts h hne gas hg

/-- **… and the HTML renderer gives, byte for byte, the HTML written directly from the tree** (`htmlOf3`: a fenced block is
    `<pre><code class="language-…">` - no `class` without a language -, the escaped content, `</code></pre>`; a setext
    heading is `<h1>` / `<h2>` around the escaped text lines), for every option set, through the parse-and-render pipeline of
    the working tree's HTML configuration. -/
theorem C03_code_html_partial (o : Opts) (ts : List T3) (h : T3.oks ts = true) (hne : ts ≠ []) (gas : Nat) (hg : needs3 ts ≤ gas) :
    Config.renderHtml o gas (writes3 ts).flatten = some (htmlOf3 o ts) :=
  Mistletoe.ComposeC.C03_code_html_partial o ts h hne gas hg

end Mistletoe.Props.C03C
