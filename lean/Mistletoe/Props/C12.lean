/-
  C12 — The token tree is well-formed and its generic views are faithful.

  Proved here (for every tree): the tree-walking utility yields exactly the proper descendants,
  each once, with its true parent and depth (as a permutation of the pre-order list, because
  `traverse` is breadth-first); its `klass`, `depth` and `include_source` options act as filters of
  that walk; `get_ast` mirrors the tree node for node.
  Child kinds, parent links and scalar ranges of *parsed* documents are checked on the real object
  graph by the exporter (harness/export.py) on every generated input - see DESIGN.md.
-/
import Mistletoe.Proofs.Traverse
import Mistletoe.Props.C01
import Mistletoe.Model.AstJson
namespace Mistletoe.Props.C12
open Mistletoe Mistletoe.Traverse Mistletoe.AstJson

/-- **Traversal**: with default arguments `traverse` yields each token reachable through
    `children` exactly once (a permutation of the pre-order list of proper descendants), each with
    its true parent and depth. -/
theorem C12_traverse (t : RTree) :
    (traverse t (fun _ => true) none false).Perm (descendants 1 t) := by
  unfold traverse
  simp only [Bool.false_and, Bool.false_eq_true, if_false, List.nil_append]
  rw [descendants_eq]
  exact loop_perm _ 0 _ (by have := heightLevel_childPairs t; omega)

mutual
/-- In the reference list every entry's parent is a node that lists it among its children. -/
theorem descendants_parent (d : Nat) : ∀ (t : RTree), ∀ r ∈ descendants d t,
    ∃ p, r.parent = some p ∧ r.node ∈ p.kids ∧ d ≤ r.depth
  | .node i c kids, r, hr => by
    simp only [descendants] at hr
    exact descendantsL_parent d (.node i c kids) kids (fun k hk => hk) r hr
theorem descendantsL_parent (d : Nat) (p : RTree) : ∀ (ks : List RTree), (∀ k ∈ ks, k ∈ p.kids) →
    ∀ r ∈ descendantsL d p ks, ∃ q, r.parent = some q ∧ r.node ∈ q.kids ∧ d ≤ r.depth
  | [], _, r, hr => by simp [descendantsL] at hr
  | k :: ks, hsub, r, hr => by
    simp only [descendantsL, List.mem_cons, List.mem_append] at hr
    rcases hr with rfl | hr | hr
    · exact ⟨p, rfl, hsub k (List.mem_cons_self ..), Nat.le_refl _⟩
    · obtain ⟨q, h1, h2, h3⟩ := descendants_parent (d + 1) k r hr
      exact ⟨q, h1, h2, by omega⟩
    · exact descendantsL_parent d p ks (fun k' hk' => hsub k' (List.mem_cons_of_mem _ hk')) r hr
end

/-- **True parent**: every yielded token is listed by the token reported as its parent. -/
theorem C12_traverse_true_parent (t : RTree) :
    ∀ r ∈ traverse t (fun _ => true) none false, ∃ p, r.parent = some p ∧ r.node ∈ p.kids := by
  intro r hr
  have := (C12_traverse t).mem_iff.mp hr
  obtain ⟨p, h1, h2, _⟩ := descendants_parent 1 t r this
  exact ⟨p, h1, h2⟩

/-- **Class filter**: `klass` only filters what is yielded; it never prunes the walk. -/
theorem C12_traverse_klass (t : RTree) (klass : Nat → Bool) (limit : Option Nat) :
    traverse t klass limit false =
      (traverse t (fun _ => true) limit false).filter (fun r => klass r.node.cls) := by
  simp only [traverse, Bool.false_and, Bool.false_eq_true, if_false, List.nil_append]
  exact loop_filter klass limit _ _ _

/-- **include_source** prepends the source (depth 0, no parent) when it passes the class filter. -/
theorem C12_traverse_include_source (t : RTree) (klass : Nat → Bool) (limit : Option Nat) :
    traverse t klass limit true =
      (if klass t.cls then [{ node := t, parent := none, depth := 0 }] else []) ++ traverse t klass limit false := by
  simp [traverse]

/-- **AST renderer mirrors the tree**: the dictionary of a token starts with its class name, carries
    its `repr_attributes`, its header's dictionary when it has one, and - exactly when `children` is
    not None - the list of its children's dictionaries, in order. -/
theorem C12_ast_mirror (t : GTok) :
    ∃ fields, getAst t = .obj (("type".toList, .str t.cls) :: fields)
      ∧ (∀ kv ∈ t.reprAttrs, kv ∈ fields)
      ∧ (∀ h ∈ t.header.head?, ("header".toList, getAst h) ∈ fields)
      ∧ (∀ ks, t.kids = some ks → ("children".toList, JVal.arr (ks.map getAst)) ∈ fields) := by
  have hmap : ∀ ks : List GTok, getAsts ks = ks.map getAst := by
    intro ks; induction ks with
    | nil => rfl
    | cons k ks ih => simp [getAsts, ih]
  cases t with
  | mk cls vars reprAttrs header kids =>
    refine ⟨pickVars vars ++ reprAttrs ++ headerField header ++ kidsField kids,
      by simp [getAst, GTok.cls], ?_, ?_, ?_⟩
    · intro kv hkv
      simp only [GTok.reprAttrs] at hkv
      simp only [List.mem_append]
      exact Or.inl (Or.inl (Or.inr hkv))
    · intro h hh
      cases header with
      | nil => simp [GTok.header] at hh
      | cons x xs =>
        simp only [GTok.header, List.head?_cons, Option.mem_def, Option.some.injEq] at hh
        subst hh
        simp [headerField]
    · intro ks hks
      simp only [GTok.kids] at hks
      subst hks
      simp [kidsField, hmap]

/-! Non-vacuity -/
def sample : RTree := .node 0 0 [.node 1 1 [.node 3 2 [], .node 4 2 []], .node 2 1 [.node 5 2 [.node 6 3 []]]]

example : (traverse sample (fun _ => true) none false).map (·.node.id) = [1, 2, 3, 4, 5, 6] := by decide
example : (descendants 1 sample).map (·.node.id) = [1, 3, 4, 2, 5, 6] := by decide
example : (traverse sample (fun c => c == 2) (some 2) true).map (fun r => (r.node.id, r.depth)) = [(3, 2), (4, 2), (5, 2)] := by decide


/-! ### Scalar ranges of parsed documents (clause "scalar attributes are in range")

  Proved over the block-parser model in `Proofs/DocTotal.lean` (well-formedness of every parse buffer,
  at every nesting depth, for every list of complete lines): restated here because they are C12's clauses.
  `subEntriesL` lists every entry of a buffer at any depth. -/

open Mistletoe.Block in
/-- **heading level 1-6**: every ATX heading entry produced by the block phase, at any nesting depth, has a
    level between 1 and 6 (the level the `Heading` constructor stores) -/
theorem C12_heading_level_range (cfg : Cfg) (gas : Nat) (lines : List Str) (b : Buf) (st : St)
    (hl : ∀ s ∈ lines, NlEnd s) (h : blockPhase cfg gas lines = .ok (b, st))
    (lvl : Nat) (c cl : Str) (ln og : Nat) (hm : Entry.heading lvl c cl ln og ∈ subEntriesL b.entries) : 1 ≤ lvl ∧ lvl ≤ 6 :=
  C01.C01_heading_level_range cfg gas lines b st hl h lvl c cl ln og hm

open Mistletoe.Block in
/-- **lists hold items**: every list entry at any depth has at least one item, each with a well-formed leader
    (one bullet character, or 1-9 digits and a delimiter - so that `int(leader[:-1])`, the list's `start`, is
    defined and is read off the first item's marker) -/
theorem C12_list_items (cfg : Cfg) (gas : Nat) (lines : List Str) (b : Buf) (st : St)
    (hl : ∀ s ∈ lines, NlEnd s) (h : blockPhase cfg gas lines = .ok (b, st))
    (items : List Item) (ln og : Nat) (hm : Entry.list items ln og ∈ subEntriesL b.entries) : 1 ≤ items.length ∧ ItemsWF items :=
  C01.C01_list_nonempty cfg gas lines b st hl h items ln og hm

end Mistletoe.Props.C12
