/-
  C03 (fragment with lists) — property theorems only; the proofs are in Proofs/ComposeLists.lean and
  Proofs/ComposeLists2.lean (which build on Props/C03.lean, Props/C04.lean and Props/C05_Lists.lean, hence this second file).

  Props/C03.lean proves the compositional theorem for paragraphs, ATX headings, thematic breaks and block quotes.  With C05
  available at full strength (lists among earlier siblings) the tree type `T2` adds LISTS at every nesting depth: bullet
  lists (`-`, `+`, `*`) and ordered lists (any start below 10^9, delimiter `.` or `)`), padding 1-4, tight (one block per
  item, no blank line) or loose (one blank line between items, any number of blocks per item), items holding any block of
  the fragment - nested lists and quotes included; lists inside quotes and quotes inside lists.  `T2.oks` is the decidable
  admissibility predicate (it follows the rules of the Python tree generator, which were debugged against the code).
  Not covered: marker indentation 1-3, items beginning with a blank line, lazy lines, tight items made of a paragraph
  directly followed by a nested list, more than one blank line, two lists in a row (the recorded finding lives there).
-/
import Mistletoe.Proofs.ComposeLists2
namespace Mistletoe.Props.C03L
open Mistletoe Mistletoe.Block Mistletoe.Html Mistletoe.InertInline Mistletoe.ComposeL

/-- **The document written from a tree with lists parses back to that tree**: for every admissible forest `ts`
    (`T2.oks`), under the default block token list and every covered span list, `Document(write(ts))` - from the lines and
    from the `str` - is exactly `blocks2 1 ts`: one `List` token per list node with `loose` and `start` as the tree says, one
    `ListItem` per item with its marker, content offset and line number, the items' blocks recursively, line numbers as written. -/
theorem C03_lists_document_partial (cfg : Document.Cfg) (ti : Bool)
    (hb : cfg.block = { types := Props.C14.defaultTypes, tableInterrupt := ti })
    (ht : ∀ t ∈ cfg.span, inertClass t = true) (hc : cfg.span.count .lineBreak = 1)
    (ts : List T2) (h : T2.oks ts = true) (hne : ts ≠ []) (gas : Nat) (hg : needs2 ts ≤ gas) :
    Document.parseLines cfg gas (writes2 ts) = .ok { kids := blocks2 1 ts, footnotes := [] } ∧
    Document.parse cfg gas (writes2 ts).flatten = .ok { kids := blocks2 1 ts, footnotes := [] } :=
  Mistletoe.ComposeL.C03_lists_document_partial cfg ti hb ht hc ts h hne gas hg

/-- **… and the HTML renderer gives, byte for byte, the HTML written directly from the tree** (`htmlOf2`: `<ul>` / `<ol>`
    with `start` when it is not 1, `<li>` with or without `<p>` according to tight / loose), for every option set, through
    the parse-and-render pipeline of the working tree's HTML configuration. -/
theorem C03_lists_html_partial (o : Opts) (ts : List T2) (h : T2.oks ts = true) (hne : ts ≠ []) (gas : Nat) (hg : needs2 ts ≤ gas) :
    Config.renderHtml o gas (writes2 ts).flatten = some (htmlOf2 o ts) :=
  Mistletoe.ComposeL.C03_lists_html_partial o ts h hne gas hg

end Mistletoe.Props.C03L
