/-
  C04 (list half, general form) — property theorems only; the proofs are in Proofs/WrapIndent.lean (which builds on
  Props/C04.lean, hence this second file).

  Props/C04.lean proves the list-item wrap for a marker at indentation 0 with blank lines that are exactly "\n".
  Here the marker may stand at indentation 0-3 (the continuation lines move with it), whitespace-only lines are
  allowed (indented or left as they are), and what remains as hypothesis is stated with a kernel-checked counterexample
  each in Proofs/WrapIndent.lean (all reproduced on the real code): the first character is not `str.isspace`
  (` foo` changes the content offset), every other line is spaces-only or begins, after its own spaces, with a
  non-`isspace` character (the recorded finding unicode-whitespace-edge), the text does not end in a blank line (the
  property's own condition), marker/thematic-break coincidences (`* ` before `* *`), padding 1-4, indentation <= 3.
  The item's content is the parse of the text with its spaces-only lines read as "\n" (`normDoc`): inside an item the
  reader hands "\n" to the nested tokenizer for such a line, and the two are NOT the same to the top-level tokenizer
  (`a`, four spaces, `b` is paragraph / code block / paragraph at top level) - so "content is exactly B" holds when the
  text has no spaces-only line (`C04_item_phase_general_h2_partial`) or when the two parses agree.
-/
import Mistletoe.Proofs.WrapIndent
namespace Mistletoe.Props.C04G
open Mistletoe Mistletoe.Block Mistletoe.Props.C04

/-- **A document indented as one list item (marker at indentation i ≤ 3, padding 1-4, every other line behind
    i + |marker| + padding spaces; spaces-only lines indented too or left alone) parses to exactly one single-item List whose
    item content is the parse B of the document with its spaces-only lines read as "\n", with B's link definitions**, for
    every token list in which `List` is consulted before `Paragraph` and `Table`. -/
theorem C04_item_phase_general_partial (cfg : Cfg) (pre post : List BTok) (hty : cfg.types = pre ++ .list :: post)
    (hnl : .list ∉ pre) (hnp : .paragraph ∉ pre) (hnt : .table ∉ pre)
    (m : Str) (hm : ListLeader m) (i : Nat) (hi : i ≤ 3) (pad : Nat) (h1 : 1 ≤ pad) (h4 : pad ≤ 4)
    (s0 : Str) (ss : List Str) (hok : itemDocOk2 (s0 :: ss) = true)
    (htb : Scan.thematicBreak (List.replicate i ' ' ++ (m ++ List.replicate pad ' ' ++ s0)) = false)
    (blanksToo : Bool) (gas : Nat) (B : Buf) (st' : St) (hB : blockPhase cfg gas (normDoc (s0 :: ss)) = .ok (B, st')) :
    blockPhase cfg (gas + (pre.length + 4)) (indentDocAt i m pad blanksToo (s0 :: ss)) =
      .ok ({ entries := [.list [.mk B.entries (decide (B.entries.length > 1) && B.loose) i (i + m.length + pad) m 1 1] 1 1],
             loose := false }, st') :=
  Mistletoe.Props.C04.C04_item_phase_general_partial cfg pre post hty hnl hnp hnt m hm i hi pad h1 h4 s0 ss hok htb blanksToo gas B st' hB

/-- **… and the content is exactly the document's own parse B** when the document has no spaces-only line other than "\n"
    (what the property's "W spaces before every other non-blank line" produces from a text whose blank lines are empty). -/
theorem C04_item_phase_general_h2_partial (cfg : Cfg) (pre post : List BTok) (hty : cfg.types = pre ++ .list :: post)
    (hnl : .list ∉ pre) (hnp : .paragraph ∉ pre) (hnt : .table ∉ pre)
    (m : Str) (hm : ListLeader m) (i : Nat) (hi : i ≤ 3) (pad : Nat) (h1 : 1 ≤ pad) (h4 : pad ≤ 4)
    (s0 : Str) (ss : List Str) (hok : itemDocOk2 (s0 :: ss) = true) (hH2 : ∀ s ∈ ss, spLine s = true → s = ['\n'])
    (htb : Scan.thematicBreak (List.replicate i ' ' ++ (m ++ List.replicate pad ' ' ++ s0)) = false)
    (blanksToo : Bool) (gas : Nat) (B : Buf) (st' : St) (hB : blockPhase cfg gas (s0 :: ss) = .ok (B, st')) :
    blockPhase cfg (gas + (pre.length + 4)) (indentDocAt i m pad blanksToo (s0 :: ss)) =
      .ok ({ entries := [.list [.mk B.entries (decide (B.entries.length > 1) && B.loose) i (i + m.length + pad) m 1 1] 1 1],
             loose := false }, st') :=
  Mistletoe.Props.C04.C04_item_phase_general_h2_partial cfg pre post hty hnl hnp hnt m hm i hi pad h1 h4 s0 ss hok hH2 htb blanksToo gas B st' hB

/-- the thematic-break coincidence can only arise with the markers `-` and `*` -/
theorem C04_marker_never_a_break (m : Str) (hm : ListLeader m) (i : Nat) (hi : i ≤ 3) (rest : Str)
    (h : ∀ c m', m = c :: m' → c ≠ '-' ∧ c ≠ '*') :
    Scan.thematicBreak (List.replicate i ' ' ++ (m ++ rest)) = false :=
  C04_htb_of_marker m hm i hi rest h

end Mistletoe.Props.C04G
