/-
  C09 (inline markup: emphasis, strong emphasis, backslash escapes) — property theorems only; the proofs are in
  Proofs/MdRoundEmph.lean (which builds on Proofs/EmphHtml.lean and Proofs/MdRoundCode.lean, hence this further file).

  The theorems of the other C09 files speak of INERT text.  Here a paragraph line may hold inline markup of the C06 alphabet
  (any text without backquote, brackets, `<`, `&`, `~~`; standard whitespace): emphasis and strong emphasis with either
  delimiter character, nested in any way, unmatched delimiter runs, backslash escapes.  The span resolver drops no candidate
  (Proofs/EmphHtml.lean), and the Markdown renderer writes every piece back as the source slice it came from: `Emphasis` /
  `Strong` tokens keep their delimiter character, raw text is written unchanged, an escape sequence with its backslash.  So
  the inline rendering IS the source text (`C09_inline_exact_partial`), and documents of such one-line paragraphs, inert
  paragraphs, ATX headings, thematic breaks and code blocks, inside k >= 0 block quotes, are reproduced byte for byte
  (`C09_emphasis_blocks_roundtrip_partial`).  Nothing is respelled (`__a__` stays `__a__`), no escape is dropped.
  Not covered: links, code spans, autolinks, raw HTML, strikethrough, hard breaks; paragraphs with markup that span several
  lines; a line limit.
-/
import Mistletoe.Proofs.MdRoundEmph
namespace Mistletoe.Props.C09E
open Mistletoe Mistletoe.Span Mistletoe.Inline Mistletoe.Wrap Mistletoe.Markdown Mistletoe.EmphHtml
open Mistletoe.Core Mistletoe.InertInline Mistletoe.RefResolve Mistletoe.InlineScan
open Mistletoe.Py Mistletoe.Spec.EmphasisEsc
open Mistletoe.MdRound Mistletoe.MdRoundEmph

/-- **The Markdown rendering of the inline tokens of a text of the alphabet is the text itself** (one line; without a limit). -/
theorem C09_inline_exact_partial (types : List STok) (fn : Footnotes.Table) (s : Str)
    (hp : plainEsc s = true) (hw : EmphRefine.stdWs s = true) (hnl : '\n' ∉ s) (htl : tildeOk s = true)
    (ht : ∀ t ∈ types, inertClass t = true) (hc : types.count .coreTokens = 1)
    (he : types.count .escapeSequence = 1) :
    ∃ ks, tokenizeInner types fn s = .ok ks ∧
      (∃ fs, renderInlines ks = .ok fs ∧ texts fs = s) ∧
      spanToLines ks none = .ok (if s.isEmpty then [] else [s]) :=
  Mistletoe.MdRoundEmph.md_inline_exact_esc types fn s hp hw hnl htl ht hc he

/-- **Round trip of documents whose paragraphs hold emphasis, strong emphasis and escapes**: exact reproduction, idempotence,
    same document under every token list, same HTML - for the token lists the Markdown renderer installs. -/
theorem C09_emphasis_blocks_roundtrip_partial (cfg : Document.Cfg) (hcfg : Config.markdown = some cfg)
    (it : Blk3) (rest : List Blk3) (hok : it.ok = true) (hrest : ∀ x ∈ rest, x.ok = true) (hadj : adjOk3 it rest = true)
    (k : Nat) (hnt : k = 0 ∨ ∀ l ∈ itemsLines3 it rest, '\t' ∉ l)
    (o : Opts) (ho : o.maxLineLength = none) (gas : Nat) :
    ∃ d, Document.parse cfg (gas + (2 * rest.length + 14) + k * 8) (qStrs k (itemsLines3 it rest)).flatten = .ok d ∧
      render o d = (qStrs k (itemsLines3 it rest)).flatten ∧
      (∃ d', Document.parse cfg (gas + (2 * rest.length + 14) + k * 8) (render o d) = .ok d' ∧
        render o d' = render o d) ∧
      (∀ (cfg' : Document.Cfg) (g : Nat),
        Document.parse cfg' g (render o d) = Document.parse cfg' g (qStrs k (itemsLines3 it rest)).flatten) ∧
      (∀ (hopts : Html.Opts) (g : Nat),
        Config.renderHtml hopts g (render o d) = Config.renderHtml hopts g (qStrs k (itemsLines3 it rest)).flatten) :=
  Mistletoe.MdRoundEmph.C09_emphasis_blocks_roundtrip_partial cfg hcfg it rest hok hrest hadj k hnt o ho gas

end Mistletoe.Props.C09E
