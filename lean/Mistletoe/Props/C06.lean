/-
  C06 (second clause) — no inline text makes the parser fail.

  Property theorems only; the proofs are in Proofs/CoreTotal.lean.  They are about the model of
  mistletoe/core_tokens.py (`Mistletoe.Core`): `find_core_tokens`, `find_link_image`,
  `process_emphasis`, `Delimiter.remove`.  In the model every Python indexing that could raise is an
  explicit `.err .index` / `.err .type`, and both loops take fuel (`.err .fuel`); the theorems say
  none of the three can happen, for every string and every table of link reference definitions.
-/
import Mistletoe.Proofs.CoreTotal
import Mistletoe.Proofs.EmphSpec
import Mistletoe.Proofs.EmphRefine
import Mistletoe.Proofs.EmphRefineEsc
namespace Mistletoe.Props.C06
open Mistletoe Mistletoe.Core

/-- **The inline core never fails.**  For every inline text `s` and every table `fn` of link
    reference definitions, `find_core_tokens(s, root)` returns a list of matches: no delimiter or
    string index is ever out of range (`IndexError`), no `None` is used as a match (`TypeError`),
    and both loops end within the fuel the model gives them (`len(s) + 2` iterations of the
    character loop, `2·len(s) + 2·len(delimiters) + 4` iterations of each `process_emphasis`
    loop), i.e. the scan terminates. -/
theorem C06_core_never_fails (s : Str) (fn : Footnotes.Table) :
    ∃ r, findCoreTokens s fn = .ok r :=
  findCoreTokens_ok s fn

/-- **`tokenize_inner` is total.**  Under every list of span token classes and every table of link
    reference definitions, tokenizing the inline text `s` returns a list of span tokens; it never
    raises and never runs out of fuel. -/
theorem C06_tokenize_inner_total (types : List Inline.STok) (fn : Footnotes.Table) (s : Str) :
    ∃ ks, Inline.tokenizeInner types fn s = .ok ks :=
  tokenizeInner_ok types fn s

/-- the match is a `Strong` or an `Emphasis` token (not a link or an image) -/
def IsEmph (m : CoreM) : Prop := m.kind = .strong ∨ m.kind = .emphasis

instance (m : CoreM) : Decidable (IsEmph m) := by unfold IsEmph; exact inferInstance

/-- **Emphasis matches are well formed.**  Every `Strong`/`Emphasis` match that `find_core_tokens`
    returns lies inside the string, has an opening delimiter `[start, ts)`, a non-empty text
    `[ts, te)` and a closing delimiter `[te, stop)` in this order, the two delimiters have the same
    width, the width is 2 for `Strong` and 1 for `Emphasis`, and the token's `delimiter` attribute
    is the first character of the opening delimiter. -/
theorem C06_emphasis_wellformed (s : Str) (fn : Footnotes.Table) (ms : List CoreM) (codes : List InlineScan.CodeM)
    (h : findCoreTokens s fn = .ok (ms, codes)) :
    ∀ m ∈ ms, IsEmph m →
      m.start < m.ts ∧ m.ts < m.te ∧ m.te < m.stop ∧ m.stop ≤ s.length ∧
      m.ts - m.start = m.stop - m.te ∧
      ((m.kind = .strong ∧ m.ts - m.start = 2) ∨ (m.kind = .emphasis ∧ m.ts - m.start = 1)) ∧
      s[m.start]? = some m.delimiter := by
  intro m hm he
  obtain ⟨hw, hne⟩ := emphasis_wellformed s fn ms codes h m hm he
  exact ⟨hw.lt_ts, hne, hw.te_lt, hw.stop_le, hw.width, hw.kind, hw.delim⟩

/-- **Emphasis matches nest.**  In the list `find_core_tokens` returns (in the order the matches
    were found), a `Strong`/`Emphasis` match found earlier (`a`) and one found later (`b`) are
    either disjoint, or the earlier one lies inside the text `[ts, te)` of the later one.  (A later
    match is never inside an earlier one, and two matches never overlap partially.) -/
theorem C06_emphasis_nested (s : Str) (fn : Footnotes.Table) (ms : List CoreM) (codes : List InlineScan.CodeM)
    (h : findCoreTokens s fn = .ok (ms, codes)) :
    ms.Pairwise (fun a b => IsEmph a → IsEmph b →
      a.stop ≤ b.start ∨ b.stop ≤ a.start ∨ (b.ts ≤ a.start ∧ a.stop ≤ b.te)) :=
  (emphasis_nested s fn ms codes h).imp (fun hab ha hb => hab hb ha)

/-- The same for any two different positions of the result: disjoint or properly nested. -/
theorem C06_emphasis_disjoint_or_nested (s : Str) (fn : Footnotes.Table) (ms : List CoreM)
    (codes : List InlineScan.CodeM) (h : findCoreTokens s fn = .ok (ms, codes))
    (i j : Nat) (hi : i < ms.length) (hj : j < ms.length) (hij : i ≠ j) (hei : IsEmph ms[i]) (hej : IsEmph ms[j]) :
    ms[i].stop ≤ ms[j].start ∨ ms[j].stop ≤ ms[i].start ∨
    (ms[j].ts ≤ ms[i].start ∧ ms[i].stop ≤ ms[j].te) ∨ (ms[i].ts ≤ ms[j].start ∧ ms[j].stop ≤ ms[i].te) := by
  have hp := List.pairwise_iff_getElem.1 (C06_emphasis_nested s fn ms codes h)
  rcases Nat.lt_or_gt_of_ne hij with hlt | hlt
  · rcases hp i j hi hj hlt hei hej with h1 | h1 | h1
    · exact Or.inl h1
    · exact Or.inr (Or.inl h1)
    · exact Or.inr (Or.inr (Or.inl h1))
  · rcases hp j i hj hi hlt hej hei with h1 | h1 | h1
    · exact Or.inr (Or.inl h1)
    · exact Or.inl h1
    · exact Or.inr (Or.inr (Or.inr h1))

/-- **Delimiter characters.**  For every text and every table of definitions, the characters of
    both delimiters of every `Strong`/`Emphasis` match are all equal to the token's `delimiter`
    attribute, which is `*` or `_`.

    This was false for the code as first pinned (`!\*[a*` gave an `Emphasis` whose opening delimiter
    was `[`; `**a *b**\` gave a `Strong` whose closing delimiter was `*\`); it holds for the code
    repaired by /repo commits 88886ba and 501955e, which this model follows: see the examples at the end of this file. -/
theorem C06_emphasis_delimiters (s : Str) (fn : Footnotes.Table)
    (ms : List CoreM) (codes : List InlineScan.CodeM) (h : findCoreTokens s fn = .ok (ms, codes)) :
    ∀ m ∈ ms, IsEmph m →
      (m.delimiter = '*' ∨ m.delimiter = '_') ∧
      (∀ k, m.start ≤ k → k < m.ts → s[k]? = some m.delimiter) ∧
      (∀ k, m.te ≤ k → k < m.stop → s[k]? = some m.delimiter) := by
  intro m hm he
  have hc := emphasis_chars s fn ms codes h m hm he
  exact ⟨hc.star, hc.opening, hc.closing⟩

/-! Non-vacuity: the kernel evaluates the model on concrete texts. -/

/-- the input that raised `IndexError` in the pinned code before `Delimiter.type` and `number`
    were kept in step -/
example : (findCoreTokens "**a****b*".toList []).isOk = true := by decide +kernel

/-- (start, text start, text end, end, kind) of the matches `find_core_tokens` returns, in the order
    they were appended; `none` if it failed -/
def spans (s : String) (fn : Footnotes.Table := []) : Option (List (Nat × Nat × Nat × Nat × Kind)) :=
  match findCoreTokens s.toList fn with
  | .ok (ms, _) => some (ms.map (fun m => (m.start, m.ts, m.te, m.stop, m.kind)))
  | .err _ => none

/-- what the historical crash input returns: one emphasis, `*b*` -/
example : spans "**a****b*" = some [(6, 7, 8, 9, .emphasis)] := by decide +kernel

/-- strong inside emphasis: `***a** b*` -/
example : spans "***a** b*" = some [(1, 3, 4, 6, .strong), (0, 1, 8, 9, .emphasis)] := by decide +kernel

/-- emphasis inside strong inside emphasis, with `_` and `*` mixed -/
example : spans "_x **y *z* y** x_" =
    some [(7, 8, 9, 10, .emphasis), (3, 5, 12, 14, .strong), (0, 1, 16, 17, .emphasis)] := by decide +kernel

/-- a link whose text contains emphasis, followed by emphasis -/
example : spans "[*a*](u) **b**" =
    some [(1, 2, 3, 4, .emphasis), (0, 1, 4, 8, .link), (9, 11, 12, 14, .strong)] := by decide +kernel

example : ∃ ks, Inline.tokenizeInner [.escapeSequence, .coreTokens, .inlineCode] [] "**a****b*".toList = .ok ks :=
  C06_tokenize_inner_total _ _ _

/-! The two theorems about emphasis apply to these results. -/

example : ∀ m ∈ [({ start := 1, stop := 6, kind := .strong, ts := 3, te := 4, dest := [], title := [], delimiter := '*' } : CoreM),
                  { start := 0, stop := 9, kind := .emphasis, ts := 1, te := 8, dest := [], title := [], delimiter := '*' }],
    IsEmph m → m.start < m.ts ∧ m.ts < m.te ∧ m.te < m.stop ∧ m.stop ≤ "***a** b*".toList.length ∧
      m.ts - m.start = m.stop - m.te ∧
      ((m.kind = .strong ∧ m.ts - m.start = 2) ∨ (m.kind = .emphasis ∧ m.ts - m.start = 1)) ∧
      "***a** b*".toList[m.start]? = some m.delimiter :=
  C06_emphasis_wellformed "***a** b*".toList [] _ [] (by decide +kernel)

example : ∀ m ∈ [({ start := 1, stop := 6, kind := .strong, ts := 3, te := 4, dest := [], title := [], delimiter := '*' } : CoreM),
                  { start := 0, stop := 9, kind := .emphasis, ts := 1, te := 8, dest := [], title := [], delimiter := '*' }],
    IsEmph m → (m.delimiter = '*' ∨ m.delimiter = '_') ∧
      (∀ k, m.start ≤ k → k < m.ts → "***a** b*".toList[k]? = some m.delimiter) ∧
      (∀ k, m.te ≤ k → k < m.stop → "***a** b*".toList[k]? = some m.delimiter) :=
  C06_emphasis_delimiters "***a** b*".toList [] _ [] (by decide +kernel)

/-! ### The inputs on which the delimiter-character clause failed before the repair

  * `!\*[a*` used to give an `Emphasis` `[3, 6)` with `delimiter = '['` (rendered
    `<p>!*<em>a</em></p>`): `in_image` survived the escaped `*`, so the `![` delimiter was built
    from `"*["`.  Now `in_image` is reset by an escaped character and by a code span.
  * `**a *b**\` used to give a `Strong` `[0, 9)` whose closing delimiter was `*\` (the trailing
    backslash was lost): the pending run was closed by `Delimiter(start, i, string)` without
    looking at `escaped`.  Now the run ends before the backslash.
  * `!` + a code span + `[a](b)` lost its link for the same reason as the first. -/

/-- no emphasis any more; `mistletoe.markdown` gives `<p>!*[a*</p>` -/
example : findCoreTokens "!\\*[a*".toList [] = .ok ([], []) := by decide +kernel

/-- two nested `Emphasis` whose delimiters are all `*`, the backslash stays outside;
    `mistletoe.markdown` gives `<p>*<em>a <em>b</em></em>\</p>` -/
example : findCoreTokens "**a *b**\\".toList [] =
    .ok ([{ start := 4, stop := 7, kind := .emphasis, ts := 5, te := 6, dest := [], title := [], delimiter := '*' },
          { start := 1, stop := 8, kind := .emphasis, ts := 2, te := 7, dest := [], title := [], delimiter := '*' }], []) := by
  decide +kernel

/-- the link after `!` and a code span is found -/
example : spans "!`x`[a](b)" = some [(4, 5, 6, 10, .link)] := by decide +kernel

/-! ### The opener bottoms of `process_emphasis` are sound (first clause of C06, step 1)

  `process_emphasis` records, per closer kind (delimiter character, whether the closer can also
  open, original run length modulo 3), a lower bound below which no opener has to be looked for
  (the specification's "openers_bottom"), and re-indexes the bounds after every match.  The
  theorems say this is only an optimisation: the opener found, the matches and the remaining
  delimiters are those of the plain algorithm that always searches down to the stack bottom
  (`emphLoopNB`, `processEmphasisNB`, `findCoreTokensNB` in Proofs/EmphSpec.lean). -/

/-- **The recorded bottoms never change which opener is found.**  `BInv sb ds bs curr` is the
    invariant of `bottoms`: every recorded bound lies below the current closer and not below the
    stack bottom, and no delimiter between the stack bottom and the bound is an opener that a
    closer with that key accepts.  It holds for the empty `bottoms` and is kept by every iteration
    (`BInv.step`).  Under it, searching down to the bound recorded for the closer's key finds the
    same opener as searching down to the stack bottom. -/
theorem C06_bottoms_sound (sb : Option Nat) (ds : List Delim) (bs : List (BKey × Option Nat)) (curr : Nat)
    (closer : Delim) (ch : Char) (hB : BInv sb ds bs curr)
    (hall : ∀ d ∈ ds, d.emph = true → d.type ≠ [])
    (hc : ds[curr]? = some closer) (hh : closer.type.head? = some ch) (hcl : closer.closes = true) :
    matchingOpener curr ds (bottomsGet bs (ch, closer.opens, closer.runLength % 3) sb) =
      matchingOpener curr ds sb :=
  bottoms_sound sb ds bs curr closer ch hB hall hc hh hcl

/-- **`process_emphasis` = `process_emphasis` without bottoms**, for every delimiter list that
    satisfies the chain invariant (well-formed, ordered, disjoint delimiters inside the string) and
    whose stack-bottom delimiter (the `[` / `![` of the link being closed) is not an emphasis
    delimiter: same matches, same remaining delimiters, same (absence of) error. -/
theorem C06_process_emphasis_no_bottoms (s : Str) (sb : Option Nat) (lo hi : Nat) (hhi : hi ≤ s.length)
    (ds : List Delim) (ms : List CoreM) (hC : Chain lo hi ds)
    (hsb : ∀ x d, sb = some x → ds[x]? = some d → d.emph = false) :
    processEmphasis s sb ds ms = processEmphasisNB s sb ds ms :=
  processEmphasis_eq_noBottoms s sb lo hi hhi ds ms hC hsb

/-- **`find_core_tokens` does not depend on the bottoms**, unconditionally: for every text and every
    table of definitions, it returns exactly what it returns when every `process_emphasis` call
    (those made by `find_link_image` and the final one) searches openers down to the stack bottom
    without any bottoms bookkeeping. -/
theorem C06_find_core_tokens_no_bottoms (s : Str) (fn : Footnotes.Table) :
    findCoreTokens s fn = findCoreTokensNB s fn :=
  findCoreTokens_eq_noBottoms s fn

/-- non-vacuity: the loop without bottoms evaluates; here closers fail to find an opener (which
    records bottoms in the real loop) before later closers match -/
example : (match findCoreTokensNB "a* *b c* **d* e**".toList [] with
    | .ok (ms, _) => some (ms.map (fun m => (m.start, m.ts, m.te, m.stop, m.kind)))
    | .err _ => none) =
    some [(3, 4, 7, 8, .emphasis), (10, 11, 12, 13, .emphasis), (9, 10, 15, 16, .emphasis)] := by decide +kernel

example : findCoreTokens "a* *b c* **d* e**".toList [] = findCoreTokensNB "a* *b c* **d* e**".toList [] :=
  C06_find_core_tokens_no_bottoms _ _

/-- the invariant of `bottoms` holds at the start of every `process_emphasis` -/
example (sb : Option Nat) (ds : List Delim) (curr : Nat) : BInv sb ds [] curr := fun e he => by cases he

/-! ### The matches are the specification's

  `Mistletoe/Spec/Emphasis.lean` is an independent formal reading of CommonMark 0.30 section 6.2 and of the appendix
  "An algorithm for parsing nested emphasis and links" (delimiter runs, left/right flanking with the specification's
  own definition of Unicode whitespace, the restrictions on `_`, *process emphasis* with `openers_bottom`, the rule of
  three on original run lengths, strong iff both runs have two or more delimiters left).  It does not import the model
  of core_tokens.py; 114 of the 131 examples of that section are kernel-evaluated against it in the file itself, and
  the harness ties it to the Python oracle (harness/spec_emph.py) on every run (unit `spec.emph`). -/

open Mistletoe.EmphRefine in
/-- **The emphasis structure is the specification's.**  For every inline text `s` without backslash, backquote,
    brackets, `<` and `&` (`Spec.Emphasis.plain`: the property's "letters, spaces, punctuation and runs of `*` and
    `_`") that contains none of the eight code points U+000B, U+001C-U+001F, U+0085, U+2028, U+2029 (`StdWs`, see
    `C06_whitespace_deviation`), and every table of definitions: `find_core_tokens(s, root)` does not fail, returns no
    code span, and its matches are - one for one, in the order found - the emphasis nodes the specification's algorithm
    computes for `s`: same opening delimiter `[start, ts)`, same closing delimiter `[te, stop)`, same kind. -/
theorem C06_emphasis_is_spec_partial (s : Str) (fn : Footnotes.Table) (hp : Spec.Emphasis.plain s = true) (hw : StdWs s) :
    ∃ ms, findCoreTokens s fn = .ok (ms, []) ∧
      ms = (Spec.Emphasis.emphasis s).map (toCoreM s) ∧
      (∀ m ∈ ms, m.kind = .strong ∨ m.kind = .emphasis) ∧
      ms.map (fun m => (m.start, m.ts, m.te, m.stop, m.kind == .strong)) = Spec.Emphasis.spans s :=
  Mistletoe.EmphRefine.C06_emphasis_is_spec_partial s fn hp hw

open Mistletoe.EmphRefine in
/-- **… with backslash escapes** (`Spec/EmphasisEsc.lean`: after an unescaped backslash an ASCII punctuation character is
    escaped, anything else leaves the backslash literal; delimiter runs are made of UNescaped `*`/`_` only; flanking reads the
    source characters next to the run; the same *process emphasis*): for every text without backquote, brackets, `<`, `&`
    - backslashes allowed - and without the eight exotic whitespace code points, the matches of `find_core_tokens` are, one
    for one and in order, the specification's emphasis nodes. -/
theorem C06_emphasis_is_spec_esc_partial (s : Str) (fn : Footnotes.Table) (hp : Spec.EmphasisEsc.plainEsc s = true) (hw : StdWs s) :
    ∃ ms, findCoreTokens s fn = .ok (ms, []) ∧
      ms = (Spec.EmphasisEsc.emphasisEsc s).map (toCoreM s) ∧
      (∀ m ∈ ms, m.kind = .strong ∨ m.kind = .emphasis) ∧
      ms.map (fun m => (m.start, m.ts, m.te, m.stop, m.kind == .strong)) = Spec.EmphasisEsc.spansEsc s :=
  Mistletoe.EmphRefineEsc.C06_emphasis_is_spec_esc_partial s fn hp hw

/-- the two specifications coincide on texts without backslash -/
theorem C06_specs_coincide (s : Str) (hp : Spec.Emphasis.plain s = true) :
    Spec.EmphasisEsc.emphasisEsc s = Spec.Emphasis.emphasis s :=
  Mistletoe.EmphRefineEsc.emphasisEsc_plain s hp

open Mistletoe.EmphRefine in
/-- without the whitespace hypothesis: `find_core_tokens` is the specification's *process emphasis* run on the
    specification's delimiter runs classified by mistletoe's own `is_opener` / `is_closer` (`runsM`) -/
theorem C06_emphasis_is_spec_process (s : Str) (fn : Footnotes.Table) (hp : Spec.Emphasis.plain s = true) :
    findCoreTokens s fn = .ok ((Spec.Emphasis.process (runsM s)).map (toCoreM s), []) :=
  findCoreTokens_process s fn hp

open Mistletoe.EmphRefine in
/-- **Where mistletoe and the specification differ**: `core_tokens.unicode_whitespace` is the specification's Unicode
    whitespace plus eight code points (control characters and line/paragraph separators) the specification does not
    count as whitespace; next to a delimiter run they change the flanking: `*␟a*` (U+001F) stays literal in mistletoe
    and is emphasis in the specification.  Kernel-evaluated on the model and the Lean specification; reproduced on the
    real code by the harness (`c06.theorem` note).  Control characters are outside the property's alphabet. -/
theorem C06_whitespace_deviation :
    (∀ c : Char, uniWs c = (Spec.Emphasis.isUnicodeWhitespace c || deviantWs c)) ∧
    Spec.Emphasis.plain "*\x1fa*".toList = true ∧ findCoreTokens "*\x1fa*".toList [] = .ok ([], []) ∧
    Spec.Emphasis.spans "*\x1fa*".toList = [(0, 1, 3, 4, false)] :=
  ⟨uniWs_eq, not_refines_deviant⟩


end Mistletoe.Props.C06
