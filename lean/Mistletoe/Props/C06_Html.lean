/-
  C06 (the <em>/<strong> structure of the OUTPUT) — property theorems only; the proofs are in Proofs/EmphHtml.lean (which
  builds on Props/C06.lean, Props/C14.lean and Proofs/RefResolve.lean, hence this second file).

  Props/C06.lean shows that the MATCHES `find_core_tokens` returns are the emphasis nodes of the specification
  (`Spec/Emphasis.lean`, with backslash escapes `Spec/EmphasisEsc.lean`).  The property speaks of the output.  Here: the span
  resolver (`span_tokenizer.tokenize`: ordering, nesting by parse group, gap filling), the token builder and the HTML renderer
  turn those matches into `<em>` / `<strong>` elements nested exactly as the specification's spans, around the escaped text.
  `Spec.EmphasisHtml.specHtmlQ dq sq s` is the specification's HTML, defined from the text, the specification's span list and
  the character escaper only (a walk over the positions: opening tag of the span that starts here, the escaped character
  unless it belongs to a delimiter or is an escaping backslash, closing tag of the span that stops here); it is
  kernel-checked against the expected HTML of spec examples inside Proofs/EmphHtml.lean.
  Hypotheses beyond those of Props/C06.lean: one line (no "\n": a line ending in two spaces would be a hard break) and no
  `~~` (strikethrough is a GFM construct the 6.2 algorithm does not know) - both have kernel-checked counterexamples that
  reproduce on the real code, with model and code agreeing.
-/
import Mistletoe.Proofs.EmphHtml
namespace Mistletoe.Props.C06H
open Mistletoe Mistletoe.Py Mistletoe.Span Mistletoe.Inline Mistletoe.Html Mistletoe.Escape Mistletoe.Spec.EmphasisHtml
open Mistletoe.Core Mistletoe.InertInline Mistletoe.RefResolve Mistletoe.InlineScan Mistletoe.Spec.EmphasisEsc Mistletoe.EmphHtml
open Mistletoe.Props.C14 (inertLine)

/-- **The output of the inline phase is the specification's HTML**: for every one-line text of the property's alphabet
    (no backslash, backquote, bracket, `<`, `&`; standard whitespace; no `~~`), every span-token list of covered classes with
    `CoreTokens` once and every table of definitions, `tokenize_inner` returns tokens whose HTML rendering is `specHtmlQ`,
    for every quote option: `<em>` / `<strong>` exactly where the specification's algorithm puts them, nested as it nests them. -/
theorem C06_html_is_spec_partial (types : List STok) (fn : Footnotes.Table) (s : Str)
    (hp : Spec.Emphasis.plain s = true) (hw : EmphRefine.stdWs s = true) (hnl : '\n' ∉ s) (htl : tildeOk s = true)
    (ht : ∀ t ∈ types, inertClass t = true) (hc : types.count .coreTokens = 1) :
    ∃ ks, tokenizeInner types fn s = .ok ks ∧
      ∀ q : Quotes, flat (renderInlines q ks) = specHtmlQ q.dq q.sq s :=
  emph_html_is_spec types fn s hp hw hnl htl ht hc

/-- the same with backslash escapes (the property's whole alphabet except brackets): an escaping backslash is dropped, the
    escaped character is literal text -/
theorem C06_html_is_spec_esc_partial (types : List STok) (fn : Footnotes.Table) (s : Str)
    (hp : plainEsc s = true) (hw : EmphRefine.stdWs s = true) (hnl : '\n' ∉ s) (htl : tildeOk s = true)
    (ht : ∀ t ∈ types, inertClass t = true) (hc : types.count .coreTokens = 1)
    (he : types.count .escapeSequence = 1) :
    ∃ ks, tokenizeInner types fn s = .ok ks ∧
      ∀ q : Quotes, flat (renderInlines q ks) = specHtmlEscQ q.dq q.sq s :=
  emph_html_is_spec_esc types fn s hp hw hnl htl ht hc he

/-- **At document level**, through the parse-and-render pipeline of the working tree's HTML configuration: a one-line paragraph
    `s` of the alphabet renders as `<p>` + the specification's HTML of `s` + `</p>`. -/
theorem C06_paragraph_html_is_spec_partial (o : Opts) (gas : Nat) (s : Str)
    (hp : Spec.Emphasis.plain s = true) (hw : EmphRefine.stdWs s = true) (htl : tildeOk s = true)
    (h1 : oneLine (s ++ ['\n']) = true) (hl : inertLine (s ++ ['\n']) = true) :
    Config.renderHtml o (gas + 14) (s ++ ['\n']) =
      some ("<p>".toList ++ specHtmlQ o.dq o.sq (strip s) ++ "</p>\n".toList) :=
  Mistletoe.EmphHtml.C06_paragraph_html_is_spec_partial o gas s hp hw htl h1 hl

theorem C06_paragraph_html_is_spec_esc_partial (o : Opts) (gas : Nat) (s : Str)
    (hp : Spec.EmphasisEsc.plainEsc s = true) (hw : EmphRefine.stdWs s = true) (htl : tildeOk s = true)
    (h1 : oneLine (s ++ ['\n']) = true) (hl : inertLine (s ++ ['\n']) = true) :
    Config.renderHtml o (gas + 14) (s ++ ['\n']) =
      some ("<p>".toList ++ specHtmlEscQ o.dq o.sq (strip s) ++ "</p>\n".toList) :=
  Mistletoe.EmphHtml.C06_paragraph_html_is_spec_esc_partial o gas s hp hw htl h1 hl

end Mistletoe.Props.C06H
