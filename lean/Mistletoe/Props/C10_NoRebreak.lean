/-
  C10 (code blocks, HTML blocks, tables and ATX headings are not re-broken) — property theorems only; the proofs are in
  Proofs/NoRebreak.lean (about the model of markdown_renderer.py alone).

  For EVERY token tree (not only parsed ones), every limit and every option set.  `rigid`: the block kinds whose render method
  never looks at `max_line_length` - ATX heading (`span_to_lines(..., max_line_length=None)`), indented and fenced code,
  HTML block, table (cells rendered without a limit), thematic break, blank line.  `rigidDeep`: a rigid leaf, or a quote / list /
  list item all of whose descendants are `rigidDeep` (containers hand a smaller budget down, their rigid content ignores it,
  and the prefixing never sees the limit).  The classification is exact: paragraphs, setext headings and link reference
  definitions ARE re-broken (kernel-checked examples in the proof file).
-/
import Mistletoe.Proofs.NoRebreak
namespace Mistletoe.Props.C10N
open Mistletoe Mistletoe.Wrap Mistletoe.Markdown Mistletoe.Proofs.NoRebreak

/-- **A rigid block renders to the same lines under any two limits and option sets** (error case included). -/
theorem C10_not_rebroken_leaf (b : Block) (h : rigid b = true) (o1 o2 : Opts) (m1 m2 : Option Int) :
    renderBlock o1 m1 b = renderBlock o2 m2 b :=
  Mistletoe.Proofs.NoRebreak.C10_not_rebroken_leaf b h o1 o2 m1 m2

/-- the same for containers all of whose content is rigid (same `normalize_whitespace`: a list item's prefix depends on it) -/
theorem C10_not_rebroken_deep (b : Block) (h : rigidDeep b = true) (o1 o2 : Opts)
    (hn : o1.normalizeWhitespace = o2.normalizeWhitespace) (m1 m2 : Option Int) :
    renderBlock o1 m1 b = renderBlock o2 m2 b :=
  Mistletoe.Proofs.NoRebreak.C10_not_rebroken_deep b h o1 o2 hn m1 m2

/-- **A document of such blocks renders to the same text - or raises the same exception - whatever `max_line_length`.** -/
theorem C10_not_rebroken_document (d : Doc) (h : rigidDeepAll d.kids = true) (o1 o2 : Opts)
    (hn : o1.normalizeWhitespace = o2.normalizeWhitespace) :
    renderRes o1 d = renderRes o2 d ∧ render o1 d = render o2 d :=
  Mistletoe.Proofs.NoRebreak.C10_not_rebroken_document d h o1 o2 hn

/-- **In an arbitrary document** the output with a limit and the output without are the joined lines of two piece sequences
    (quotes and lists are transparent) of equal length that agree on every piece that comes from a rigid block - only
    paragraphs, setext headings and link reference definitions differ. -/
theorem C10_not_rebroken_mixed_document (d : Doc) (o : Opts) (L : Int) (s1 : Str)
    (h1 : renderRes { o with maxLineLength := some L } d = .ok s1) :
    ∃ (s2 : Str) (p1 p2 : List (Bool × List Str)),
      renderRes { o with maxLineLength := none } d = .ok s2 ∧
      s1 = joinLines (flat p1) ∧ s2 = joinLines (flat p2) ∧
      piecesL { o with maxLineLength := some L } (some L) d.kids = .ok p1 ∧
      piecesL { o with maxLineLength := none } none d.kids = .ok p2 ∧ p1.length = p2.length ∧
      ∀ (i : Nat) (ls : List Str), p1[i]? = some (true, ls) ↔ p2[i]? = some (true, ls) :=
  Mistletoe.Proofs.NoRebreak.C10_not_rebroken_mixed_document d o L s1 h1

/-- an ARBITRARY block raises under one limit exactly when it raises under another (the same exception) -/
theorem C10_errOf_any (o : Opts) (m1 m2 : Option Int) (b : Block) :
    errOf (renderBlock o m1 b) = errOf (renderBlock o m2 b) :=
  Mistletoe.Proofs.NoRebreak.C10_errOf_any o m1 m2 b

end Mistletoe.Props.C10N
