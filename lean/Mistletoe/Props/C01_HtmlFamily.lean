/-
  C01 (the HTML family of renderers never meets a token it cannot render) — property theorems only; the proofs are in
  Proofs/HtmlFamilyTotal.lean (which builds on Proofs/ContribSame.lean and Proofs/HtmlEndToEnd.lean, hence this file).

  `Html.render` / `Html.renderFlavored` (the model of HtmlRenderer, TocRenderer, GithubWikiRenderer, MathJaxRenderer,
  PygmentsRenderer) are total functions to strings; the trees on which the PYTHON raises - a token class without a
  `render_map` entry (a Math token handed to the plain HtmlRenderer: KeyError), a `column_align` entry outside None / 0 / 1,
  a table header that is not a row of cells - are described by the decidable predicate `Html.supported`.  `C01_html_total`
  (Props/C01.lean) says the model function returns; the theorems here say that every PARSED document is supported by the
  renderer whose token lists it was parsed with, so the Python finds a render method for every token and returns that
  string.  Pygments is outside the model (`highlight`, lexers): for it `supported` is, exactly, "no code block".
-/
import Mistletoe.Proofs.HtmlFamilyTotal
namespace Mistletoe.Props.C01F
open Mistletoe Mistletoe.Block Mistletoe.Lines Mistletoe.Html Mistletoe.HtmlFamily Mistletoe.Props.C01

/-- **Parse-and-render with a renderer of the HTML family returns a string for every text**: with the token lists the
    renderer installs (regenerated from /repo) and enough gas, `Document(text)` returns a document `d`, `d` is supported by
    that renderer (`famSide`: code blocks aside for Pygments, no condition otherwise), and the renderer returns
    `Html.renderFlavored (famOpts f o) d`. -/
theorem C01_html_family_total (f : Flavor) (o : Opts) (cfg : Document.Cfg) (hc : Config.ofFlavor f = some cfg)
    (gas : Nat) (t : Str) (hg : gasBound cfg.block (docBuf (normalize (.str t))) ≤ gas) :
    ∃ d, Document.parse cfg gas t = .ok d ∧ supported (famOpts f o) d = famSide f d ∧
      Config.renderContrib (Config.ofFlavor f) (famOpts f o) gas t = some (renderFlavored (famOpts f o) d) :=
  Mistletoe.Props.C01.C01_html_family_total f o cfg hc gas t hg

/-- for the four flavours other than Pygments there is no side condition -/
theorem C01_html_family_no_raise (f : Flavor) (hf : f ≠ .pygments) (o : Opts) (cfg : Document.Cfg)
    (hc : Config.ofFlavor f = some cfg) (gas : Nat) (t : Str) (hg : gasBound cfg.block (docBuf (normalize (.str t))) ≤ gas) :
    ∃ d, Document.parse cfg gas t = .ok d ∧ supported (famOpts f o) d = true :=
  Mistletoe.Props.C01.C01_html_family_total' f hf o cfg hc gas t hg

/-- **HtmlRenderer(process_html_tokens=False)**: a parsed document holds no HtmlBlock / HtmlSpan token and is supported by
    the renderer WITHOUT the two HTML `render_map` entries. -/
theorem C01_html_noraw_total (o : Opts) (cfg : Document.Cfg) (hc : Config.htmlNoRaw = some cfg)
    (gas : Nat) (t : Str) (hg : gasBound cfg.block (docBuf (normalize (.str t))) ≤ gas) :
    ∃ d, Document.parse cfg gas t = .ok d ∧ supported { o with flavor := .html, processHtml := false } d = true ∧
      Config.renderHtmlNoRaw { o with flavor := .html, processHtml := false } gas t =
        some (render { o with flavor := .html, processHtml := false } d) :=
  Mistletoe.Props.C01.C01_html_noraw_total o cfg hc gas t hg

/-- **the general form**: ANY configuration without BlankLine / LinkReferenceDefinitionBlock whose span classes the flavour
    renders (e.g. `GithubWikiRenderer(process_html_tokens=False)`, which is not among the regenerated configurations). -/
theorem C01_html_family_supported_general (o : Opts) (hpy : o.flavor ≠ .pygments) (cfg : Document.Cfg)
    (hbl : .blankLine ∉ cfg.block.types) (hlr : .linkRefDefBlock ∉ cfg.block.types)
    (hhb : o.processHtml = true ∨ .htmlBlock ∉ cfg.block.types)
    (hsp : ∀ t ∈ cfg.span, clsH o t = true)
    (gas : Nat) (t : Str) (d : Doc) (h : Document.parse cfg gas t = .ok d) : supported o d = true :=
  Mistletoe.Props.C01.C01_html_family_supported_general o hpy cfg hbl hlr hhb hsp gas t d h

/-- the configurations exist: the regenerated lists are known to the model -/
example : ∀ f, (Config.ofFlavor f).isSome = true := by intro f; cases f <;> decide +kernel

end Mistletoe.Props.C01F
