/-
  C03 — Documents built from Markdown constructs parse to the tree they were built from.

  "When a document is written out from an arbitrary tree of CommonMark/GFM constructs … in any spelling
  the specification allows for that tree, the rendered HTML is equivalent to the HTML written directly
  from the tree."

  Proved here (`_partial`): a COMPOSITIONAL theorem for a fragment of the grammar, at every nesting depth,
  by induction over the tree from the theorems of C14 (inert lines form one paragraph; inert text is one
  RawText), C04 (lines behind a quote marker are one Quote around the parse of the unmarked lines) and
  C05 (blocks separated by a blank line are independent), plus the dispatch on an ATX heading line and on
  a thematic-break line (`Proofs/Compose.lean`).

  INSIDE the fragment (tree type `T`, well-formedness `T.ok`, decidable):
    * paragraphs: one or more lines, each with 0–3 spaces of indentation, of words and punctuation with no
      block meaning (`inertLine`) and no inline meaning (`inertBody`): soft line breaks only;
    * ATX headings, levels 1–6, in ANY spelling the dispatcher accepts for that level and text (`headLine`:
      0–3 spaces of indent, one or more spaces after the `#`s, optional closing `#` run, trailing spaces);
      the text is inline-inert;
    * thematic breaks in ANY spelling the dispatcher accepts (`hrLine`: `***`, `- - -`, `  _____  `, …);
    * block quotes, nested to any depth, containing any of these; marker "> " before every line, or ">"
      before every line when no line of the content begins with a space;
    * siblings separated by exactly one empty line.
  Spelling choices covered: indent of paragraph lines, the whole spelling of heading and rule lines,
  '>' with or without space.  Equality of the HTML is literal (stronger than the normalised equivalence).

  OUTSIDE (not covered by any statement here): setext headings, fenced and indented code, lists, tables,
  HTML blocks, link reference definitions; every inline construct other than text and soft breaks
  (emphasis, strong, strikethrough, code spans, links, images, autolinks, hard breaks, escapes, character
  references, raw HTML); lazy continuation lines; blocks that follow a paragraph without a blank line;
  more than one blank line between siblings; tabs (C04's restriction); a per-line mixture of "> " and ">".

  Token lists: the HTML renderer's (`Config.html`, regenerated from /repo; its block list is
  `C14.defaultTypes`), either value of `tableInterrupt`.  Gas: `needs ts` (explicit) or more.
-/
import Mistletoe.Proofs.Compose
namespace Mistletoe.Props.C03
open Mistletoe Mistletoe.Py Mistletoe.Block Mistletoe.Compose Mistletoe.Html
open Mistletoe.InertInline (inertClass)

/-- **The block phase parses a written tree back (partial: fragment above).**  For every well-formed
    forest `ts` (any depth), either `tableInterrupt`, and every gas ≥ `needs ts`: the block phase on the
    written lines returns exactly the expected entries — one per top-level node, quotes holding the
    entries of their children recursively, every entry reporting the line the writer put it on — the
    buffer is loose exactly when there is more than one top-level node, and no link definition is found. -/
theorem C03_block_phase_partial (ti : Bool) (ts : List T) (h : T.oks ts = true) (hne : ts ≠ []) (gas : Nat)
    (hg : needs ts ≤ gas) :
    blockPhase { types := Props.C14.defaultTypes, tableInterrupt := ti } gas (writes ts) =
      .ok ({ entries := entriesOf 1 ts, loose := decide (1 < ts.length) }, {}) := by
  obtain ⟨g, rfl⟩ : ∃ g, gas = needs ts + g := ⟨gas - needs ts, by omega⟩
  exact blockPhase_writes ti ts h hne g

/-- the same at an arbitrary place: lines numbered from `k + 1`, any state (in particular inside a quote,
    where `Paragraph.parse_setext` is off); a quote among the nodes switches `parse_setext` back on -/
theorem C03_tokenize_partial (ti : Bool) (ts : List T) (h : T.oks ts = true) (hne : ts ≠ []) (k : Nat) (st : St) (g : Nat) :
    tokenizeBlock { types := Props.C14.defaultTypes, tableInterrupt := ti } (needs ts + g)
        (Props.C14.numbered k (writes ts)) (k + 1) st =
      .ok ({ entries := entriesOf (k + 1) ts, loose := decide (1 < ts.length) },
           { setext := st.setext || ts.any isQuote, defs := st.defs }) :=
  nodes_tokenize ti ts h hne k st g

/-- **`Document(lines)` is the tree (partial).**  For a configuration whose block token list is the default
    one and whose span token classes are covered ones with `LineBreak` once (e.g. the HTML renderer's):
    the document's children are the expected block tokens — paragraphs holding their stripped lines as
    `RawText`s with soft `LineBreak`s between, headings holding their text as one `RawText`, thematic
    breaks, quotes holding their children — each with the line number the writer put it on; no footnotes. -/
theorem C03_document_partial (cfg : Document.Cfg) (ti : Bool)
    (hb : cfg.block = { types := Props.C14.defaultTypes, tableInterrupt := ti })
    (ht : ∀ t ∈ cfg.span, inertClass t = true) (hc : cfg.span.count .lineBreak = 1)
    (ts : List T) (h : T.oks ts = true) (hne : ts ≠ []) (gas : Nat) (hg : needs ts ≤ gas) :
    Document.parseLines cfg gas (writes ts) = .ok { kids := blocksOf 1 ts, footnotes := [] } ∧
    Document.parse cfg gas (writes ts).flatten = .ok { kids := blocksOf 1 ts, footnotes := [] } := by
  obtain ⟨g, rfl⟩ : ∃ g, gas = needs ts + g := ⟨gas - needs ts, by omega⟩
  exact ⟨parseLines_writes cfg ti hb ht hc ts h hne g, parse_writes cfg ti hb ht hc ts h hne g⟩

/-- **The HTML of the expected document is the HTML written directly from the tree**, for every quote option. -/
theorem C03_render_partial (o : Opts) (ts : List T) (hne : ts ≠ []) (fn : List (Str × Str × Str)) :
    render o { kids := blocksOf 1 ts, footnotes := fn } = htmlOf o ts :=
  render_blocksOf o ts hne fn

/-- **End to end (partial).**  `HtmlRenderer(**opts).render(Document(text))`, with the token lists the HTML
    renderer installs in the working tree, on the text written out from a well-formed forest, returns the
    HTML written directly from the forest: `<p>`/`<hN>` around the escaped text, `<hr />`,
    `<blockquote>` around the children, one newline after every block. -/
theorem C03_html_partial (o : Opts) (ts : List T) (h : T.oks ts = true) (hne : ts ≠ []) (gas : Nat) (hg : needs ts ≤ gas) :
    Config.renderHtml o gas (writes ts).flatten = some (htmlOf o ts) := by
  obtain ⟨g, rfl⟩ : ∃ g, gas = needs ts + g := ⟨gas - needs ts, by omega⟩
  exact renderHtml_writes o ts h hne g

/-- **Any two spellings of the same tree render the same HTML (partial)**, namely the HTML written from
    the tree without its spelling (`shape`: paragraph text, heading level and text, rule, quote). -/
theorem C03_spelling_independent_partial (o : Opts) (ts ts' : List T) (h : T.oks ts = true) (h' : T.oks ts' = true)
    (hne : ts ≠ []) (hs : shapes ts = shapes ts') (gas : Nat) (hg : needs ts ≤ gas) (hg' : needs ts' ≤ gas) :
    Config.renderHtml o gas (writes ts).flatten = some (htmlAs o.q (shapes ts)) ∧
    Config.renderHtml o gas (writes ts').flatten = Config.renderHtml o gas (writes ts).flatten := by
  have hne' : ts' ≠ [] := by
    intro e; subst e
    cases ts with
    | nil => exact hne rfl
    | cons t r => simp [shapes] at hs
  rw [C03_html_partial o ts h hne gas hg, C03_html_partial o ts' h' hne' gas hg']
  simp only [htmlOf, htmlKids_shapes, hs, and_self]

end Mistletoe.Props.C03
