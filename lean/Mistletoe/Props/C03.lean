/-
  C03 — Documents built from Markdown constructs parse to the tree they were built from.

  "When a document is written out from an arbitrary tree of CommonMark/GFM constructs … in any spelling
  the specification allows for that tree, the rendered HTML is equivalent to the HTML written directly
  from the tree."

  Proved here (`_partial`): a COMPOSITIONAL theorem for a fragment of the grammar, at every nesting depth,
  by induction over the tree from the theorems of C14 (inert lines form one paragraph; inert text is one
  RawText), C04 (lines behind a quote marker are one Quote around the parse of the unmarked lines) and
  C05 (blocks separated by a blank line are independent), plus the dispatch on an ATX heading line and on
  a thematic-break line (`Proofs/Compose.lean`).

  INSIDE the fragment (tree type `T`, well-formedness `T.ok`, decidable):
    * paragraphs: one or more lines, each with 0–3 spaces of indentation, of words and punctuation with no
      block meaning (`inertLine`) and no inline meaning (`inertBody`): soft line breaks only;
    * ATX headings, levels 1–6, in ANY spelling the dispatcher accepts for that level and text (`headLine`:
      0–3 spaces of indent, one or more spaces after the `#`s, optional closing `#` run, trailing spaces);
      the text is inline-inert;
    * thematic breaks in ANY spelling the dispatcher accepts (`hrLine`: `***`, `- - -`, `  _____  `, …);
    * block quotes, nested to any depth, containing any of these; marker "> " before every line, or ">"
      before every line when no line of the content begins with a space;
    * siblings separated by exactly one empty line.
  Spelling choices covered: indent of paragraph lines, the whole spelling of heading and rule lines,
  '>' with or without space.  Equality of the HTML is literal (stronger than the normalised equivalence).

  OUTSIDE (not covered by any statement here): setext headings, fenced and indented code, lists, tables,
  HTML blocks, link reference definitions; every inline construct other than text and soft breaks
  (emphasis, strong, strikethrough, code spans, links, images, autolinks, hard breaks, escapes, character
  references, raw HTML); lazy continuation lines; blocks that follow a paragraph without a blank line;
  more than one blank line between siblings; tabs (C04's restriction); a per-line mixture of "> " and ">".

  Token lists: the HTML renderer's (`Config.html`, regenerated from /repo; its block list is
  `C14.defaultTypes`), either value of `tableInterrupt`.  Gas: `needs ts` (explicit) or more.
-/
import Mistletoe.Proofs.Compose
namespace Mistletoe.Props.C03
open Mistletoe Mistletoe.Py Mistletoe.Block Mistletoe.Compose Mistletoe.Html
open Mistletoe.InertInline (inertClass)

/-- **The block phase parses a written tree back (partial: fragment above).**  For every well-formed
    forest `ts` (any depth), either `tableInterrupt`, and every gas ≥ `needs ts`: the block phase on the
    written lines returns exactly the expected entries — one per top-level node, quotes holding the
    entries of their children recursively, every entry reporting the line the writer put it on — the
    buffer is loose exactly when there is more than one top-level node, and no link definition is found. -/
theorem C03_block_phase_partial (ti : Bool) (ts : List T) (h : T.oks ts = true) (hne : ts ≠ []) (gas : Nat)
    (hg : needs ts ≤ gas) :
    blockPhase { types := Props.C14.defaultTypes, tableInterrupt := ti } gas (writes ts) =
      .ok ({ entries := entriesOf 1 ts, loose := decide (1 < ts.length) }, {}) := by
  obtain ⟨g, rfl⟩ : ∃ g, gas = needs ts + g := ⟨gas - needs ts, by omega⟩
  exact blockPhase_writes ti ts h hne g

/-- the same at an arbitrary place: lines numbered from `k + 1`, any state (in particular inside a quote,
    where `Paragraph.parse_setext` is off); a quote among the nodes switches `parse_setext` back on -/
theorem C03_tokenize_partial (ti : Bool) (ts : List T) (h : T.oks ts = true) (hne : ts ≠ []) (k : Nat) (st : St) (g : Nat) :
    tokenizeBlock { types := Props.C14.defaultTypes, tableInterrupt := ti } (needs ts + g)
        (Props.C14.numbered k (writes ts)) (k + 1) st =
      .ok ({ entries := entriesOf (k + 1) ts, loose := decide (1 < ts.length) },
           { setext := st.setext || ts.any isQuote, defs := st.defs }) :=
  nodes_tokenize ti ts h hne k st g

/-- **`Document(lines)` is the tree (partial).**  For a configuration whose block token list is the default
    one and whose span token classes are covered ones with `LineBreak` once (e.g. the HTML renderer's):
    the document's children are the expected block tokens — paragraphs holding their stripped lines as
    `RawText`s with soft `LineBreak`s between, headings holding their text as one `RawText`, thematic
    breaks, quotes holding their children — each with the line number the writer put it on; no footnotes. -/
theorem C03_document_partial (cfg : Document.Cfg) (ti : Bool)
    (hb : cfg.block = { types := Props.C14.defaultTypes, tableInterrupt := ti })
    (ht : ∀ t ∈ cfg.span, inertClass t = true) (hc : cfg.span.count .lineBreak = 1)
    (ts : List T) (h : T.oks ts = true) (hne : ts ≠ []) (gas : Nat) (hg : needs ts ≤ gas) :
    Document.parseLines cfg gas (writes ts) = .ok { kids := blocksOf 1 ts, footnotes := [] } ∧
    Document.parse cfg gas (writes ts).flatten = .ok { kids := blocksOf 1 ts, footnotes := [] } := by
  obtain ⟨g, rfl⟩ : ∃ g, gas = needs ts + g := ⟨gas - needs ts, by omega⟩
  exact ⟨parseLines_writes cfg ti hb ht hc ts h hne g, parse_writes cfg ti hb ht hc ts h hne g⟩

/-- **The HTML of the expected document is the HTML written directly from the tree**, for every quote option. -/
theorem C03_render_partial (o : Opts) (ts : List T) (hne : ts ≠ []) (fn : List (Str × Str × Str)) :
    render o { kids := blocksOf 1 ts, footnotes := fn } = htmlOf o ts :=
  render_blocksOf o ts hne fn

/-- **End to end (partial).**  `HtmlRenderer(**opts).render(Document(text))`, with the token lists the HTML
    renderer installs in the working tree, on the text written out from a well-formed forest, returns the
    HTML written directly from the forest: `<p>`/`<hN>` around the escaped text, `<hr />`,
    `<blockquote>` around the children, one newline after every block. -/
theorem C03_html_partial (o : Opts) (ts : List T) (h : T.oks ts = true) (hne : ts ≠ []) (gas : Nat) (hg : needs ts ≤ gas) :
    Config.renderHtml o gas (writes ts).flatten = some (htmlOf o ts) := by
  obtain ⟨g, rfl⟩ : ∃ g, gas = needs ts + g := ⟨gas - needs ts, by omega⟩
  exact renderHtml_writes o ts h hne g

/-- **Any two spellings of the same tree render the same HTML (partial)**, namely the HTML written from
    the tree without its spelling (`shape`: paragraph text, heading level and text, rule, quote). -/
theorem C03_spelling_independent_partial (o : Opts) (ts ts' : List T) (h : T.oks ts = true) (h' : T.oks ts' = true)
    (hne : ts ≠ []) (hs : shapes ts = shapes ts') (gas : Nat) (hg : needs ts ≤ gas) (hg' : needs ts' ≤ gas) :
    Config.renderHtml o gas (writes ts).flatten = some (htmlAs o.q (shapes ts)) ∧
    Config.renderHtml o gas (writes ts').flatten = Config.renderHtml o gas (writes ts).flatten := by
  have hne' : ts' ≠ [] := by
    intro e; subst e
    cases ts with
    | nil => exact hne rfl
    | cons t r => simp [shapes] at hs
  rw [C03_html_partial o ts h hne gas hg, C03_html_partial o ts' h' hne' gas hg']
  simp only [htmlOf, htmlKids_shapes, hs, and_self]

/-! ### Non-vacuity: a forest of depth 3 in two spellings -/

def L (s : String) : Str := s.toList

/-- heading; two-line paragraph with inert punctuation (indented first line); a quote ("> ") holding a
    heading with a closing `#` run, a nested quote (">") holding a paragraph and a rule, and a rule `- - -`;
    a rule `___` -/
def sample : List T := [
  .heading 1 (L "Title: a_b * c") (atx 1 (L "Title: a_b * c")),
  .para [L "  first line, 3.14) x | y # z\n", L "second & AT&T <, \"q\"\n"],
  .quote false [
    .heading 2 (L "Inner") (L "  ## Inner ##  \n"),
    .quote true [.para [L "deep text\n"], .hr (L "***\n")],
    .hr (L " - - -\n")],
  .hr (L "___\n")]

/-- the same tree in another spelling: indented heading with several spaces and a closing `#`, other
    paragraph indentation, the quote markers swapped, other rule characters and lengths -/
def sample' : List T := [
  .heading 1 (L "Title: a_b * c") (L "   #   Title: a_b * c #\n"),
  .para [L "first line, 3.14) x | y # z\n", L "   second & AT&T <, \"q\"\n"],
  .quote true [
    .heading 2 (L "Inner") (L "## Inner\n"),
    .quote false [.para [L "  deep text\n"], .hr (L "_ _ _\n")],
    .hr (L "*****\n")],
  .hr (L "  ---\n")]

theorem sample_ok : T.oks sample = true := by decide +kernel
theorem sample'_ok : T.oks sample' = true := by decide +kernel

/-- what the writer produces -/
example : writes sample =
    [L "# Title: a_b * c\n", L "\n", L "  first line, 3.14) x | y # z\n", L "second & AT&T <, \"q\"\n", L "\n",
     L ">   ## Inner ##  \n", L "> \n", L "> >deep text\n", L "> >\n", L "> >***\n", L "> \n", L ">  - - -\n", L "\n",
     L "___\n"] := by decide +kernel
example : writes sample' =
    [L "   #   Title: a_b * c #\n", L "\n", L "first line, 3.14) x | y # z\n", L "   second & AT&T <, \"q\"\n", L "\n",
     L ">## Inner\n", L ">\n", L ">>   deep text\n", L ">> \n", L ">> _ _ _\n", L ">\n", L ">*****\n", L "\n",
     L "  ---\n"] := by decide +kernel

def sampleHtml : Str :=
  L "<h1>Title: a_b * c</h1>\n<p>first line, 3.14) x | y # z\nsecond &amp; AT&amp;T &lt;, \"q\"</p>\n<blockquote>\n<h2>Inner</h2>\n<blockquote>\n<p>deep text</p>\n<hr />\n</blockquote>\n<hr />\n</blockquote>\n<hr />\n"

/-- the HTML written directly from the tree (both spellings: same tree) -/
example : htmlOf {} sample = sampleHtml ∧ htmlOf {} sample' = sampleHtml := by
  refine ⟨?_, ?_⟩ <;> decide +kernel

theorem sample_shapes : shapes sample = shapes sample' := by
  simp only [sample, sample', shapes, shape, List.map_cons, List.map_nil, Document.joinNl]
  have e1 : strip (L "  first line, 3.14) x | y # z\n") = strip (L "first line, 3.14) x | y # z\n") := by decide +kernel
  have e2 : strip (L "second & AT&T <, \"q\"\n") = strip (L "   second & AT&T <, \"q\"\n") := by decide +kernel
  have e3 : strip (L "deep text\n") = strip (L "  deep text\n") := by decide +kernel
  rw [e1, e2, e3]

example : needs sample = 176 ∧ needs sample' = 176 := by decide +kernel

/-- instance of `C03_html_partial`: the renderer on the written text gives that HTML … -/
example : Config.renderHtml {} 176 (writes sample).flatten = some sampleHtml := by
  rw [C03_html_partial {} sample sample_ok (by decide) 176 (by decide +kernel)]
  decide +kernel

/-- … and on the other spelling (instance of `C03_spelling_independent_partial`) -/
example : Config.renderHtml {} 176 (writes sample').flatten = Config.renderHtml {} 176 (writes sample).flatten :=
  (C03_spelling_independent_partial {} sample sample' sample_ok sample'_ok (by decide) sample_shapes 176
    (by decide +kernel) (by decide +kernel)).2

/-- the same two facts by evaluating the model on the text, without the theorem (the real renderer gives this
    string for both texts, too) -/
example : Config.renderHtml {} 176 (writes sample).flatten = some sampleHtml ∧
    Config.renderHtml {} 176 (writes sample').flatten = some sampleHtml := by
  refine ⟨?_, ?_⟩ <;> decide +kernel

/-- instance of `C03_block_phase_partial`, with the entries shown through the C05 digest
    (kind, line, origin; kinds: 1 heading, 2 quote, 4 thematic break, 9 paragraph) -/
example : Props.C05.digestR (blockPhase { types := Props.C14.defaultTypes } 176 (writes sample)) =
    some ([(1, 1, 1), (9, 3, 3), (2, 6, 6), (1, 6, 6), (2, 8, 8), (9, 8, 8), (4, 10, 10), (4, 12, 12), (4, 14, 14)], true, 0) := by
  rw [C03_block_phase_partial true sample sample_ok (by decide) 176 (by decide +kernel)]
  decide +kernel

/-- the predicate is not trivially true: a setext underline, emphasis, a list marker, a heading line whose
    text is not the stated one, a rule line that is a setext underline candidate `===`, an empty quote,
    ">" before a line that begins with a space -/
example : [T.para [L "a\n", L "---\n"], T.para [L "*a*\n"], T.para [L "- a\n"], T.heading 1 (L "x") (L "# y\n"),
    T.hr (L "===\n"), T.quote false [], T.quote true [T.para [L " a\n"]]].map T.ok = List.replicate 7 false := by
  decide +kernel

end Mistletoe.Props.C03
