/-
  C07 (the definition line itself) — property theorems only; the proofs are in Proofs/DefLine.lean (which builds on
  Proofs/RefResolve.lean and Props/C14.lean).

  Props/C07_Resolve.lean left ONE assumption at document level: that the block phase reads `[label]: dest` as a definition.
  Here it is proved: `Footnote.start` / `Footnote.read` / `match_reference` on one or several definition lines in a row
  (`[lbl]: dest` or `[lbl]: dest "title"`; label of any characters but `\ [ ]` and line separators, not blank; URL-safe
  destination; title without `\ "` and line separators), followed by a blank line, return exactly those definitions in
  order; no earlier token type starts on a line beginning with `[`.  So the document-level statements hold with NO
  assumption about the block phase, and "the first definition of a run wins" is proved through to the HTML.
-/
import Mistletoe.Proofs.DefLine
namespace Mistletoe.Props.C07D
open Mistletoe Mistletoe.Py Mistletoe.Scan Mistletoe.Block Mistletoe.RefResolve
open Mistletoe.Document Mistletoe.Html Mistletoe.Escape Mistletoe.Inline Mistletoe.InertInline
open Mistletoe.DefLine

/-- **`[defLbl]: dest`, a blank line, `pre[lbl]post`** under the HTML renderer's configuration renders the link exactly when the two
    labels are equal after normalisation, and the literal text otherwise - no hypothesis about the block phase left. -/
theorem C07_shortcut_document_text_full (cfg : Document.Cfg) (hcfg : Config.html = some cfg) (gas : Nat) (hg : 14 ≤ gas)
    (defLbl dest pre lbl post : Str) (hlb : ∀ c ∈ defLbl, lblCh c = true) (hnb : isBlank defLbl = false)
    (hd : ∀ c ∈ dest, urlCh c = true) (hne : dest ≠ []) (htext : DocText pre lbl post)
    (hh : ∀ c, pre.head? = some c → pyIsSpace c = false) (hl : ∀ c, post.getLast? = some c → pyIsSpace c = false)
    (hsep : ∀ c ∈ pre ++ lbl ++ post, isLineSep c = false)
    (hin : Props.C14.inertLine (pre ++ ['['] ++ lbl ++ [']'] ++ post ++ ['\n']) = true) (o : Opts) :
    Config.renderHtml o gas (docText defLbl dest pre lbl post) =
      some (if Footnotes.normalizeLabel defLbl = Footnotes.normalizeLabel lbl
        then "<p>".toList ++ pre ++ "<a href=\"".toList ++ dest ++ "\">".toList ++ lbl ++ "</a>".toList ++ post ++ "</p>\n".toList
        else "<p>".toList ++ pre ++ ['['] ++ lbl ++ [']'] ++ post ++ "</p>\n".toList) :=
  Mistletoe.DefLine.C07_shortcut_document_text_full cfg hcfg gas hg defLbl dest pre lbl post hlb hnb hd hne htext hh hl hsep hin o

/-- **Two definition lines in a row, the first matching**: the link goes to the FIRST definition's destination (and title), whatever the
    second one is. -/
theorem C07_first_of_run_wins (cfg : Document.Cfg) (hcfg : Config.html = some cfg) (gas : Nat) (hg : 14 ≤ gas)
    (d₁ d₂ : DefSpec) (h₁ : d₁.Ok) (h₂ : d₂.Ok) (a₁ : d₁.NoAmp) (a₂ : d₂.NoAmp)
    (pre lbl post : Str) (htext : DocText pre lbl post)
    (hh : ∀ c, pre.head? = some c → pyIsSpace c = false) (hl : ∀ c, post.getLast? = some c → pyIsSpace c = false)
    (hsep : ∀ c ∈ pre ++ lbl ++ post, isLineSep c = false)
    (hin : Props.C14.inertLine (refLine pre lbl post) = true) (o : Opts)
    (hk : Footnotes.normalizeLabel d₁.lbl = Footnotes.normalizeLabel lbl) :
    Config.renderHtml o gas (d₁.line ++ d₂.line ++ '\n' :: refLine pre lbl post) =
      some ("<p>".toList ++ pre ++ "<a href=\"".toList ++ d₁.dest ++ ['"'] ++ titleHtml (d₁.title.getD []) ++ ['>'] ++ lbl ++
        "</a>".toList ++ post ++ "</p>\n".toList) :=
  Mistletoe.DefLine.C07_first_of_run_wins cfg hcfg gas hg d₁ d₂ h₁ h₂ a₁ a₂ pre lbl post htext hh hl hsep hin o hk

/-- when the first does not match: the link to the second definition, or the literal text -/
theorem C07_second_of_run (cfg : Document.Cfg) (hcfg : Config.html = some cfg) (gas : Nat) (hg : 14 ≤ gas)
    (d₁ d₂ : DefSpec) (h₁ : d₁.Ok) (h₂ : d₂.Ok) (a₁ : d₁.NoAmp) (a₂ : d₂.NoAmp)
    (pre lbl post : Str) (htext : DocText pre lbl post)
    (hh : ∀ c, pre.head? = some c → pyIsSpace c = false) (hl : ∀ c, post.getLast? = some c → pyIsSpace c = false)
    (hsep : ∀ c ∈ pre ++ lbl ++ post, isLineSep c = false)
    (hin : Props.C14.inertLine (refLine pre lbl post) = true) (o : Opts)
    (hk : Footnotes.normalizeLabel d₁.lbl ≠ Footnotes.normalizeLabel lbl) :
    Config.renderHtml o gas (d₁.line ++ d₂.line ++ '\n' :: refLine pre lbl post) =
      some (if Footnotes.normalizeLabel d₂.lbl = Footnotes.normalizeLabel lbl
        then "<p>".toList ++ pre ++ "<a href=\"".toList ++ d₂.dest ++ ['"'] ++ titleHtml (d₂.title.getD []) ++ ['>'] ++ lbl ++
          "</a>".toList ++ post ++ "</p>\n".toList
        else "<p>".toList ++ pre ++ ['['] ++ lbl ++ [']'] ++ post ++ "</p>\n".toList) :=
  Mistletoe.DefLine.C07_second_of_run cfg hcfg gas hg d₁ d₂ h₁ h₂ a₁ a₂ pre lbl post htext hh hl hsep hin o hk

/-- **Any run of definition lines** (each with or without a title), a blank line, the paragraph with the reference: the HTML is the link to
    the FIRST definition of the run whose normalised label equals the reference's, with its title, or the literal text when there is none
    (`refHtml`); the definitions produce no output. -/
theorem C07_defs_document (cfg : Document.Cfg) (hcfg : Config.html = some cfg) (gas : Nat) (hg : 14 ≤ gas)
    (d : DefSpec) (ds : List DefSpec) (hok : ∀ x ∈ d :: ds, x.Ok) (hamp : ∀ x ∈ d :: ds, x.NoAmp)
    (pre lbl post : Str) (htext : DocText pre lbl post)
    (hh : ∀ c, pre.head? = some c → pyIsSpace c = false) (hl : ∀ c, post.getLast? = some c → pyIsSpace c = false)
    (hsep : ∀ c ∈ pre ++ lbl ++ post, isLineSep c = false)
    (hin : Props.C14.inertLine (refLine pre lbl post) = true) (o : Opts) :
    Config.renderHtml o gas (defsText (d :: ds) pre lbl post) = some (refHtml (d :: ds) pre lbl post) :=
  Mistletoe.DefLine.C07_defs_document cfg hcfg gas hg d ds hok hamp pre lbl post htext hh hl hsep hin o

end Mistletoe.Props.C07D
