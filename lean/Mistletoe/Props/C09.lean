/-
  C09 — Markdown round trip.

  "Rendering a parsed document back to Markdown yields text that parses to the same document (identical
  HTML and identical link definitions); rendering that text again reproduces it byte for byte; and a
  document already written in the renderer's own normal form is reproduced byte for byte."

  The Markdown renderer is modelled in `Model/Markdown.lean` (`Markdown.renderRes` / `Markdown.render`,
  tied to mistletoe/markdown_renderer.py by the correspondence unit `md.render`, harness/md_units.py).
  Proved here, for the **prose fragment** (everything is `_partial`: the fragment is a hypothesis):

  documents made of paragraphs of inert prose lines (the C14 hypotheses: no block pattern fires on a line —
  `inertLine`; every line is text + "\n" without whitespace at either end of the text — `proseLine` and
  `lstrip l = l`; the stripped lines joined by "\n" are inline-inert — `inertBody`), separated by single
  empty lines ("\n"), parsed under token lists that contain `Paragraph` and `BlankLine` (the Markdown
  renderer's lists):

  * `C09_prose_exact_partial`  — `MarkdownRenderer().render(Document(lines))` is the concatenation of the
    lines: a document already in normal form is reproduced byte for byte (no line limit; either value of
    `normalize_whitespace`);
  * `C09_prose_exact_text_partial` — the same for `Document(text)` on the `str`;
  * `C09_prose_line_exact_partial`, `C09_prose_paragraph_exact_partial` — one line / one paragraph;
  * `C09_prose_idempotent_partial` — rendering the rendered text again reproduces it;
  * `C09_prose_same_meaning_partial` — the rendered text parses to the same document as the original text
    under every token configuration (hence identical HTML and identical link definitions);
  * `C09_prose_exact_markdown` — the hypotheses on the token lists hold for the lists the
    `MarkdownRenderer` of the working tree installs (`Config.markdown`, regenerated from /repo);
  * `C09_quoted_prose_exact_partial`, `C09_quoted_prose_exact_markdown` — the same documents inside `k`
    nested block quotes written the way the renderer writes them ("> " before every line), via C04;
  * `C09_blocks_exact_partial`, `C09_blocks_roundtrip_markdown` — second fragment: prose paragraphs, ATX
    headings `# text` and thematic breaks `***`/`---`/`___` separated by single empty lines, inside `k`
    nested block quotes (k ≥ 0): exact reproduction, idempotence, same meaning.
-/
import Mistletoe.Proofs.MdRound
import Mistletoe.Proofs.MdRoundBlocks
import Mistletoe.Props.C14
namespace Mistletoe.Props.C09
open Mistletoe Mistletoe.Py Mistletoe.Block Mistletoe.Inline Mistletoe.InertInline Mistletoe.MdRound
open Mistletoe.Props.C14 (inertLine joinBlank markdownTypes)

/-! ### the fragment -/

/-- One paragraph in the renderer's normal form (decidable): at least one line; on every line no block
    pattern fires (`inertLine`), the line is text + "\n" with no whitespace at either end of the text
    (`proseLine`, `lstrip l == l`) and contains no other line-boundary character (`oneLine`); the lines
    without their "\n", joined by "\n", are inline-inert (`inertBody`: no backslash, backquote, `<` that could
    begin a tag, `&` that could begin a character reference, `~~`, closing bracket after an opening one,
    emphasis run that can both open and close). -/
def normalPara (q : List Str) : Bool :=
  !q.isEmpty && q.all (fun l => inertLine l && proseLine l && lstrip l == l && oneLine l)
    && inertBody (Document.joinNl (q.map strip))

/-- the lines of the document: paragraphs `p, q₁, q₂, …` with one "\n" line between consecutive ones -/
abbrev docLines (p : List Str) (rest : List (List Str)) : List Str := joinBlank p rest

/-- the document as a `str` -/
abbrev docText (p : List Str) (rest : List (List Str)) : Str := (joinBlank p rest).flatten

structure ParaFacts (q : List Str) : Prop where
  ne : q ≠ []
  inert : ∀ l ∈ q, inertLine l = true
  prose : ∀ l ∈ q, proseLine l = true
  flush : ∀ l ∈ q, lstrip l = l
  one : ∀ l ∈ q, oneLine l = true
  body : inertBody (Document.joinNl (q.map strip)) = true

theorem normalPara_facts (q : List Str) (h : normalPara q = true) : ParaFacts q := by
  simp only [normalPara, Bool.and_eq_true, Bool.not_eq_eq_eq_not, Bool.not_true, List.all_eq_true, beq_iff_eq] at h
  obtain ⟨⟨h1, h2⟩, h3⟩ := h
  exact ⟨(by intro e; rw [e] at h1; cases h1), fun l hl => (h2 l hl).1.1.1, fun l hl => (h2 l hl).1.1.2,
    fun l hl => (h2 l hl).1.2, fun l hl => (h2 l hl).2, h3⟩

theorem ParaFacts.para {q : List Str} (f : ParaFacts q) : ProsePara q := ⟨f.ne, f.prose, f.body⟩

theorem oneLine_joinBlank : ∀ (rest : List (List Str)) (p : List Str),
    (∀ l ∈ p, oneLine l = true) → (∀ q ∈ rest, ∀ l ∈ q, oneLine l = true) → ∀ l ∈ joinBlank p rest, oneLine l = true
  | [], p, hp, _ => by simpa [joinBlank] using hp
  | q :: rest, p, hp, hr => by
    have ih := oneLine_joinBlank rest q (hr q (by simp)) (fun x hx => hr x (List.mem_cons_of_mem _ hx))
    intro l hl
    simp only [joinBlank, List.mem_append, List.mem_cons] at hl
    rcases hl with hl | rfl | hl
    · exact hp l hl
    · decide
    · exact ih l hl

/-! ### a document in normal form is reproduced byte for byte -/

/-- **A document already in the renderer's normal form is reproduced byte for byte** (prose fragment).
    For every token configuration whose block types contain `Paragraph` and `BlankLine` and whose span
    classes are covered ones with `LineBreak` once (the Markdown renderer's lists, `C09_prose_exact_markdown`),
    every paragraph list `p, rest` in normal form (`normalPara`), every renderer option set without a line
    limit (`normalize_whitespace` either way) and enough fuel: `Document(lines)` succeeds, the Markdown
    renderer does not raise on it, and its output is exactly the concatenation of the lines.
    `_partial`: the hypothesis `normalPara` restricts the statement to paragraphs of inert prose separated
    by single empty lines; other normal-form documents (headings, lists, code, links, …) are outside it. -/
theorem C09_prose_exact_partial (cfg : Document.Cfg) (hpar : .paragraph ∈ cfg.block.types)
    (hbl : .blankLine ∈ cfg.block.types)
    (ht : ∀ t ∈ cfg.span, inertClass t = true) (hc : cfg.span.count .lineBreak = 1)
    (p : List Str) (rest : List (List Str)) (hp : normalPara p = true) (hrest : ∀ q ∈ rest, normalPara q = true)
    (o : Markdown.Opts) (ho : o.maxLineLength = none) (gas : Nat) :
    ∃ d, Document.parseLines cfg (gas + (2 * rest.length + cfg.block.types.length + 4)) (docLines p rest) = .ok d ∧
      Markdown.renderRes o d = .ok (docText p rest) ∧ Markdown.render o d = docText p rest := by
  have fp := normalPara_facts p hp
  have fr := fun q hq => normalPara_facts q (hrest q hq)
  have hb : cfg.block.types.contains .blankLine = true := by simpa using hbl
  have hphase := C14.C14_blank_separated_phase cfg.block hpar p rest ⟨fp.ne, fp.inert⟩
    (fun q hq => ⟨(fr q hq).ne, (fr q hq).inert⟩) gas
  rw [hb] at hphase
  have hmk := mkBlocks_paraEntries cfg (Document.footnotesOf []) ht hc rest p 1 fp.para (fun q hq => (fr q hq).para)
  have hres : Markdown.renderRes o { kids := proseBlocks 1 p rest, footnotes := Document.footnotesOf [] } =
      .ok (docText p rest) := by
    simp only [Markdown.renderRes, ho]
    rw [renderBlocks_prose o rest p 1 fp.prose (fun q hq => (fr q hq).prose)]
    simp only
    rw [joinLines_proseOut rest p (fun l hl => ⟨fp.prose l hl, fp.flush l hl⟩)
      (fun q hq l hl => ⟨(fr q hq).prose l hl, (fr q hq).flush l hl⟩)]
  refine ⟨{ kids := proseBlocks 1 p rest, footnotes := Document.footnotesOf [] }, ?_, hres, ?_⟩
  · unfold Document.parseLines
    rw [hphase]
    simp only
    rw [hmk]
  · simp only [Markdown.render, hres]

/-- **The same from a `str`**: `MarkdownRenderer().render(Document(text)) == text` for the text of a prose
    document in normal form. -/
theorem C09_prose_exact_text_partial (cfg : Document.Cfg) (hpar : .paragraph ∈ cfg.block.types)
    (hbl : .blankLine ∈ cfg.block.types)
    (ht : ∀ t ∈ cfg.span, inertClass t = true) (hc : cfg.span.count .lineBreak = 1)
    (p : List Str) (rest : List (List Str)) (hp : normalPara p = true) (hrest : ∀ q ∈ rest, normalPara q = true)
    (o : Markdown.Opts) (ho : o.maxLineLength = none) (gas : Nat) :
    ∃ d, Document.parse cfg (gas + (2 * rest.length + cfg.block.types.length + 4)) (docText p rest) = .ok d ∧
      Markdown.renderRes o d = .ok (docText p rest) ∧ Markdown.render o d = docText p rest := by
  have h1 := oneLine_joinBlank rest p (normalPara_facts p hp).one (fun q hq => (normalPara_facts q (hrest q hq)).one)
  rw [show docText p rest = (joinBlank p rest).flatten from rfl, parse_lines cfg _ (joinBlank p rest) h1]
  exact C09_prose_exact_partial cfg hpar hbl ht hc p rest hp hrest o ho gas

/-- **One paragraph** (several lines) in normal form is reproduced byte for byte. -/
theorem C09_prose_paragraph_exact_partial (cfg : Document.Cfg) (hpar : .paragraph ∈ cfg.block.types)
    (hbl : .blankLine ∈ cfg.block.types)
    (ht : ∀ t ∈ cfg.span, inertClass t = true) (hc : cfg.span.count .lineBreak = 1)
    (p : List Str) (hp : normalPara p = true) (o : Markdown.Opts) (ho : o.maxLineLength = none) (gas : Nat) :
    ∃ d, Document.parse cfg (gas + (cfg.block.types.length + 4)) p.flatten = .ok d ∧
      Markdown.render o d = p.flatten := by
  obtain ⟨d, h1, _, h3⟩ := C09_prose_exact_text_partial cfg hpar hbl ht hc p [] hp (by simp) o ho gas
  exact ⟨d, by simpa [docText, joinBlank] using h1, by simpa [docText, joinBlank] using h3⟩

/-- **One line** of prose in normal form — `text` + "\n" — is reproduced byte for byte. -/
theorem C09_prose_line_exact_partial (cfg : Document.Cfg) (hpar : .paragraph ∈ cfg.block.types)
    (hbl : .blankLine ∈ cfg.block.types)
    (ht : ∀ t ∈ cfg.span, inertClass t = true) (hc : cfg.span.count .lineBreak = 1)
    (l : Str) (hl : normalPara [l] = true) (o : Markdown.Opts) (ho : o.maxLineLength = none) (gas : Nat) :
    ∃ d, Document.parse cfg (gas + (cfg.block.types.length + 4)) l = .ok d ∧ Markdown.render o d = l := by
  have := C09_prose_paragraph_exact_partial cfg hpar hbl ht hc [l] hl o ho gas
  simpa using this

/-! ### corollaries: idempotence and same meaning -/

/-- **Rendering the rendered text again reproduces it byte for byte** (prose fragment):
    `render(Document(render(Document(text)))) == render(Document(text))`. -/
theorem C09_prose_idempotent_partial (cfg : Document.Cfg) (hpar : .paragraph ∈ cfg.block.types)
    (hbl : .blankLine ∈ cfg.block.types)
    (ht : ∀ t ∈ cfg.span, inertClass t = true) (hc : cfg.span.count .lineBreak = 1)
    (p : List Str) (rest : List (List Str)) (hp : normalPara p = true) (hrest : ∀ q ∈ rest, normalPara q = true)
    (o : Markdown.Opts) (ho : o.maxLineLength = none) (gas : Nat) :
    ∃ d, Document.parse cfg (gas + (2 * rest.length + cfg.block.types.length + 4)) (docText p rest) = .ok d ∧
      ∃ d', Document.parse cfg (gas + (2 * rest.length + cfg.block.types.length + 4)) (Markdown.render o d) = .ok d' ∧
        Markdown.render o d' = Markdown.render o d := by
  obtain ⟨d, h1, _, h3⟩ := C09_prose_exact_text_partial cfg hpar hbl ht hc p rest hp hrest o ho gas
  refine ⟨d, h1, d, ?_, rfl⟩
  rw [h3]; exact h1

/-- **The rendered text means the same as the original** (prose fragment): under every token
    configuration and fuel, the rendered text parses to the same result as the original text — the same
    `Document` (children and link definitions), hence the same HTML under every HTML option set. -/
theorem C09_prose_same_meaning_partial (cfg : Document.Cfg) (hpar : .paragraph ∈ cfg.block.types)
    (hbl : .blankLine ∈ cfg.block.types)
    (ht : ∀ t ∈ cfg.span, inertClass t = true) (hc : cfg.span.count .lineBreak = 1)
    (p : List Str) (rest : List (List Str)) (hp : normalPara p = true) (hrest : ∀ q ∈ rest, normalPara q = true)
    (o : Markdown.Opts) (ho : o.maxLineLength = none) (gas : Nat) :
    ∃ d, Document.parse cfg (gas + (2 * rest.length + cfg.block.types.length + 4)) (docText p rest) = .ok d ∧
      (∀ (cfg' : Document.Cfg) (g : Nat),
        Document.parse cfg' g (Markdown.render o d) = Document.parse cfg' g (docText p rest)) ∧
      (∀ (ho : Html.Opts) (g : Nat),
        Config.renderHtml ho g (Markdown.render o d) = Config.renderHtml ho g (docText p rest)) := by
  obtain ⟨d, h1, _, h3⟩ := C09_prose_exact_text_partial cfg hpar hbl ht hc p rest hp hrest o ho gas
  exact ⟨d, h1, fun _ _ => by rw [h3], fun _ _ => by rw [h3]⟩

/-! ### block quotes around the fragment -/

/-- the lines `ss` behind `k` markers "> " (the empty separator lines become "> \n", which is how the
    renderer writes them: `prefix_lines` blanks only lines that are all whitespace) -/
abbrev quoted (k : Nat) (ss : List Str) : List Str := qStrs k ss

/-- **A prose document inside `k` nested block quotes, written the way the renderer writes it, is
    reproduced byte for byte.**  `cfg.block.types = pre ++ Quote :: post` with neither `Quote` nor
    `Paragraph` in `pre` (C04's hypothesis; the Markdown renderer's list has 5 types before `Quote`); the
    lines are tab-free (`Quote.convert_leading_tabs` rewrites tabs); every line of the normal-form prose
    document `p, rest` carries `k` markers "> ".  Then `Document(lines)` is `k` nested `Quote`s around the
    paragraphs and blank lines, and `MarkdownRenderer().render` gives back exactly the lines.
    Uses `C04_quote_wraps` (the quote's content is the parse of the unmarked lines) and the C14 block theorem
    in every parser state (so the switched-off setext rule inside a quote does not matter). -/
theorem C09_quoted_prose_exact_partial (cfg : Document.Cfg) (pre post : List BTok)
    (hty : cfg.block.types = pre ++ .quote :: post) (hnq : .quote ∉ pre) (hnp : .paragraph ∉ pre)
    (hpar : .paragraph ∈ cfg.block.types) (hbl : .blankLine ∈ cfg.block.types)
    (ht : ∀ t ∈ cfg.span, inertClass t = true) (hc : cfg.span.count .lineBreak = 1)
    (p : List Str) (rest : List (List Str)) (hp : normalPara p = true) (hrest : ∀ q ∈ rest, normalPara q = true)
    (hnt : ∀ l ∈ docLines p rest, '\t' ∉ l) (k : Nat)
    (o : Markdown.Opts) (ho : o.maxLineLength = none) (gas : Nat) :
    ∃ d, Document.parseLines cfg (gas + (2 * rest.length + cfg.block.types.length + 4) + k * (pre.length + 3))
          (quoted k (docLines p rest)) = .ok d ∧
      d.kids = qBlocks 1 (proseBlocks 1 p rest) k ∧
      Markdown.renderRes o d = .ok (quoted k (docLines p rest)).flatten ∧
      Markdown.render o d = (quoted k (docLines p rest)).flatten := by
  have fp := normalPara_facts p hp
  have fr := fun q hq => normalPara_facts q (hrest q hq)
  have hb : cfg.block.types.contains .blankLine = true := by simpa using hbl
  obtain ⟨s, ss', hss⟩ : ∃ s ss', joinBlank p rest = s :: ss' := by
    cases hj : joinBlank p rest with
    | nil =>
      exfalso
      cases p with
      | nil => exact fp.ne rfl
      | cons a p' => cases rest <;> simp [joinBlank] at hj
    | cons s ss' => exact ⟨s, ss', rfl⟩
  have hnum : C14.numbered 0 (joinBlank p rest) = { s := s, origin := 1 } :: C14.numbered 1 ss' := by
    rw [hss, C14.numbered_cons]
  have h0 : ∀ st, tokenizeBlock cfg.block (gas + (2 * rest.length + cfg.block.types.length + 4))
      ({ s := s, origin := 1 } :: C14.numbered 1 ss') 1 st =
        .ok ({ entries := C14.paraEntries true 1 p rest, loose := false }, st) := by
    intro st
    have := tokenize_prose_doc cfg.block hpar p rest ⟨fp.ne, fp.inert⟩ (fun q hq => ⟨(fr q hq).ne, (fr q hq).inert⟩) gas st
    rw [hb, hnum] at this
    simpa using this
  have hnt' : ∀ l ∈ ({ s := s, origin := 1 } : Line) :: C14.numbered 1 ss', '\t' ∉ l.s := by
    intro l hl
    rw [← hnum] at hl
    exact hnt _ (C14.numbered_mem _ _ _ hl)
  obtain ⟨st', hq, hd⟩ := tokenize_qLines cfg.block pre post hty hnq hnp _ _ hnt' 1 _ _ h0 k {}
  have hphase : blockPhase cfg.block (gas + (2 * rest.length + cfg.block.types.length + 4) + k * (pre.length + 3))
      (qStrs k (joinBlank p rest)) =
        .ok ({ entries := qEntries 1 1 (C14.paraEntries true 1 p rest) k, loose := false }, st') := by
    have e : ∀ g ls, blockPhase cfg.block g ls = tokenizeBlock cfg.block g (C14.numbered 0 ls) 1 {} := fun _ _ => rfl
    rw [e, numbered_qStrs, hnum]
    exact hq
  have hdefs : st'.defs = [] := hd
  have hmk := mkBlocks_qEntries cfg (Document.footnotesOf []) 1 1 _ _
    (mkBlocks_paraEntries cfg (Document.footnotesOf []) ht hc rest p 1 fp.para (fun q hq => (fr q hq).para)) k
  have hout := renderBlocks_qBlocks o 1 _ _ (renderBlocks_prose o rest p 1 fp.prose (fun q hq => (fr q hq).prose)) k
  have htext : Markdown.joinLines (qStrs k (proseOut p rest)) = (qStrs k (joinBlank p rest)).flatten := by
    rw [joinLines_eq, qStrs_nl, proseOut_lines rest p (fun l hl => ⟨fp.prose l hl, fp.flush l hl⟩)
      (fun q hq l hl => ⟨(fr q hq).prose l hl, (fr q hq).flush l hl⟩)]
  have hres : Markdown.renderRes o { kids := qBlocks 1 (proseBlocks 1 p rest) k, footnotes := Document.footnotesOf [] } =
      .ok (qStrs k (joinBlank p rest)).flatten := by
    simp only [Markdown.renderRes, ho, hout, htext]
  refine ⟨{ kids := qBlocks 1 (proseBlocks 1 p rest) k, footnotes := Document.footnotesOf [] }, ?_, rfl, hres, ?_⟩
  · unfold Document.parseLines
    rw [hphase]
    simp only [hdefs]
    rw [hmk]
  · simp only [Markdown.render, hres]

/-- the same from a `str`, for the token lists of the working tree (`Config.markdown`) -/
theorem C09_quoted_prose_exact_markdown (cfg : Document.Cfg) (hcfg : Config.markdown = some cfg)
    (p : List Str) (rest : List (List Str)) (hp : normalPara p = true) (hrest : ∀ q ∈ rest, normalPara q = true)
    (hnt : ∀ l ∈ docLines p rest, '\t' ∉ l) (k : Nat)
    (o : Markdown.Opts) (ho : o.maxLineLength = none) (gas : Nat) :
    ∃ d, Document.parse cfg (gas + (2 * rest.length + 15) + k * 8) (quoted k (docLines p rest)).flatten = .ok d ∧
      Markdown.render o d = (quoted k (docLines p rest)).flatten := by
  obtain ⟨hpar, ht, hc⟩ := C14.C14_config_covered cfg (Or.inr (Or.inl hcfg))
  have hty : cfg.block.types = markdownTypes := by
    have := C14.C14_config_current.2
    rw [hcfg] at this
    simpa using this
  have hbl : BTok.blankLine ∈ cfg.block.types := by rw [hty]; decide
  have h1 := qStrs_oneLine k _ (oneLine_joinBlank rest p (normalPara_facts p hp).one
    (fun q hq => (normalPara_facts q (hrest q hq)).one))
  rw [parse_lines cfg _ _ h1]
  obtain ⟨d, h, _, _, h3⟩ := C09_quoted_prose_exact_partial cfg
    [.linkRefDefBlock, .blankLine, .htmlBlock, .blockCode, .heading] [.codeFence, .thematicBreak, .list, .table, .paragraph]
    (by rw [hty]; rfl) (by decide) (by decide) hpar hbl ht hc p rest hp hrest hnt k o ho gas
  rw [hty] at h
  exact ⟨d, h, h3⟩

/-! ### paragraphs, ATX headings and thematic breaks, inside any number of block quotes -/

/-- a prose paragraph as a block of the second fragment: the same normal form -/
theorem item_para_ok (q : List Str) : (Blk.para q).ok = normalPara q := rfl

/-- **Paragraphs, ATX headings and thematic breaks in the renderer's normal form, inside `k` nested block
    quotes, are reproduced byte for byte.**  The blocks `it, rest` (`Blk.ok`: prose paragraphs as above;
    headings `#…# text` of level 1–6 whose text is inline-inert, without `#`, without whitespace at either
    end; thematic breaks `***`, `---`, `___`) are separated by single empty lines; every line carries `k`
    markers "> " (k = 0: no quote); the lines are tab-free; the block token types are the Markdown renderer's
    list, the span classes are covered ones with `LineBreak` once.  Then `Document(lines)` succeeds, its
    children are `k` nested `Quote`s around `Paragraph` / `Heading` / `ThematicBreak` tokens with `BlankLine`s
    between them, and `MarkdownRenderer().render` (no line limit) gives back exactly the concatenated lines. -/
theorem C09_blocks_exact_partial (cfg : Document.Cfg) (hty : cfg.block.types = markdownTypes)
    (ht : ∀ t ∈ cfg.span, inertClass t = true) (hc : cfg.span.count .lineBreak = 1)
    (it : Blk) (rest : List Blk) (hok : it.ok = true) (hrest : ∀ x ∈ rest, x.ok = true)
    (hnt : ∀ l ∈ itemsLines it rest, '\t' ∉ l) (k : Nat)
    (o : Markdown.Opts) (ho : o.maxLineLength = none) (gas : Nat) :
    ∃ d, Document.parseLines cfg (gas + (2 * rest.length + 14) + k * 8) (quoted k (itemsLines it rest)) = .ok d ∧
      d.kids = qBlocks 1 (itemBlocks 1 it rest) k ∧
      Markdown.renderRes o d = .ok (quoted k (itemsLines it rest)).flatten ∧
      Markdown.render o d = (quoted k (itemsLines it rest)).flatten := by
  obtain ⟨s, ss', hss⟩ : ∃ s ss', itemsLines it rest = s :: ss' := by
    cases hj : itemsLines it rest with
    | nil => exact absurd hj (itemsLines_ne it rest hok)
    | cons s ss' => exact ⟨s, ss', rfl⟩
  have hnum : C14.numbered 0 (itemsLines it rest) = { s := s, origin := 1 } :: C14.numbered 1 ss' := by
    rw [hss, C14.numbered_cons]
  have h0 : ∀ st, tokenizeBlock cfg.block (gas + (2 * rest.length + 14)) ({ s := s, origin := 1 } :: C14.numbered 1 ss') 1 st =
      .ok ({ entries := itemEntries 1 1 it rest, loose := false }, st) := by
    intro st
    have := tokenize_items cfg.block hty it rest hok hrest gas st
    rwa [hnum] at this
  have hnt' : ∀ l ∈ ({ s := s, origin := 1 } : Line) :: C14.numbered 1 ss', '\t' ∉ l.s := by
    intro l hl
    rw [← hnum] at hl
    exact hnt _ (C14.numbered_mem _ _ _ hl)
  obtain ⟨st', hq, hd⟩ := tokenize_qLines cfg.block
    [.linkRefDefBlock, .blankLine, .htmlBlock, .blockCode, .heading] [.codeFence, .thematicBreak, .list, .table, .paragraph]
    (by rw [hty]; rfl) (by decide) (by decide) _ _ hnt' 1 _ _ h0 k {}
  have hphase : blockPhase cfg.block (gas + (2 * rest.length + 14) + k * 8) (qStrs k (itemsLines it rest)) =
      .ok ({ entries := qEntries 1 1 (itemEntries 1 1 it rest) k, loose := false }, st') := by
    have e : ∀ g ls, blockPhase cfg.block g ls = tokenizeBlock cfg.block g (C14.numbered 0 ls) 1 {} := fun _ _ => rfl
    rw [e, numbered_qStrs, hnum]
    exact hq
  have hdefs : st'.defs = [] := hd
  have hmk := mkBlocks_qEntries cfg (Document.footnotesOf []) 1 1 _ _
    (mkBlocks_itemEntries cfg (Document.footnotesOf []) ht hc rest it 1 1 hok hrest) k
  have hout := renderBlocks_qBlocks o 1 _ _ (renderBlocks_items o rest it 1 hok hrest) k
  have htext : Markdown.joinLines (qStrs k (itemsOut it rest)) = (qStrs k (itemsLines it rest)).flatten := by
    rw [joinLines_eq, qStrs_nl, itemsOut_lines rest it hok hrest]
  have hres : Markdown.renderRes o { kids := qBlocks 1 (itemBlocks 1 it rest) k, footnotes := Document.footnotesOf [] } =
      .ok (qStrs k (itemsLines it rest)).flatten := by
    simp only [Markdown.renderRes, ho, hout, htext]
  refine ⟨{ kids := qBlocks 1 (itemBlocks 1 it rest) k, footnotes := Document.footnotesOf [] }, ?_, rfl, hres, ?_⟩
  · unfold Document.parseLines
    rw [hphase]
    simp only [hdefs]
    rw [hmk]
  · simp only [Markdown.render, hres]

/-- **The same from a `str`, for the token lists of the working tree** (`Config.markdown`), with the two
    corollaries: rendering again reproduces the text, and the rendered text parses like the original under
    every configuration (same document, same link definitions, same HTML). -/
theorem C09_blocks_roundtrip_markdown (cfg : Document.Cfg) (hcfg : Config.markdown = some cfg)
    (it : Blk) (rest : List Blk) (hok : it.ok = true) (hrest : ∀ x ∈ rest, x.ok = true)
    (hnt : ∀ l ∈ itemsLines it rest, '\t' ∉ l) (k : Nat)
    (o : Markdown.Opts) (ho : o.maxLineLength = none) (gas : Nat) :
    ∃ d, Document.parse cfg (gas + (2 * rest.length + 14) + k * 8) (quoted k (itemsLines it rest)).flatten = .ok d ∧
      Markdown.render o d = (quoted k (itemsLines it rest)).flatten ∧
      (∃ d', Document.parse cfg (gas + (2 * rest.length + 14) + k * 8) (Markdown.render o d) = .ok d' ∧
        Markdown.render o d' = Markdown.render o d) ∧
      (∀ (cfg' : Document.Cfg) (g : Nat),
        Document.parse cfg' g (Markdown.render o d) = Document.parse cfg' g (quoted k (itemsLines it rest)).flatten) ∧
      (∀ (hopts : Html.Opts) (g : Nat),
        Config.renderHtml hopts g (Markdown.render o d) = Config.renderHtml hopts g (quoted k (itemsLines it rest)).flatten) := by
  obtain ⟨_, ht, hc⟩ := C14.C14_config_covered cfg (Or.inr (Or.inl hcfg))
  have hty : cfg.block.types = markdownTypes := by
    have := C14.C14_config_current.2
    rw [hcfg] at this
    simpa using this
  have h1 := qStrs_oneLine k _ (items_oneLine rest it hok hrest)
  obtain ⟨d, h, _, _, h3⟩ := C09_blocks_exact_partial cfg hty ht hc it rest hok hrest hnt k o ho gas
  rw [← parse_lines cfg _ _ h1] at h
  refine ⟨d, h, h3, ⟨d, ?_, rfl⟩, fun _ _ => by rw [h3], fun _ _ => by rw [h3]⟩
  rw [h3]; exact h

/-! ### the token lists of the working tree -/

/-- **For the lists `MarkdownRenderer` installs in the working tree** (`Config.markdown`, regenerated from
    /repo on every run): the hypotheses on the token lists hold, so a prose document in normal form is
    reproduced byte for byte by `MarkdownRenderer(normalize_whitespace=…).render(Document(text))`. -/
theorem C09_prose_exact_markdown (cfg : Document.Cfg) (hcfg : Config.markdown = some cfg)
    (p : List Str) (rest : List (List Str)) (hp : normalPara p = true) (hrest : ∀ q ∈ rest, normalPara q = true)
    (o : Markdown.Opts) (ho : o.maxLineLength = none) (gas : Nat) :
    ∃ d, Document.parse cfg (gas + (2 * rest.length + 15)) (docText p rest) = .ok d ∧
      Markdown.renderRes o d = .ok (docText p rest) ∧ Markdown.render o d = docText p rest := by
  obtain ⟨hpar, ht, hc⟩ := C14.C14_config_covered cfg (Or.inr (Or.inl hcfg))
  have hty : cfg.block.types = markdownTypes := by
    have := C14.C14_config_current.2
    rw [hcfg] at this
    simpa using this
  have hbl : BTok.blankLine ∈ cfg.block.types := by rw [hty]; decide
  have := C09_prose_exact_text_partial cfg hpar hbl ht hc p rest hp hrest o ho gas
  rw [hty] at this
  exact this

/-! ### Non-vacuity -/

def L (s : String) : Str := s.toList

/-- the Markdown renderer's token lists as literals -/
def mdCfg : Document.Cfg :=
  { block := { types := markdownTypes },
    span := [.escapeSequence, .htmlSpan, .strikethrough, .autoLink, .coreTokens, .inlineCode, .lineBreak] }

theorem mdCfg_ok : BTok.paragraph ∈ mdCfg.block.types ∧ BTok.blankLine ∈ mdCfg.block.types ∧
    (∀ t ∈ mdCfg.span, inertClass t = true) ∧ mdCfg.span.count .lineBreak = 1 := by decide

def para1 : List Str := [L "a_b_c * d - 3.14) x | y # z\n", L "1.5 is + or - = ~ ^ $ % @ [ & AT&T\n"]
def para2 : List Str := [L "c < d <, \"e\"! ![ x\n"]
def para3 : List Str := [L "snake_case and 2 * 3 (a) é 日本\n", L "last line.\n"]

theorem paras_ok : normalPara para1 = true ∧ normalPara para2 = true ∧ normalPara para3 = true := by decide +kernel

/-- the theorem applies to a three-paragraph document … -/
example : ∃ d, Document.parse mdCfg 19 (docText para1 [para2, para3]) = .ok d ∧
    Markdown.render {} d = docText para1 [para2, para3] := by
  obtain ⟨d, h1, _, h3⟩ := C09_prose_exact_text_partial mdCfg mdCfg_ok.1 mdCfg_ok.2.1 mdCfg_ok.2.2.1 mdCfg_ok.2.2.2
    para1 [para2, para3] paras_ok.1 (by simp [paras_ok.2.1, paras_ok.2.2]) {} rfl 0
  exact ⟨d, h1, h3⟩

/-- … and evaluating parser and renderer in the kernel on that document gives the same answer -/
example : (Document.parse mdCfg 19 (docText para1 [para2, para3])).bind (fun d => Markdown.renderRes {} d) =
    .ok (L ("a_b_c * d - 3.14) x | y # z\n1.5 is + or - = ~ ^ $ % @ [ & AT&T\n\nc < d <, \"e\"! ![ x\n\n" ++
            "snake_case and 2 * 3 (a) é 日本\nlast line.\n")) := by decide +kernel

/-- one line; one paragraph -/
example : ∃ d, Document.parse mdCfg 15 (L "c < d <, \"e\"! ![ x\n") = .ok d ∧ Markdown.render {} d = L "c < d <, \"e\"! ![ x\n" :=
  C09_prose_line_exact_partial mdCfg mdCfg_ok.1 mdCfg_ok.2.1 mdCfg_ok.2.2.1 mdCfg_ok.2.2.2 _ paras_ok.2.1 {} rfl 0

example : ∃ d, Document.parse mdCfg 15 para1.flatten = .ok d ∧
    Markdown.render { normalizeWhitespace := true } d = para1.flatten :=
  C09_prose_paragraph_exact_partial mdCfg mdCfg_ok.1 mdCfg_ok.2.1 mdCfg_ok.2.2.1 mdCfg_ok.2.2.2 _ paras_ok.1 _ rfl 0

/-- the hypotheses exclude what the renderer normalises: leading spaces are dropped (so the text is not
    reproduced), and a line limit re-breaks lines -/
example : normalPara [L "  indented\n"] = false := by decide +kernel
example : (Document.parse mdCfg 15 (L "  indented\n")).bind (fun d => Markdown.renderRes {} d) = .ok (L "indented\n") := by
  decide +kernel
example : (Document.parse mdCfg 15 (L "one two three\n")).bind (fun d => Markdown.renderRes { maxLineLength := some 7 } d) =
    .ok (L "one two\nthree\n") := by decide +kernel

/-- two levels of block quote around the three paragraphs: the theorem applies … -/
example : ∃ d, Document.parseLines mdCfg 35 (quoted 2 (docLines para1 [para2, para3])) = .ok d ∧
    Markdown.render {} d = (quoted 2 (docLines para1 [para2, para3])).flatten := by
  obtain ⟨d, h1, _, _, h3⟩ := C09_quoted_prose_exact_partial mdCfg
    [.linkRefDefBlock, .blankLine, .htmlBlock, .blockCode, .heading] [.codeFence, .thematicBreak, .list, .table, .paragraph]
    rfl (by decide) (by decide) mdCfg_ok.1 mdCfg_ok.2.1 mdCfg_ok.2.2.1 mdCfg_ok.2.2.2
    para1 [para2, para3] paras_ok.1 (by simp [paras_ok.2.1, paras_ok.2.2]) (by decide +kernel) 2 {} rfl 0
  exact ⟨d, h1, h3⟩

/-- … and the kernel evaluation of parser and renderer on a quoted document agrees -/
example : (Document.parse mdCfg 35 (L "> > first line\n> > second\n> > \n> > next paragraph\n")).bind
    (fun d => Markdown.renderRes {} d) = .ok (L "> > first line\n> > second\n> > \n> > next paragraph\n") := by decide +kernel
example : (quoted 2 (docLines [L "first line\n", L "second\n"] [[L "next paragraph\n"]])).flatten =
    L "> > first line\n> > second\n> > \n> > next paragraph\n" := by decide +kernel

/-- headings, a thematic break and paragraphs inside one block quote: the theorem applies … -/
def blocks : List Blk := [.para para2, .hr '*', .heading 2 (L "Sub-title, with * and _ inside"), .para para3]

theorem blocks_ok : (Blk.heading 1 (L "Title: a_b")).ok = true ∧ ∀ x ∈ blocks, x.ok = true := by decide +kernel

example : ∃ d, Document.parseLines mdCfg 30 (quoted 1 (itemsLines (.heading 1 (L "Title: a_b")) blocks)) = .ok d ∧
    Markdown.render {} d = (quoted 1 (itemsLines (.heading 1 (L "Title: a_b")) blocks)).flatten := by
  obtain ⟨d, h1, _, _, h3⟩ := C09_blocks_exact_partial mdCfg rfl mdCfg_ok.2.2.1 mdCfg_ok.2.2.2
    (.heading 1 (L "Title: a_b")) blocks blocks_ok.1 blocks_ok.2 (by decide +kernel) 1 {} rfl 0
  exact ⟨d, h1, h3⟩

/-- … and the kernel evaluation of parser and renderer on such a document agrees -/
example : (Document.parse mdCfg 30 (L "# Title: a_b\n\nc < d\n\n***\n\n## Sub-title, with * and _ inside\n\nlast line.\n")).bind
    (fun d => Markdown.renderRes {} d) =
      .ok (L "# Title: a_b\n\nc < d\n\n***\n\n## Sub-title, with * and _ inside\n\nlast line.\n") := by decide +kernel
example : (itemsLines (.heading 1 (L "Title: a_b")) [.para [L "c < d\n"], .hr '*']).flatten = L "# Title: a_b\n\nc < d\n\n***\n" := by
  decide +kernel

/-- outside the fragment: a closing sequence is normalised away only in its spacing, a setext heading keeps
    its underline — both are reproduced, but by other clauses of the renderer than the theorem covers;
    and a heading with leading spaces is not reproduced -/
example : (Document.parse mdCfg 30 (L "  # Title ##\n")).bind (fun d => Markdown.renderRes {} d) = .ok (L "# Title ##\n") := by
  decide +kernel

/-- `mdCfg` is the configuration of the working tree (so the examples are about `Config.markdown`) -/
example : Config.markdown.map (fun c => (c.block.types, c.block.tableInterrupt, c.span)) =
    some (mdCfg.block.types, mdCfg.block.tableInterrupt, mdCfg.span) := by decide +kernel

end Mistletoe.Props.C09
