/-
  C14 — Inert text stays text.

  "A paragraph made of words and punctuation in positions where CommonMark gives them no meaning
  … is rendered as exactly that text inside a single paragraph."  The block phase decides which
  lines form a paragraph.  Proved here, over the block-parser model (`Model/Block.lean`):

  * lines on which no block-start pattern fires (`inertLine`) form exactly one `Paragraph` entry
    holding exactly those lines, in order (`C14_single_paragraph`, `C14_block_phase`), for every
    token-type list that contains `Paragraph` — in particular the default list and the Markdown
    renderer's list — every `tableInterrupt`, every `Paragraph.parse_setext`, every start line;
  * such paragraphs separated by "\n" lines give one `Paragraph` each, numbered with the line it
    starts on (`C14_blank_separated`, `C14_blank_separated_phase`);
  * a line whose first character after at most three spaces is a letter — more generally, any
    character that no block pattern begins with — is inert (`C14_inert_of_plain`, `C14_inert_of_plainStart`).

  Inline half and end to end (second part of the file, lemmas in `Proofs/InertInline.lean`):

  * no candidate from any class ⇒ exactly one `RawText` with the unescaped string (`C14_no_candidates_raw`);
  * a decidable character-level condition `inertText` under which no class of the HTML renderer's
    span list (any list without `Math`/`GithubWiki`) finds anything and `html.unescape` is the
    identity, so the text is one `RawText` holding exactly the text (`C14_inline_inert`); with no `$`
    and no `[[` also for `Math`/`GithubWiki` (`C14_inline_inert_all`);
  * several such lines give `RawText, LineBreak(soft), RawText, …` (`C14_inline_lines`);
  * `Document` + `HtmlRenderer` on block-inert, inline-inert lines: one paragraph, rendered as
    `<p>` + the HTML-escaped text + `</p>\n` (`C14_prose_line`, `C14_prose`, `C14_prose_verbatim`).
-/
import Mistletoe.Proofs.Inert
import Mistletoe.Model.Config
import Mistletoe.Proofs.InertInline
namespace Mistletoe.Props.C14
open Mistletoe Mistletoe.Py Mistletoe.Scan Mistletoe.Block

/-! ### Inert lines -/

/-- No block-start pattern fires on the line (the scanners are the per-regex scanners of
    `Model/Scan.lean` / the `start` methods of `Model/Block.lean`, not the dispatcher):
    not blank; not indented code (four columns of indentation, counting a first tab as four spaces);
    no ATX heading; no block quote marker; no code fence; no thematic break; no list marker (neither
    `List.pattern` nor `ListItem.pattern`, which accepts more kinds of whitespace after the marker);
    no HTML block start of any of the seven kinds; no setext underline; no table delimiter row; no
    `[` that could begin a link reference definition. -/
def inertLine (s : Str) : Bool :=
  !isBlank s && !blockCodeStart s && (heading s).isNone && !quoteStart s && (codeFenceStart s).isNone
  && !thematicBreak s && !listStart s && (Scan.listItem s).isNone
  && (match htmlBlockStart s with | .ok none => true | _ => false)
  && !setext s && !delimiterRow s && !startsWith ['['] (lstrip s)

theorem inertLine_quiet (s : Str) (h : inertLine s = true) : Quiet s := by
  simp only [inertLine, Bool.and_eq_true, Bool.not_eq_eq_eq_not, Bool.not_true, Option.isNone_iff_eq_none] at h
  obtain ⟨⟨⟨⟨⟨⟨⟨⟨⟨⟨⟨h1, h2⟩, h3⟩, h4⟩, h5⟩, h6⟩, h7⟩, h8⟩, h9⟩, h10⟩, h11⟩, h12⟩ := h
  refine ⟨h1, h2, h3, h4, h5, h6, h7, h8, ?_, h10, h11, h12⟩
  split at h9
  · assumption
  · cases h9

theorem quiet_inertLine (s : Str) (h : Quiet s) : inertLine s = true := by
  simp [inertLine, h.nb, h.bc, h.hd, h.qt, h.cf, h.tb, h.ls, h.li, h.html, h.se, h.dr, h.br]

/-! ### A spec-style sufficient condition -/

/-- fewer than four leading spaces, then a character `plainStart` accepts: not whitespace, not a digit,
    none of ``# > ` ~ - _ * + = < [ | :`` -/
def plainLine (s : Str) : Bool :=
  countLeading ' ' s < 4 && (match s.drop (countLeading ' ' s) with | c :: _ => plainStart c | [] => false)

/-- the setext and delimiter-row scanners cannot match a line that starts with such a character -/
theorem C14_plain_not_setext (n : Nat) (c : Char) (rest : Str) (hn : n < 4) (hc : plainStart c = true) :
    setext (List.replicate n ' ' ++ c :: rest) = false ∧ delimiterRow (List.replicate n ' ' ++ c :: rest) = false :=
  ⟨plain_setext n c rest hn (plainChar_of c hc), plain_delimiterRow n c rest hn (plainChar_of c hc)⟩

/-- **a line whose first character after at most three spaces cannot begin any block pattern is inert** -/
theorem C14_inert_of_plainStart (n : Nat) (c : Char) (rest : Str) (hn : n < 4) (hc : plainStart c = true) :
    inertLine (List.replicate n ' ' ++ c :: rest) = true :=
  quiet_inertLine _ (quiet_of_plain n c rest hn (plainChar_of c hc))

/-- **a line whose first character after at most three spaces is an ASCII letter is inert**
    (whatever follows: tabs, `#`, `|`, `=`, … further on in the line have no block meaning) -/
theorem C14_inert_of_plain (n : Nat) (c : Char) (rest : Str) (hn : n < 4) (hc : isAlpha c = true) :
    inertLine (List.replicate n ' ' ++ c :: rest) = true :=
  C14_inert_of_plainStart n c rest hn (alpha_plain c hc)

theorem C14_inert_of_plainLine (s : Str) (h : plainLine s = true) : inertLine s = true := by
  simp only [plainLine, Bool.and_eq_true, decide_eq_true_eq] at h
  obtain ⟨hn, hc⟩ := h
  split at hc
  · rename_i c rest hd
    have := C14_inert_of_plainStart (countLeading ' ' s) c rest hn hc
    rw [← hd, ← countLeading_split] at this
    exact this
  · cases hc

/-! ### One paragraph -/

/-- the default `_token_types` (with `HtmlBlock` in front, as the HTML renderer installs it) -/
def defaultTypes : List BTok :=
  [.htmlBlock, .blockCode, .heading, .quote, .codeFence, .thematicBreak, .list, .table, .footnote, .paragraph]

/-- `_token_types` under the Markdown renderer -/
def markdownTypes : List BTok :=
  [.linkRefDefBlock, .blankLine, .htmlBlock, .blockCode, .heading, .quote, .codeFence, .thematicBreak, .list, .table, .paragraph]

/-- **Inert lines form exactly one paragraph holding exactly those lines.**  For every token-type
    list containing `Paragraph`, every `tableInterrupt`, every state (`Paragraph.parse_setext` on or
    off), every start line and every nesting gas ≥ `cfg.types.length + 4`: `tokenize_block` on a
    non-empty buffer of inert lines returns one `Paragraph` entry whose lines are the buffer, reported
    on `start` with the origin of the first line; the buffer is not loose; the state is unchanged. -/
theorem C14_single_paragraph (cfg : Cfg) (hpar : .paragraph ∈ cfg.types) (l0 : Line) (tl : List Line)
    (h : ∀ l ∈ l0 :: tl, inertLine l.s = true) (start : Nat) (st : St) (gas : Nat) :
    tokenizeBlock cfg (gas + (cfg.types.length + 4)) (l0 :: tl) start st =
      .ok ({ entries := [.paragraph ((l0 :: tl).map (·.s)) start l0.origin], loose := false }, st) := by
  have := tokLoop_doc cfg hpar start st [] (l0 :: tl) [] [] false (gas + (cfg.types.length + 3)) (by simp)
    (fun l hl => inertLine_quiet _ (h l hl)) (by simp) (by simp only [List.length_nil]; omega)
  simpa [tokenizeBlock, docLines, docEntries, firstOrigin] using this

/-- the default token types, either `tableInterrupt` -/
theorem C14_single_paragraph_default (ti : Bool) (l0 : Line) (tl : List Line)
    (h : ∀ l ∈ l0 :: tl, inertLine l.s = true) (start : Nat) (st : St) (gas : Nat) :
    tokenizeBlock { types := defaultTypes, tableInterrupt := ti } (gas + 14) (l0 :: tl) start st =
      .ok ({ entries := [.paragraph ((l0 :: tl).map (·.s)) start l0.origin], loose := false }, st) :=
  C14_single_paragraph { types := defaultTypes, tableInterrupt := ti } (show BTok.paragraph ∈ defaultTypes by decide) l0 tl h start st gas

/-- the Markdown renderer's token types, either `tableInterrupt` -/
theorem C14_single_paragraph_markdown (ti : Bool) (l0 : Line) (tl : List Line)
    (h : ∀ l ∈ l0 :: tl, inertLine l.s = true) (start : Nat) (st : St) (gas : Nat) :
    tokenizeBlock { types := markdownTypes, tableInterrupt := ti } (gas + 15) (l0 :: tl) start st =
      .ok ({ entries := [.paragraph ((l0 :: tl).map (·.s)) start l0.origin], loose := false }, st) :=
  C14_single_paragraph { types := markdownTypes, tableInterrupt := ti } (show BTok.paragraph ∈ markdownTypes by decide) l0 tl h start st gas

/-- the ghost-numbered lines `blockPhase` builds, numbering from `k + 1` -/
def numbered (k : Nat) (ls : List Str) : List Line := (ls.zipIdx k).map (fun (s, i) => { s := s, origin := i + 1 })

theorem numbered_cons (k : Nat) (s : Str) (ls : List Str) : numbered k (s :: ls) = { s := s, origin := k + 1 } :: numbered (k + 1) ls := by
  simp [numbered, List.zipIdx_cons]

theorem numbered_s : ∀ (k : Nat) (ls : List Str), (numbered k ls).map (·.s) = ls
  | _, [] => rfl
  | k, s :: ls => by rw [numbered_cons, List.map_cons, numbered_s (k + 1) ls]

theorem numbered_length (k : Nat) (ls : List Str) : (numbered k ls).length = ls.length := by
  simp [numbered]

theorem numbered_mem : ∀ (k : Nat) (ls : List Str) (l : Line), l ∈ numbered k ls → l.s ∈ ls
  | _, [], l, h => by simp [numbered] at h
  | k, s :: ls, l, h => by
    rw [numbered_cons] at h
    rcases List.mem_cons.mp h with rfl | h
    · simp
    · exact List.mem_cons_of_mem _ (numbered_mem (k + 1) ls l h)

theorem numbered_append : ∀ (k : Nat) (a b : List Str), numbered k (a ++ b) = numbered k a ++ numbered (k + a.length) b
  | _, [], b => by simp [numbered]
  | k, s :: a, b => by
    rw [List.cons_append, numbered_cons, numbered_cons, numbered_append (k + 1) a b]
    simp only [List.cons_append, List.length_cons]
    have : k + 1 + a.length = k + (a.length + 1) := by omega
    rw [this]

/-- **The block phase on a document of inert lines**: one paragraph, on line 1, with exactly the lines. -/
theorem C14_block_phase (cfg : Cfg) (hpar : .paragraph ∈ cfg.types) (lines : List Str) (hne : lines ≠ [])
    (h : ∀ s ∈ lines, inertLine s = true) (gas : Nat) :
    blockPhase cfg (gas + (cfg.types.length + 4)) lines =
      .ok ({ entries := [.paragraph lines 1 1], loose := false }, {}) := by
  cases lines with
  | nil => exact absurd rfl hne
  | cons s ls =>
    have e : blockPhase cfg (gas + (cfg.types.length + 4)) (s :: ls) =
        tokenizeBlock cfg (gas + (cfg.types.length + 4)) (numbered 0 (s :: ls)) 1 {} := rfl
    rw [e, numbered_cons]
    rw [C14_single_paragraph cfg hpar _ _ ?_ 1 {} gas]
    · have := numbered_s 0 (s :: ls)
      rw [numbered_cons] at this
      rw [this]
    · intro l hl
      rw [← numbered_cons] at hl
      exact h _ (numbered_mem _ _ _ hl)

/-! ### Paragraphs separated by "\n" lines

  `docLines p rest` (in `Proofs/Inert.lean`) is the buffer `p ++ b₁ :: q₁ ++ b₂ :: q₂ ++ …` for
  `rest = [(b₁, q₁), (b₂, q₂), …]`; `docEntries bl start p rest` is
  `Paragraph(p) @ start, [BlankLine @ start+|p|,] Paragraph(q₁) @ start+|p|+1, …` where each paragraph
  holds exactly its lines and `bl` says whether the Markdown renderer's `BlankLine` is a token type.
  What `tokenize_block` computes for the "\n" lines: without `BlankLine` no type starts on them, the
  line is skipped and the buffer becomes loose; with `BlankLine` each gives a `BlankLine` entry and
  the buffer is not loose. -/

/-- **Inert paragraphs separated by single "\n" lines parse to the corresponding paragraphs**, each
    reported on the line it starts on (`start` + index of its first line), for every token-type list
    containing `Paragraph`.  `loose` is set exactly when there is a separator and `BlankLine` is not
    among the token types. -/
theorem C14_blank_separated (cfg : Cfg) (hpar : .paragraph ∈ cfg.types) (p : List Line) (rest : List (Line × List Line))
    (hne : p ≠ []) (hp : ∀ l ∈ p, inertLine l.s = true)
    (hrest : ∀ bq ∈ rest, bq.1.s = ['\n'] ∧ bq.2 ≠ [] ∧ ∀ l ∈ bq.2, inertLine l.s = true)
    (start : Nat) (st : St) (gas : Nat) :
    tokenizeBlock cfg (gas + (2 * rest.length + cfg.types.length + 4)) (docLines p rest) start st =
      .ok ({ entries := docEntries (cfg.types.contains .blankLine) start p rest,
             loose := !cfg.types.contains .blankLine && !rest.isEmpty }, st) := by
  have := tokLoop_doc cfg hpar start st rest p [] [] false (gas + (2 * rest.length + cfg.types.length + 3)) hne
    (fun l hl => inertLine_quiet _ (hp l hl))
    (fun bq hbq => ⟨(hrest bq hbq).1, (hrest bq hbq).2.1, fun l hl => inertLine_quiet _ ((hrest bq hbq).2.2 l hl)⟩)
    (by omega)
  have e : gas + (2 * rest.length + cfg.types.length + 4) = (gas + (2 * rest.length + cfg.types.length + 3)) + 1 := by omega
  rw [e]
  simpa [tokenizeBlock] using this

/-- the document text: paragraphs joined by "\n" lines -/
def joinBlank : List Str → List (List Str) → List Str
  | p, [] => p
  | p, q :: rest => p ++ ['\n'] :: joinBlank q rest

/-- the expected entries: the paragraph whose first line is line `n` of the document reports `n`
    (and has ghost origin `n`) -/
def paraEntries (bl : Bool) : Nat → List Str → List (List Str) → List Entry
  | n, p, [] => [.paragraph p n n]
  | n, p, q :: rest =>
    .paragraph p n n :: ((if bl then [.blankLine (n + p.length) (n + p.length)] else []) ++ paraEntries bl (n + p.length + 1) q rest)

/-- the numbered separator/paragraph pairs that follow a paragraph ending at line `k` -/
def numberedRest : Nat → List (List Str) → List (Line × List Line)
  | _, [] => []
  | k, q :: rest => ({ s := ['\n'], origin := k + 1 }, numbered (k + 1) q) :: numberedRest (k + 1 + q.length) rest

theorem numbered_join : ∀ (rest : List (List Str)) (p : List Str) (k : Nat),
    numbered k (joinBlank p rest) = docLines (numbered k p) (numberedRest (k + p.length) rest)
  | [], p, k => rfl
  | q :: rest, p, k => by
    simp only [joinBlank, numberedRest, docLines]
    rw [numbered_append, numbered_cons, numbered_join rest q (k + p.length + 1)]

theorem firstOrigin_numbered (k : Nat) (p : List Str) (h : p ≠ []) : firstOrigin (numbered k p) = k + 1 := by
  cases p with
  | nil => exact absurd rfl h
  | cons s ls => rw [numbered_cons]; rfl

theorem docEntries_numbered (bl : Bool) : ∀ (rest : List (List Str)) (p : List Str) (k : Nat),
    p ≠ [] → (∀ q ∈ rest, q ≠ []) →
    docEntries bl (k + 1) (numbered k p) (numberedRest (k + p.length) rest) = paraEntries bl (k + 1) p rest
  | [], p, k, hp, _ => by
    simp only [numberedRest, docEntries, paraEntries, numbered_s, firstOrigin_numbered k p hp]
  | q :: rest, p, k, hp, hr => by
    have ih := docEntries_numbered bl rest q (k + p.length + 1) (hr q (by simp)) (fun x hx => hr x (List.mem_cons_of_mem _ hx))
    simp only [numberedRest, docEntries, paraEntries, numbered_s, firstOrigin_numbered k p hp, numbered_length]
    have e : k + 1 + p.length + 1 = k + p.length + 1 + 1 := by omega
    have e2 : k + 1 + p.length = k + p.length + 1 := by omega
    rw [e, ih, e2]

theorem numberedRest_ok : ∀ (rest : List (List Str)) (k : Nat),
    (∀ q ∈ rest, q ≠ [] ∧ ∀ s ∈ q, inertLine s = true) →
    (numberedRest k rest).length = rest.length ∧
    ∀ bq ∈ numberedRest k rest, bq.1.s = ['\n'] ∧ bq.2 ≠ [] ∧ ∀ l ∈ bq.2, inertLine l.s = true
  | [], _, _ => by simp [numberedRest]
  | q :: rest, k, h => by
    have ih := numberedRest_ok rest (k + 1 + q.length) (fun x hx => h x (List.mem_cons_of_mem _ hx))
    have hq := h q (by simp)
    simp only [numberedRest, List.length_cons, ih.1, true_and]
    intro bq hbq
    rcases List.mem_cons.mp hbq with rfl | hbq
    · refine ⟨rfl, ?_, fun l hl => hq.2 _ (numbered_mem _ _ _ hl)⟩
      intro e
      have := congrArg List.length e
      rw [numbered_length] at this
      exact hq.1 (List.eq_nil_of_length_eq_zero this)
    · exact ih.2 bq hbq

/-- **The block phase on inert paragraphs separated by single empty lines**: one `Paragraph` per
    paragraph, holding exactly its lines, numbered with the document line it starts on. -/
theorem C14_blank_separated_phase (cfg : Cfg) (hpar : .paragraph ∈ cfg.types) (p : List Str) (rest : List (List Str))
    (hp : p ≠ [] ∧ ∀ s ∈ p, inertLine s = true) (hrest : ∀ q ∈ rest, q ≠ [] ∧ ∀ s ∈ q, inertLine s = true) (gas : Nat) :
    blockPhase cfg (gas + (2 * rest.length + cfg.types.length + 4)) (joinBlank p rest) =
      .ok ({ entries := paraEntries (cfg.types.contains .blankLine) 1 p rest,
             loose := !cfg.types.contains .blankLine && !rest.isEmpty }, {}) := by
  have e : ∀ g, blockPhase cfg g (joinBlank p rest) = tokenizeBlock cfg g (numbered 0 (joinBlank p rest)) 1 {} := fun _ => rfl
  have hr := numberedRest_ok rest (0 + p.length) hrest
  rw [e, numbered_join]
  have := C14_blank_separated cfg hpar (numbered 0 p) (numberedRest (0 + p.length) rest)
    (by intro e
        have := congrArg List.length e
        rw [numbered_length] at this
        exact hp.1 (List.eq_nil_of_length_eq_zero this))
    (fun l hl => hp.2 _ (numbered_mem _ _ _ hl)) hr.2 1 {} gas
  rw [hr.1] at this
  rw [this]
  have d := docEntries_numbered (cfg.types.contains .blankLine) rest p 0 hp.1 (fun q hq => (hrest q hq).1)
  simp only [Nat.zero_add] at d ⊢
  rw [d]
  cases rest <;> simp [numberedRest]

/-! ### Non-vacuity -/

def L (s : String) : Str := s.toList

example : inertLine (L "a_b_c *\n") = true := by decide +kernel
example : inertLine (L "3.14) x - y\n") = true := by decide +kernel
example : inertLine (L "a | b > c # d\n") = true := by decide +kernel
example : inertLine (L "1.5 is + or - = ~ ^ $ % @ [ ] &\n") = true := by decide +kernel
example : inertLine (L "   (see p. 3) a\tb\n") = true := by decide +kernel
/-- the predicate is not trivially true: each of these starts (or may start) a block -/
example : [L "# h\n", L "> q\n", L "- item\n", L "1. item\n", L "***\n", L "===\n", L "```\n", L "    code\n",
    L "<div>\n", L "[a]: b\n", L "|-|-|\n", L "\n", L "-\x0cfoo\n"].map inertLine = List.replicate 13 false := by decide +kernel
example : plainLine (L "  word # not a heading | not a table\n") = true := by decide +kernel

def sample : List Str := [L "a_b_c *\n", L "3.14) x - y\n", L "a | b > c # d\n", L "1.5 is + or - = ~ ^ $ % @ [ ] &\n"]

/-- the four lines form one paragraph under the default token types … -/
example : blockPhase { types := defaultTypes } 14 sample = .ok ({ entries := [.paragraph sample 1 1], loose := false }, {}) :=
  C14_block_phase { types := defaultTypes } (by decide) sample (by decide) (by decide +kernel) 0

/-- … and under the Markdown renderer's -/
example : blockPhase { types := markdownTypes, tableInterrupt := false } 15 sample =
    .ok ({ entries := [.paragraph sample 1 1], loose := false }, {}) :=
  C14_block_phase { types := markdownTypes, tableInterrupt := false } (by decide) sample (by decide) (by decide +kernel) 0

/-- two paragraphs separated by an empty line: lines 1–2 and 4–5 -/
example : blockPhase { types := defaultTypes } 16 (joinBlank (sample.take 2) [sample.drop 2]) =
    .ok ({ entries := [.paragraph (sample.take 2) 1 1, .paragraph (sample.drop 2) 4 4], loose := true }, {}) :=
  C14_blank_separated_phase { types := defaultTypes } (by decide) (sample.take 2) [sample.drop 2]
    (by decide +kernel) (by decide +kernel) 0

example : blockPhase { types := markdownTypes } 17 (joinBlank (sample.take 2) [sample.drop 2]) =
    .ok ({ entries := [.paragraph (sample.take 2) 1 1, .blankLine 3 3, .paragraph (sample.drop 2) 4 4], loose := false }, {}) :=
  C14_blank_separated_phase { types := markdownTypes } (by decide) (sample.take 2) [sample.drop 2]
    (by decide +kernel) (by decide +kernel) 0


/-! ## Inline half: inert text stays text

  The predicate (defined in `Proofs/InertInline.lean`), character by character.  `inertBody s` holds when

  * `s` contains no backslash and no backtick;
  * every `<` is the last character or is followed by a character other than an ASCII letter or
    digit and other than ``.!#$%&'*+/=?^_`{|}~-`` (so: a space, a newline, `(`, `,`, `"`, `<`, `>`, …),
    which rules out autolinks and every kind of raw HTML (`ltOk`);
  * after every `&`, the run of characters other than tab, newline, form feed, space, `<`, `&`, `;`
    is not followed by `;` — no character reference starts there (`ampOk`: "a & b", "AT&T", "x &" pass,
    "&amp;", "&#35;" do not);
  * there is no `~~` (`tildeOk`);
  * after the first `[` there is no `]` (`bracketsOk`: unpaired brackets, also `![`);
  * no run of `*` or of `_` can close emphasis (`emphOk`: the run is not right-flanking, or — for `_` —
    is also left-flanking and not followed by punctuation; e.g. intraword `_`, `*` or `_` between
    spaces, `*` or `_` at the start of a word);
  * every other character is unrestricted: letters, digits, spaces, newlines, non-ASCII text and
    ``. , ; : ( ) - + = | # > / ' " ^ $ % @ ? ! { }`` and single `~`.

  `inertText s` = `inertBody s` and `s` contains no newline.
  Covered span token classes (`inertClass`): all except `Math` and `GithubWiki`, which give `$` and
  `[[ | ]]` a meaning; in particular the default HTML list `htmlSpanTypes`, in any order, with or
  without `Strikethrough`. -/

open Mistletoe.Inline Mistletoe.InertInline

/-- `span_token._token_types` under the HTML renderer (RawText, the fallback, is implicit) -/
def htmlSpanTypes : List STok :=
  [.escapeSequence, .htmlSpan, .autoLink, .coreTokens, .inlineCode, .lineBreak, .strikethrough]

theorem htmlSpanTypes_inert : ∀ t ∈ htmlSpanTypes, inertClass t = true := by decide

/-- **No candidates, one RawText.**  For every token-class list and definitions table: if no class
    finds a match in a non-empty string, `tokenize_inner` returns exactly one `RawText`, whose content
    is `html.unescape` of the whole string. -/
theorem C14_no_candidates_raw (types : List STok) (fn : Footnotes.Table) (s : Str)
    (h : findAll s types fn = .ok []) (hne : s ≠ []) :
    tokenizeInner types fn s = .ok [.rawText (Unescape.unescape true s)] :=
  tokenizeInner_no_candidates types fn s h hne

/-- for the empty string `tokenize_inner` returns no token at all (`make_tokens` adds no empty RawText) -/
theorem C14_no_candidates_empty (types : List STok) (fn : Footnotes.Table) (h : findAll [] types fn = .ok []) :
    tokenizeInner types fn [] = .ok [] :=
  tokenizeInner_no_candidates_nil types fn h

/-- **Inert one-line text is one RawText holding exactly the text.**  For every list of covered
    classes (in any order, with repetitions) and every definitions table: no class finds a match,
    `html.unescape` is the identity on the text, and `tokenize_inner` returns `[RawText(text)]`. -/
theorem C14_inline_inert (types : List STok) (fn : Footnotes.Table) (s : Str)
    (ht : ∀ t ∈ types, inertClass t = true) (h : inertText s = true) :
    findAll s types fn = .ok [] ∧ Unescape.unescape true s = s ∧
      (s ≠ [] → tokenizeInner types fn s = .ok [.rawText s]) := by
  refine ⟨findAll_inert s types fn ht h, ?_, tokenizeInner_inert types fn s ht h⟩
  simp only [inertText, Bool.and_eq_true] at h
  exact unescape_inert s (inertBody_parts s h.1).2.1

/-- the same for the HTML renderer's token list -/
theorem C14_inline_inert_html (fn : Footnotes.Table) (s : Str) (h : inertText s = true) (hne : s ≠ []) :
    tokenizeInner htmlSpanTypes fn s = .ok [.rawText s] :=
  (C14_inline_inert htmlSpanTypes fn s htmlSpanTypes_inert h).2.2 hne

/-- **Every modelled class, `Math`, `GithubWiki` and the two XWiki macro classes included**: if moreover
    the text contains no `$` and no `[[` and does not begin with `\s*{{/` (`xmacroOk`: the one place where
    `XWikiBlockMacroEnd` can fire on a text without newline; `XWikiBlockMacroStart` needs a newline), no class
    at all finds a match — for every token list whatsoever.  The hypothesis `hx` was added when the two XWiki
    classes were modelled: the inert text `{{/info}}` IS one `XWikiBlockMacroEnd` token under a list with that class. -/
theorem C14_inline_inert_all (types : List STok) (fn : Footnotes.Table) (s : Str)
    (h : inertText s = true) (hd : '$' ∉ s) (hw : wikiOk s = true) (hx : xmacroOk s = true) :
    findAll s types fn = .ok [] ∧ (s ≠ [] → tokenizeInner types fn s = .ok [.rawText s]) :=
  ⟨findAll_inert_all s types fn h hd hw hx, tokenizeInner_inert_all types fn s h hd hw hx⟩

/-- **Characters with no inline meaning anywhere.**  Text made only of characters other than
    ``\ ` < & ~ [ * _`` and newline — ASCII letters, digits, spaces, every non-ASCII character and
    ``. , ; : ( ) - + = | # > / ' " ^ $ % @ ? ! ] { }`` — is inert, whatever the order. -/
theorem C14_inert_of_plain_chars (s : Str) (h : ∀ c ∈ s, plainInline c = true) : inertText s = true :=
  inertText_of_plain s h

/-- the characters named in the property are among them -/
example : (". ,;:()-+=|#>/'\"^$%@?!]{}azAZ09 é日".toList).all plainInline = true := by decide

/-- **The interesting characters**: a run of `*` / `_` preceded by whitespace or at the start of the
    text cannot close emphasis, and neither can an intraword `_` run; these are two of the cases in
    which `emphOk` (hence `inertText`) accepts the run. -/
theorem C14_delimiter_cases :
    (∀ d b a, Core.uniWs b = true → canClose d b a = false) ∧
    (∀ b a, Core.uniWs b = false → Core.punct b = false → Core.uniWs a = false → Core.punct a = false →
      canClose '_' b a = false) :=
  ⟨canClose_after_space, canClose_intraword⟩

/-- **Several inert lines.**  `ts` are the lines of a paragraph as `Paragraph.__init__` joins them
    (non-empty, no newline inside, not ending in a space; backslashes are excluded by `inertBody`), the
    joined text is inert, the token list consists of covered classes and contains `LineBreak` once:
    `tokenize_inner` returns the lines as `RawText`s, in order, each holding exactly its line, with
    one soft `LineBreak` between consecutive lines, and nothing else. -/
theorem C14_inline_lines (types : List STok) (fn : Footnotes.Table) (ts : List Str)
    (ht : ∀ t ∈ types, inertClass t = true) (hc : types.count .lineBreak = 1) (hne : ts ≠ [])
    (hl : ∀ t ∈ ts, t ≠ [] ∧ '\n' ∉ t ∧ t.getLast? ≠ some ' ')
    (hb : inertBody (Document.joinNl ts) = true) :
    tokenizeInner types fn (Document.joinNl ts) = .ok (proseInlines ts) := by
  refine tokenizeInner_lines types fn ts ht hc hne ?_ hb
  intro t htm
  obtain ⟨h1, h2, h3⟩ := hl t htm
  refine ⟨h1, h2, ?_, h3⟩
  intro hm
  exact ((inertBody_parts _ hb).1.ok '\\' (mem_joinNl ts t htm _ hm)).1 rfl

/-! ## End to end -/

open Mistletoe.Html Mistletoe.Escape

/-- **One line of prose.**  The block token types contain `Paragraph`, the span token classes are
    covered ones; the line is block-inert (`inertLine`) and its stripped content is inline-inert
    (`inertText`).  Then `Document([l])` is one `Paragraph` on line 1 whose only child is a `RawText`
    holding exactly the stripped line, there are no link definitions, and the HTML renderer (every
    quote option) gives `<p>`, that text HTML-escaped by `escape_html_text`, `</p>` and a newline. -/
theorem C14_prose_line (cfg : Document.Cfg) (hpar : .paragraph ∈ cfg.block.types)
    (ht : ∀ t ∈ cfg.span, inertClass t = true) (l : Str) (hl : inertLine l = true)
    (hi : inertText (strip l) = true) (gas : Nat) :
    Document.parseLines cfg (gas + (cfg.block.types.length + 4)) [l] =
        .ok { kids := [.paragraph [.rawText (strip l)] 1], footnotes := [] } ∧
    ∀ o : Opts, render o { kids := [.paragraph [.rawText (strip l)] 1], footnotes := [] } =
        "<p>".toList ++ escapeHtmlText o.dq o.sq (strip l) ++ "</p>\n".toList := by
  constructor
  · unfold Document.parseLines
    rw [C14_block_phase cfg.block hpar [l] (by simp) (by simpa using hl) gas]
    simp only
    rw [mkBlocks_prose_line cfg _ l 1 1 ht (inertLine_quiet l hl).nb hi]
    rfl
  · intro o
    have := render_prose o [strip l] 1 []
    simpa [proseInlines, Document.joinNl] using this

/-- **A paragraph of prose.**  The block token types contain `Paragraph`; the span token classes are
    covered ones and contain `LineBreak` once (e.g. `htmlSpanTypes`); every line is block-inert
    (`inertLine`) and has the shape indentation + text + "\n" with no whitespace before the "\n"
    (`proseLine`); the stripped lines joined by "\n" are inline-inert (`inertBody`).  Then
    `Document(ls)` is one `Paragraph` on line 1 whose children are the stripped lines as `RawText`s,
    in order, with soft `LineBreak`s between them; there are no link definitions; and the HTML
    renderer (every quote option) gives `<p>`, the stripped lines joined by "\n" and HTML-escaped by
    `escape_html_text`, `</p>` and a newline: nothing dropped, added, reordered or turned into markup. -/
theorem C14_prose (cfg : Document.Cfg) (hpar : .paragraph ∈ cfg.block.types)
    (ht : ∀ t ∈ cfg.span, inertClass t = true) (hc : cfg.span.count .lineBreak = 1)
    (ls : List Str) (hne : ls ≠ []) (hl : ∀ l ∈ ls, inertLine l = true ∧ proseLine l = true)
    (hi : inertBody (Document.joinNl (ls.map strip)) = true) (gas : Nat) :
    Document.parseLines cfg (gas + (cfg.block.types.length + 4)) ls =
        .ok { kids := [.paragraph (proseInlines (ls.map strip)) 1], footnotes := [] } ∧
    ∀ o : Opts, render o { kids := [.paragraph (proseInlines (ls.map strip)) 1], footnotes := [] } =
        "<p>".toList ++ escapeHtmlText o.dq o.sq (Document.joinNl (ls.map strip)) ++ "</p>\n".toList := by
  constructor
  · unfold Document.parseLines
    rw [C14_block_phase cfg.block hpar ls hne (fun s hs => (hl s hs).1) gas]
    simp only
    rw [mkBlocks_prose cfg _ ls 1 1 ht hc hne (fun s hs => (hl s hs).2) hi]
    rfl
  · intro o
    exact render_prose o (ls.map strip) 1 []

/-- when the text moreover contains none of `& < > " '`, the output is the text itself between
    `<p>` and `</p>` -/
theorem C14_prose_verbatim (cfg : Document.Cfg) (hpar : .paragraph ∈ cfg.block.types)
    (ht : ∀ t ∈ cfg.span, inertClass t = true) (hc : cfg.span.count .lineBreak = 1)
    (ls : List Str) (hne : ls ≠ []) (hl : ∀ l ∈ ls, inertLine l = true ∧ proseLine l = true)
    (hi : inertBody (Document.joinNl (ls.map strip)) = true)
    (hp : ∀ c ∈ Document.joinNl (ls.map strip), c ≠ '&' ∧ c ≠ '<' ∧ c ≠ '>' ∧ c ≠ '"' ∧ c ≠ '\'')
    (gas : Nat) (o : Opts) :
    ∃ doc, Document.parseLines cfg (gas + (cfg.block.types.length + 4)) ls = .ok doc ∧
      render o doc = "<p>".toList ++ Document.joinNl (ls.map strip) ++ "</p>\n".toList := by
  obtain ⟨h1, h2⟩ := C14_prose cfg hpar ht hc ls hne hl hi gas
  refine ⟨_, h1, ?_⟩
  rw [h2 o, escape_plain _ _ _ hp]

/-- **From a `str`.**  `Document(text)` for the text `l₁ ++ … ++ lₙ` whose lines each end in "\n" and
    contain no other line-boundary character (`oneLine`: what `str.splitlines(keepends=True)` keeps
    together): `Document.__init__` recovers exactly the lines, so `C14_prose` applies. -/
theorem C14_prose_text (cfg : Document.Cfg) (hpar : .paragraph ∈ cfg.block.types)
    (ht : ∀ t ∈ cfg.span, inertClass t = true) (hc : cfg.span.count .lineBreak = 1)
    (ls : List Str) (hne : ls ≠ []) (h1 : ∀ l ∈ ls, oneLine l = true)
    (hl : ∀ l ∈ ls, inertLine l = true ∧ proseLine l = true)
    (hi : inertBody (Document.joinNl (ls.map strip)) = true) (gas : Nat) :
    Document.parse cfg (gas + (cfg.block.types.length + 4)) ls.flatten =
        .ok { kids := [.paragraph (proseInlines (ls.map strip)) 1], footnotes := [] } ∧
    ∀ o : Opts, render o { kids := [.paragraph (proseInlines (ls.map strip)) 1], footnotes := [] } =
        "<p>".toList ++ escapeHtmlText o.dq o.sq (Document.joinNl (ls.map strip)) ++ "</p>\n".toList := by
  rw [parse_lines cfg _ ls h1]
  exact C14_prose cfg hpar ht hc ls hne hl hi gas

/-- the one-line version: `Document(l)` for a `str` that is one "\n"-terminated line -/
theorem C14_prose_line_text (cfg : Document.Cfg) (hpar : .paragraph ∈ cfg.block.types)
    (ht : ∀ t ∈ cfg.span, inertClass t = true) (l : Str) (h1 : oneLine l = true) (hl : inertLine l = true)
    (hi : inertText (strip l) = true) (gas : Nat) :
    Document.parse cfg (gas + (cfg.block.types.length + 4)) l =
        .ok { kids := [.paragraph [.rawText (strip l)] 1], footnotes := [] } ∧
    ∀ o : Opts, render o { kids := [.paragraph [.rawText (strip l)] 1], footnotes := [] } =
        "<p>".toList ++ escapeHtmlText o.dq o.sq (strip l) ++ "</p>\n".toList := by
  have := parse_lines cfg (gas + (cfg.block.types.length + 4)) [l] (by simpa using h1)
  simp only [List.flatten_cons, List.flatten_nil, List.append_nil] at this
  rw [this]
  exact C14_prose_line cfg hpar ht l hl hi gas

/-! ### Non-vacuity (inline half and end to end) -/

example : inertText (L "a_b_c * d - 3.14) x | y # z") = true := by decide +kernel
example : inertText (L "1.5 is + or - = ~ ^ $ % @ [ & AT&T a & b; c < d <, e! ![ x") = true := by decide +kernel
example : inertText (L "snake_case_name and 2 * 3 and *foo and (a) \"q\" 'r' é ü 日本 ] then [") = true := by decide +kernel
/-- the predicate is not trivially true: a closing `*`, `*` between digits, strikethrough, a bracket
    pair, a backslash, code, an HTML tag, character references, `<` before a letter, `_a_`, a newline,
    a closing `_` -/
example : [L "foo*", L "2*3", L "a ~~b~~", L "[a]", L "a\\b", L "`c`", L "<a>", L "&amp;", L "&#35;", L "x <y",
    L "_a_", L "a\nb", L "a_ b"].map inertText = List.replicate 13 false := by decide +kernel

/-- the text comes back as one RawText (by the theorem, and by evaluation) -/
example : tokenizeInner htmlSpanTypes [] (L "a_b_c * d - 3.14) x | y # z") = .ok [.rawText (L "a_b_c * d - 3.14) x | y # z")] :=
  C14_inline_inert_html [] _ (by decide +kernel) (by decide)
/-- the same by evaluation (`Inline` has no decidable equality: compare the rendered inlines) -/
def inlineHtml (s : Str) : Res Str :=
  (tokenizeInner htmlSpanTypes [] s).bind (fun k => .ok (flat (renderInlines ⟨false, false⟩ k)))
example : inlineHtml (L "a_b_c * d - 3.14) x | y # z") = .ok (L "a_b_c * d - 3.14) x | y # z") := by decide +kernel
/-- … whereas the rejected texts do become markup -/
example : [L "2*3*4", L "a ~~b~~", L "[a](b)", L "<i>x &amp; `c`"].map inlineHtml =
    [.ok (L "2<em>3</em>4"), .ok (L "a <del>b</del>"), .ok (L "<a href=\"b\">a</a>"), .ok (L "<i>x &amp; <code>c</code>")] := by
  decide +kernel

def cfgHtml : Document.Cfg := { block := { types := defaultTypes }, span := htmlSpanTypes }

def prose : List Str := [L "  a_b_c * d - 3.14) x | y # z\n", L "1.5 is + or - = ~ ^ $ % @ [ & AT&T\n", L "c < d <, \"e\"! ![ x\n"]

theorem prose_lines_ok : ∀ l ∈ prose, inertLine l = true ∧ proseLine l = true := by decide +kernel
theorem prose_text_ok : inertBody (Document.joinNl (prose.map strip)) = true := by decide +kernel

/-- three lines of prose: one paragraph, three RawTexts separated by soft line breaks, rendered as the
    escaped text (instance of `C14_prose`; the right-hand sides are literal) -/
example : Document.parseLines cfgHtml 14 prose =
    .ok { kids := [.paragraph [.rawText (L "a_b_c * d - 3.14) x | y # z"), .lineBreak [] true,
                               .rawText (L "1.5 is + or - = ~ ^ $ % @ [ & AT&T"), .lineBreak [] true,
                               .rawText (L "c < d <, \"e\"! ![ x")] 1], footnotes := [] } :=
  (C14_prose cfgHtml (by decide) htmlSpanTypes_inert (by decide) prose (by decide) prose_lines_ok prose_text_ok 0).1

example : ∃ d, Document.parseLines cfgHtml 14 prose = .ok d ∧ render {} d =
    L "<p>a_b_c * d - 3.14) x | y # z\n1.5 is + or - = ~ ^ $ % @ [ &amp; AT&amp;T\nc &lt; d &lt;, \"e\"! ![ x</p>\n" := by
  obtain ⟨h1, h2⟩ := C14_prose cfgHtml (by decide) htmlSpanTypes_inert (by decide) prose (by decide)
    prose_lines_ok prose_text_ok 0
  exact ⟨_, h1, by rw [h2]; decide +kernel⟩

/-- and with `html_escape_double_quotes=True` -/
example : ∃ d, Document.parseLines cfgHtml 14 prose = .ok d ∧ render { dq := true } d =
    L "<p>a_b_c * d - 3.14) x | y # z\n1.5 is + or - = ~ ^ $ % @ [ &amp; AT&amp;T\nc &lt; d &lt;, &quot;e&quot;! ![ x</p>\n" := by
  obtain ⟨h1, h2⟩ := C14_prose cfgHtml (by decide) htmlSpanTypes_inert (by decide) prose (by decide)
    prose_lines_ok prose_text_ok 0
  exact ⟨_, h1, by rw [h2]; decide +kernel⟩

/-- why `proseLine` excludes whitespace before the "\n": two trailing spaces are a hard line break
    (markup), one trailing space is dropped -/
example : (Document.parseLines cfgHtml 14 [L "a  \n", L "b\n"]).bind (fun d => .ok (render {} d)) = .ok (L "<p>a<br />\nb</p>\n") := by
  decide +kernel
example : (Document.parseLines cfgHtml 14 [L "a \n", L "b\n"]).bind (fun d => .ok (render {} d)) = .ok (L "<p>a\nb</p>\n") := by
  decide +kernel

example : Document.parseLines cfgHtml 14 [L "   (see p. 3) a_b * c\n"] =
    .ok { kids := [.paragraph [.rawText (L "(see p. 3) a_b * c")] 1], footnotes := [] } :=
  (C14_prose_line cfgHtml (by decide) htmlSpanTypes_inert (L "   (see p. 3) a_b * c\n") (by decide +kernel) (by decide +kernel) 0).1

/-- from the text as one `str` (instance of `C14_prose_text`) -/
example : Document.parse cfgHtml 14 (L "  a_b_c * d - 3.14) x | y # z\n1.5 is + or - = ~ ^ $ % @ [ & AT&T\nc < d <, \"e\"! ![ x\n") =
    .ok { kids := [.paragraph [.rawText (L "a_b_c * d - 3.14) x | y # z"), .lineBreak [] true,
                               .rawText (L "1.5 is + or - = ~ ^ $ % @ [ & AT&T"), .lineBreak [] true,
                               .rawText (L "c < d <, \"e\"! ![ x")] 1], footnotes := [] } :=
  (C14_prose_text cfgHtml (by decide) htmlSpanTypes_inert (by decide) prose (by decide) (by decide +kernel)
    prose_lines_ok prose_text_ok 0).1


/-! ### The configurations of the working tree are covered

  `defaultTypes` / `markdownTypes` above are literals; the lists the bundled renderers really install are
  regenerated from /repo on every run (`Gen/RenderMaps.lean` → `Model/Config.lean`).  These theorems are
  re-checked against the regenerated lists, so a change to the token lists of the working tree that takes
  them outside what the C14 theorems cover breaks an obligation. -/

/-- the block-token lists installed by `HtmlRenderer` and `MarkdownRenderer` are the literals used above -/
theorem C14_config_current :
    Config.html.map (·.block.types) = some defaultTypes ∧
    Config.markdown.map (·.block.types) = some markdownTypes := by decide +kernel

/-- every span-token list of those configurations consists of inert classes, with `LineBreak` exactly
    once, and `Paragraph` is a block type: the hypotheses `hpar`, `ht`, `hc` of `C14_prose` hold for them -/
theorem C14_config_covered : ∀ cfg, (Config.html = some cfg ∨ Config.markdown = some cfg ∨ Config.default = some cfg) →
    .paragraph ∈ cfg.block.types ∧ (∀ t ∈ cfg.span, inertClass t = true) ∧ cfg.span.count .lineBreak = 1 := by
  have h : ∀ o ∈ [Config.html, Config.markdown, Config.default], ∀ cfg, o = some cfg →
      (cfg.block.types.contains .paragraph && cfg.span.all inertClass && cfg.span.count .lineBreak == 1) = true := by
    decide +kernel
  intro cfg hc
  have := h (some cfg) (by rcases hc with hc | hc | hc <;> simp [hc]) cfg rfl
  simp only [Bool.and_eq_true, List.contains_iff_mem, List.all_eq_true, beq_iff_eq] at this
  exact ⟨this.1.1, this.1.2, this.2⟩

end Mistletoe.Props.C14
