/-
  C15 — The same text gives the same result however it is supplied.

  Everything the parser and every renderer compute is a function of the line list produced by
  `Document.__init__` (`Lines.normalize`).  The theorems show that this list is the same for the
  three in-process forms, and unchanged by a final newline, for every text whose only line
  terminator is '\n'.  (The CLI form is file I/O: tied by the `cli` correspondence unit only.)
-/
import Mistletoe.Proofs.Lines
namespace Mistletoe.Props.C15
open Mistletoe Mistletoe.Lines

/-- The text contains none of `str.splitlines`' separators except '\n'
    (`\r \v \f \x1c \x1d \x1e \x85 U+2028 U+2029`; table regenerated from the interpreter). -/
def OnlyLf (t : Str) : Prop := ∀ c ∈ t, isLineSep c = true → c = '\n'

theorem isLineSep_nl : isLineSep '\n' = true := by decide

theorem splitlines_eq_aux (t acc : Str) (h : OnlyLf t) :
    splitlinesAux t acc = splitKeepLfAux t acc := by
  induction t generalizing acc with
  | nil => rfl
  | cons c rest ih =>
    have hrest : OnlyLf rest := fun d hd => h d (List.mem_cons_of_mem _ hd)
    have hc := h c (List.mem_cons_self ..)
    unfold splitlinesAux splitKeepLfAux
    by_cases hnl : c = '\n'
    · subst hnl
      simp only [isLineSep_nl, if_true]
      rw [if_neg (by decide)]
      simp [ih _ hrest]
    · have hsep : isLineSep c = false := by
        cases hs : isLineSep c with
        | false => rfl
        | true => exact absurd (hc hs) hnl
      have hcr : c ≠ '\r' := by
        intro h'; subst h'; revert hsep; decide
      simp only [hcr, if_false, hsep, hnl, Bool.false_eq_true]
      exact ih _ hrest

/-- **str = list of lines = file**: for a text with only '\n' terminators the three in-process
    forms hand the same line list to the parser. -/
theorem C15_forms (t : Str) (h : OnlyLf t) :
    normalize (.str t) = normalize (.list (splitKeepLf t)) ∧
    normalize (.str t) = normalize (.file t) := by
  have : pySplitlines t = splitKeepLf t := splitlines_eq_aux t [] h
  simp [normalize, this]

/-- Appending '\n' to a text whose last line is unterminated changes nothing after completion. -/
theorem split_final_aux (t acc : Str) (hne : ¬ (t = [] ∧ acc = []))
    (hlast : endsWithNl (acc.reverse ++ t) = false) :
    (splitKeepLfAux (t ++ ['\n']) acc).map complete = (splitKeepLfAux t acc).map complete := by
  induction t generalizing acc with
  | nil =>
    have hacc : acc ≠ [] := fun h => hne ⟨rfl, h⟩
    have hemp : acc.isEmpty = false := by cases acc <;> simp_all
    simp only [List.append_nil] at hlast
    have h1 : complete (acc.reverse ++ ['\n']) = acc.reverse ++ ['\n'] := by
      unfold complete; rw [endsWithNl_snoc]; rfl
    have h2 : complete acc.reverse = acc.reverse ++ ['\n'] := by
      unfold complete; rw [hlast]; rfl
    simp [splitKeepLfAux, hemp, h1, h2]
  | cons c rest ih =>
    simp only [List.cons_append, splitKeepLfAux]
    by_cases hnl : c = '\n'
    · subst hnl
      simp only [if_true, List.map_cons, List.cons.injEq, true_and]
      by_cases hr : rest = []
      · subst hr
        exfalso
        rw [endsWithNl_snoc] at hlast
        cases hlast
      · apply ih
        · intro h; exact hr h.1
        · have e : acc.reverse ++ '\n' :: rest = (acc.reverse ++ ['\n']) ++ rest := by simp
          rw [e, endsWithNl_append _ _ hr] at hlast
          simpa [endsWithNl_append _ _ hr] using hlast
    · simp only [hnl, if_false]
      apply ih
      · intro h; simp at h
      · simpa using hlast

/-- **With or without a final newline**: if the last line of the text is non-empty and
    unterminated, adding the final '\n' gives the same line list. -/
theorem C15_final_newline (t : Str) (h : OnlyLf t) (hne : t ≠ []) (hlast : endsWithNl t = false) :
    normalize (.str (t ++ ['\n'])) = normalize (.str t) := by
  have h' : OnlyLf (t ++ ['\n']) := by
    intro c hc hs
    rcases List.mem_append.mp hc with hc | hc
    · exact h c hc hs
    · simpa using hc
  simp only [normalize, pySplitlines]
  rw [splitlines_eq_aux _ [] h', splitlines_eq_aux _ [] h]
  exact split_final_aux t [] (fun hh => hne hh.1) (by simpa using hlast)

/-- The hypothesis of `C15_final_newline` cannot be dropped: `""` and `"\n"` differ. -/
theorem C15_final_newline_needs_nonempty :
    normalize (.str ([] ++ ['\n'])) ≠ normalize (.str []) := by decide

/-- Non-vacuity. -/
example : OnlyLf "a b\n\nc".toList ∧ "a b\n\nc".toList ≠ [] ∧ endsWithNl "a b\n\nc".toList = false := by
  refine ⟨?_, by decide, by decide⟩
  intro c hc; revert c; decide

end Mistletoe.Props.C15
