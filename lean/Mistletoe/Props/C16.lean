/-
  C16 — Inline tokenization tiles the source; custom tokens obey precedence rules.

  Property theorems only; helper lemmas are in Proofs/Span.lean.  All statements quantify over
  arbitrary candidate lists, i.e. over every set of user-defined token classes, every pattern,
  precedence, parse_inner flag and parse group at once.  The only hypothesis is `WFCands`:
  each match's parse group lies inside the match and the match inside the string (true of every
  `re` match whose parse group participated in the match).
-/
import Mistletoe.Proofs.Span
namespace Mistletoe.Props.C16
open Mistletoe Mistletoe.Span

/-- Every candidate is a genuine match of a string of length `n`. -/
def WFCands (n : Nat) (cs : List Cand) : Prop := ∀ c ∈ cs, CandWF c ∧ c.stop ≤ n

mutual
/-- The readable form of "in source order, pairwise disjoint, children inside the parent's
    parse group", recursively. -/
def Nested : Out → Prop
  | .raw a b => a < b
  | .tok c kids => NestedL kids c.pstart c.pend
def NestedL : List Out → Nat → Nat → Prop
  | [], _, _ => True
  | o :: os, lo, hi => lo ≤ o.lo ∧ o.lo ≤ o.hi ∧ o.hi ≤ hi ∧ Nested o ∧ NestedL os o.hi hi
end

mutual
theorem nested_of_ok : ∀ (o : Out), OutOK o → Nested o
  | .raw a b, h => by simpa [OutOK, Nested] using h
  | .tok c kids, h => by
    simp only [OutOK] at h
    simp only [Nested]
    by_cases hin : c.inner = true
    · exact nestedL_of_tiles kids _ _ (h.2.1 hin)
    · have : kids = [] := h.2.2 (by simpa using hin)
      subst this; simp [NestedL]
theorem nestedL_of_tiles : ∀ (os : List Out) (a b : Nat), TilesL os a b → NestedL os a b
  | [], _, _, _ => by simp [NestedL]
  | o :: os, a, b, h => by
    simp only [TilesL] at h
    simp only [NestedL]
    have h1 := OutOK_le o h.2.1
    have h2 := TilesL_le _ _ _ h.2.2
    exact ⟨by omega, h1, h2, nested_of_ok o h.2.1, nestedL_of_tiles os _ _ h.2.2⟩
end

/-- **Tiling (intervals).** The output tokens cover `[0, n)` exactly, in order, without overlap,
    and recursively each token's children cover exactly its parse group. -/
theorem C16_tiles_intervals (cs : List Cand) (n : Nat) (h : WFCands n cs) :
    TilesL (tokenize cs n) 0 n :=
  makeTokensRev_tiles _ 0 n (resolve_ok n cs h) (Nat.zero_le n)

/-- **Ordered, disjoint, children inside the parse group** (at every depth). -/
theorem C16_ordered_disjoint_nested (cs : List Cand) (n : Nat) (h : WFCands n cs) :
    NestedL (tokenize cs n) 0 n :=
  nestedL_of_tiles _ _ _ (C16_tiles_intervals cs n h)

/-- **The source text is recovered exactly** by concatenating raw text, token delimiters and
    children. -/
theorem C16_tiles (s : Str) (cs : List Cand) (h : WFCands s.length cs) :
    flattenOuts s (tokenize cs s.length) = s := by
  rw [flattenOuts_eq s _ 0 s.length (C16_tiles_intervals cs s.length h), slice_full]

/-- **Candidate ordering** (`find_tokens`): sorted by start offset; candidates with equal
    start keep the order (class position in the token list, then match order) they were found in. -/
theorem C16_stable_order (cs : List Cand) :
    SortedByStart (sortByStart cs) ∧ (∀ c, c ∈ sortByStart cs ↔ c ∈ cs) ∧
    ∀ k, (sortByStart cs).filter (fun c => c.start = k) = cs.filter (fun c => c.start = k) :=
  ⟨sorted_sortByStart cs, fun c => mem_sortByStart c cs, fun k => filter_sortByStart k cs⟩

/-- **The pair rule**, as the code implements it, for two candidates with `x` found first
    (`x.start ≤ y.start`): disjoint → both; `y` inside `x`'s parse group → nests (is dropped when
    `x` does not parse its inner text); `y` inside `x`'s closing delimiter → ignored; any other
    overlap → higher precedence wins, ties go to the earlier match. -/
theorem C16_pair_rule (x y : Cand) (hxy : x.start ≤ y.start) :
    resolve [x, y] =
      if x.stop ≤ y.start then [.mk x [], .mk y []]
      else if x.stop ≥ y.stop ∧ x.pstart ≤ y.start ∧ x.pend ≥ y.stop then
        (if x.inner then [.mk x [.mk y []]] else [.mk x []])
      else if x.stop ≥ y.stop ∧ x.pend ≤ y.start then [.mk x []]
      else if x.prec ≥ y.prec then [.mk x []] else [.mk y []] := by
  have hs : sortByStart [x, y] = [x, y] := by
    simp [sortByStart, insertByStart, hxy]
  unfold resolve
  rw [hs]
  simp only [resolveSorted, List.map_cons, List.map_nil, List.foldl_cons, List.foldl_nil,
    evalTokens, PTok.c, relation]
  by_cases h0 : x.stop ≤ y.start
  · simp [h0]
  · simp only [h0, if_false]
    by_cases h1 : x.stop ≥ y.stop
    · simp only [h1, if_true, true_and]
      by_cases h2 : x.pstart ≤ y.start ∧ x.pend ≥ y.stop
      · simp only [h2, and_self, if_true, appendChild, evalNewChild]
        by_cases hin : x.inner = true <;> simp [hin]
      · simp only [h2, if_false]
        by_cases h3 : x.pend ≤ y.start
        · simp [h3]
        · simp only [h3, if_false]
          by_cases hp : x.prec ≥ y.prec <;> simp [hp]
    · simp only [h1, if_false, false_and]
      by_cases hp : x.prec ≥ y.prec <;> simp [hp]

/-! Non-vacuity: a concrete candidate set with nesting, a conflict and an ignored match meets the
    hypothesis, and the theorems' conclusions are visible by evaluation. -/
def exampleCands : List Cand :=
  [ { start := 2, stop := 12, pstart := 4, pend := 10, prec := 5, inner := true, cls := 0, ord := 0 },
    { start := 5, stop := 8, pstart := 6, pend := 7, prec := 5, inner := false, cls := 1, ord := 0 },
    { start := 7, stop := 9, pstart := 7, pend := 9, prec := 6, inner := true, cls := 2, ord := 0 },
    { start := 11, stop := 14, pstart := 12, pend := 13, prec := 9, inner := true, cls := 2, ord := 1 } ]

example : WFCands 16 exampleCands := by
  intro c hc
  simp only [exampleCands, List.mem_cons, List.not_mem_nil, or_false] at hc
  rcases hc with rfl | rfl | rfl | rfl <;> simp [CandWF]

example : (tokenize exampleCands 16).length = 3 := by decide

end Mistletoe.Props.C16
