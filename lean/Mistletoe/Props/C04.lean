/-
  C04 — Quoting or list-indenting any document wraps its parse unchanged.

  "If a document parses to the block sequence B, then the same text with a block-quote marker put
  before every line parses to exactly one block quote whose content is B …  The set of link
  definitions found is unchanged."

  Proved here over the block-parser model (`Model/Block.lean`), for every token-type list in which
  `Quote` is consulted before `Paragraph` (in particular the default list and the Markdown
  renderer's), either `tableInterrupt`, every start line, every state, every gas:

  * `C04_quote_wraps_eq`: `tokenize_block` on the marked lines IS one `Quote` around the result of
    `tokenize_block` on the unmarked lines run with `Paragraph.parse_setext` switched off — as an
    equation between results, raised exceptions included; the nested tokenizer gets exactly the
    original lines (same ghost origins) and the same start line, and the definitions it collects
    are the definitions of the outer parse.
  * `C04_quote_wraps` / `_bare` / `_mixed`: the same as an implication, for the marker "> ", the
    marker ">" (before lines that do not begin with a space) and any line-by-line mixture.
  * `C04_quote_wraps_same`: whenever the parse of the unmarked lines does not depend on the
    setext switch, the quote's content is exactly that parse (B) and the definitions are the same.
  * `C04_quote_phase`, `C04_quote_phase_bare`, `C04_quote_phase_same`: the same for the block phase of a document.
  * `C04_item_wraps_eq`, `C04_item_wraps_partial`, `C04_item_phase_partial` (+ `_default_`, `_markdown_`):
    a marker (`-`, `+`, `*`, one to nine digits and `.` or `)`) and 1-4 spaces before the first line, that
    many columns of spaces before every other line except the "\n" lines: exactly one single-item `List`
    whose item content is the parse of the original text, same definitions (see the section for the two
    added hypotheses and why the law is false without them).

  The setext switch is the recorded finding of C04 ('> Foo\n> ---' is a paragraph and a thematic
  break); it is exhibited on the model at the end of the file, together with a second consequence of
  the same mechanism (a nested quote switches setext headings back on for the rest of the outer quote).
  The text must be free of tabs: `Quote.convert_leading_tabs` rewrites the first ">\t" anywhere in a line.
-/
import Mistletoe.Proofs.Wrap
import Mistletoe.Props.C14
namespace Mistletoe.Props.C04
open Mistletoe Mistletoe.Py Mistletoe.Scan Mistletoe.Block
open Mistletoe.Props.C14 (defaultTypes markdownTypes numbered numbered_cons)

/-! ### Block quotes -/

/-- **Equation form.**  `cfg.types = pre ++ Quote :: post` with neither `Quote` nor `Paragraph` in `pre`
    (no other token type starts on a line that begins with '>'); `qs` are the lines `ls` each behind a
    marker "> " or ">" (`QuotedAll`: tab-free, same ghost origins, ">" only before a line that does not
    begin with a space).  Then for every start line, state and gas `g`, `tokenize_block` on `qs` with gas
    `g + (pre.length + 3)` equals `wrapQuote` of `tokenize_block` on `ls` with gas `g`, the same start
    line and `parse_setext := False`: an error stays that error; a result `(b, st')` becomes the one-entry
    buffer `[Quote(b.entries, b.loose) @ start]`, not loose, with state `st'` and `parse_setext` back on. -/
theorem C04_quote_wraps_eq (cfg : Cfg) (pre post : List BTok) (hty : cfg.types = pre ++ .quote :: post)
    (hnq : .quote ∉ pre) (hnp : .paragraph ∉ pre) (q0 l0 : Line) (qs ls : List Line)
    (h : QuotedAll (q0 :: qs) (l0 :: ls)) (start : Nat) (st : St) (g : Nat) :
    tokenizeBlock cfg (g + (pre.length + 3)) (q0 :: qs) start st =
      wrapQuote start l0.origin (tokenizeBlock cfg g (l0 :: ls) start { st with setext := false }) :=
  tokenizeBlock_quoted cfg pre post hty hnq hnp q0 l0 qs ls h.1 h.2 start st g

/-- any mixture of the two markers -/
theorem C04_quote_wraps_mixed (cfg : Cfg) (pre post : List BTok) (hty : cfg.types = pre ++ .quote :: post)
    (hnq : .quote ∉ pre) (hnp : .paragraph ∉ pre) (q0 l0 : Line) (qs ls : List Line)
    (h : QuotedAll (q0 :: qs) (l0 :: ls)) (start : Nat) (st st' : St) (gas : Nat) (b : Buf)
    (hb : tokenizeBlock cfg gas (l0 :: ls) start { st with setext := false } = .ok (b, st')) :
    tokenizeBlock cfg (gas + (pre.length + 3)) (q0 :: qs) start st =
      .ok ({ entries := [.quote b.entries b.loose start l0.origin], loose := false }, { st' with setext := true }) := by
  rw [C04_quote_wraps_eq cfg pre post hty hnq hnp q0 l0 qs ls h start st gas, hb]; rfl

/-- **Marker "> " before every line.**  If `tokenize_block` on a non-empty buffer of tab-free lines,
    started at line `start` in state `st` with `Paragraph.parse_setext` off, returns the buffer `b` and the
    state `st'` (whose `defs` are the link definitions found so far), then `tokenize_block` on the same lines
    each behind "> ", started at the same line in state `st`, with `pre.length + 3` more gas, returns
    exactly one entry — a `Quote` reported on line `start` (ghost origin: that of the first line) whose
    content is `b.entries` and whose looseness is `b.loose` — in a buffer that is not loose, with the same
    definitions `st'.defs` and `parse_setext` on. -/
theorem C04_quote_wraps (cfg : Cfg) (pre post : List BTok) (hty : cfg.types = pre ++ .quote :: post)
    (hnq : .quote ∉ pre) (hnp : .paragraph ∉ pre) (l0 : Line) (ls : List Line)
    (hnt : ∀ l ∈ l0 :: ls, '\t' ∉ l.s) (start : Nat) (st st' : St) (gas : Nat) (b : Buf)
    (hb : tokenizeBlock cfg gas (l0 :: ls) start { st with setext := false } = .ok (b, st')) :
    tokenizeBlock cfg (gas + (pre.length + 3)) ((l0 :: ls).map quoteSp) start st =
      .ok ({ entries := [.quote b.entries b.loose start l0.origin], loose := false }, { st' with setext := true }) :=
  C04_quote_wraps_mixed cfg pre post hty hnq hnp (quoteSp l0) l0 (ls.map quoteSp) ls
    (quotedAll_map_sp (l0 :: ls) hnt) start st st' gas b hb

/-- **Marker ">" before every line**, none of which begins with a space. -/
theorem C04_quote_wraps_bare (cfg : Cfg) (pre post : List BTok) (hty : cfg.types = pre ++ .quote :: post)
    (hnq : .quote ∉ pre) (hnp : .paragraph ∉ pre) (l0 : Line) (ls : List Line)
    (hnt : ∀ l ∈ l0 :: ls, '\t' ∉ l.s ∧ NoLeadSp l.s) (start : Nat) (st st' : St) (gas : Nat) (b : Buf)
    (hb : tokenizeBlock cfg gas (l0 :: ls) start { st with setext := false } = .ok (b, st')) :
    tokenizeBlock cfg (gas + (pre.length + 3)) ((l0 :: ls).map quoteBare) start st =
      .ok ({ entries := [.quote b.entries b.loose start l0.origin], loose := false }, { st' with setext := true }) :=
  C04_quote_wraps_mixed cfg pre post hty hnq hnp (quoteBare l0) l0 (ls.map quoteBare) ls
    (quotedAll_map_bare (l0 :: ls) hnt) start st st' gas b hb

/-- the default token types (`HtmlBlock` in front, as the HTML renderer installs it), either `tableInterrupt`:
    `HtmlBlock`, `BlockCode`, `Heading` are consulted before `Quote` and do not start on "> …" -/
theorem C04_quote_wraps_default (ti : Bool) (l0 : Line) (ls : List Line)
    (hnt : ∀ l ∈ l0 :: ls, '\t' ∉ l.s) (start : Nat) (st st' : St) (gas : Nat) (b : Buf)
    (hb : tokenizeBlock { types := defaultTypes, tableInterrupt := ti } gas (l0 :: ls) start { st with setext := false } = .ok (b, st')) :
    tokenizeBlock { types := defaultTypes, tableInterrupt := ti } (gas + 6) ((l0 :: ls).map quoteSp) start st =
      .ok ({ entries := [.quote b.entries b.loose start l0.origin], loose := false }, { st' with setext := true }) :=
  C04_quote_wraps { types := defaultTypes, tableInterrupt := ti } [.htmlBlock, .blockCode, .heading]
    [.codeFence, .thematicBreak, .list, .table, .footnote, .paragraph] rfl (by decide) (by decide)
    l0 ls hnt start st st' gas b hb

/-- the Markdown renderer's token types, either `tableInterrupt`: `LinkReferenceDefinitionBlock`, `BlankLine`,
    `HtmlBlock`, `BlockCode`, `Heading` are consulted before `Quote` and do not start on "> …" -/
theorem C04_quote_wraps_markdown (ti : Bool) (l0 : Line) (ls : List Line)
    (hnt : ∀ l ∈ l0 :: ls, '\t' ∉ l.s) (start : Nat) (st st' : St) (gas : Nat) (b : Buf)
    (hb : tokenizeBlock { types := markdownTypes, tableInterrupt := ti } gas (l0 :: ls) start { st with setext := false } = .ok (b, st')) :
    tokenizeBlock { types := markdownTypes, tableInterrupt := ti } (gas + 8) ((l0 :: ls).map quoteSp) start st =
      .ok ({ entries := [.quote b.entries b.loose start l0.origin], loose := false }, { st' with setext := true }) :=
  C04_quote_wraps { types := markdownTypes, tableInterrupt := ti } [.linkRefDefBlock, .blankLine, .htmlBlock, .blockCode, .heading]
    [.codeFence, .thematicBreak, .list, .table, .paragraph] rfl (by decide) (by decide)
    l0 ls hnt start st st' gas b hb

/-- **The quote's content is exactly B.**  `B`, `st₁` is the parse of the unmarked lines as a document of
    their own (state `st`, setext headings as the state says).  Flag-independence hypothesis: with
    `parse_setext` off the same lines give the same buffer `B` (`hoff`) and the same definitions (`hdefs`).
    Then the marked lines parse to exactly one `Quote` whose content is `B.entries` (looseness `B.loose`),
    and the definitions found are those of the unmarked parse. -/
theorem C04_quote_wraps_same (cfg : Cfg) (pre post : List BTok) (hty : cfg.types = pre ++ .quote :: post)
    (hnq : .quote ∉ pre) (hnp : .paragraph ∉ pre) (q0 l0 : Line) (qs ls : List Line)
    (h : QuotedAll (q0 :: qs) (l0 :: ls)) (start : Nat) (st st₁ st₂ : St) (gas : Nat) (B : Buf)
    (_hB : tokenizeBlock cfg gas (l0 :: ls) start st = .ok (B, st₁))
    (hoff : tokenizeBlock cfg gas (l0 :: ls) start { st with setext := false } = .ok (B, st₂))
    (hdefs : st₂.defs = st₁.defs) :
    ∃ st₃, tokenizeBlock cfg (gas + (pre.length + 3)) (q0 :: qs) start st =
        .ok ({ entries := [.quote B.entries B.loose start l0.origin], loose := false }, st₃)
      ∧ st₃.defs = st₁.defs ∧ st₃.setext = true :=
  ⟨{ st₂ with setext := true }, C04_quote_wraps_mixed cfg pre post hty hnq hnp q0 l0 qs ls h start st st₂ gas B hoff, hdefs, rfl⟩

/-! ### The block phase of a document -/

theorem numbered_map_sp : ∀ (k : Nat) (ss : List Str),
    numbered k (ss.map (fun s => '>' :: ' ' :: s)) = (numbered k ss).map quoteSp
  | _, [] => rfl
  | k, s :: ss => by
    rw [List.map_cons, numbered_cons, numbered_cons, List.map_cons, numbered_map_sp (k + 1) ss]; rfl

theorem numbered_map_bare : ∀ (k : Nat) (ss : List Str),
    numbered k (ss.map (fun s => '>' :: s)) = (numbered k ss).map quoteBare
  | _, [] => rfl
  | k, s :: ss => by
    rw [List.map_cons, numbered_cons, numbered_cons, List.map_cons, numbered_map_bare (k + 1) ss]; rfl

/-- **Block phase, marker "> ".**  `ss` are the lines of a document (non-empty, tab-free); the inner parse is
    `tokenize_block` on them, numbered from line 1, in the initial state but with `parse_setext` off.  If it
    returns `(b, st')`, the block phase of the document with "> " before every line returns exactly one
    `Quote` on line 1 with content `b.entries` — every nested entry with the `line_number` and ghost origin the
    inner parse computed, since the nested tokenizer is started on the line number of the first line — and the
    definitions `st'.defs`. -/
theorem C04_quote_phase (cfg : Cfg) (pre post : List BTok) (hty : cfg.types = pre ++ .quote :: post)
    (hnq : .quote ∉ pre) (hnp : .paragraph ∉ pre) (ss : List Str) (hne : ss ≠ []) (hnt : ∀ s ∈ ss, '\t' ∉ s)
    (gas : Nat) (b : Buf) (st' : St)
    (hb : tokenizeBlock cfg gas (numbered 0 ss) 1 { setext := false } = .ok (b, st')) :
    blockPhase cfg (gas + (pre.length + 3)) (ss.map (fun s => '>' :: ' ' :: s)) =
      .ok ({ entries := [.quote b.entries b.loose 1 1], loose := false }, { st' with setext := true }) := by
  cases ss with
  | nil => exact absurd rfl hne
  | cons s ss =>
    have e : ∀ g ls, blockPhase cfg g ls = tokenizeBlock cfg g (numbered 0 ls) 1 {} := fun _ _ => rfl
    rw [e, numbered_map_sp]
    rw [numbered_cons] at hb ⊢
    refine C04_quote_wraps cfg pre post hty hnq hnp _ _ ?_ 1 {} st' gas b hb
    intro l hl
    rw [← numbered_cons] at hl
    exact hnt _ (C14.numbered_mem _ _ _ hl)

/-- **Block phase, marker ">"**, for a document none of whose lines begins with a space. -/
theorem C04_quote_phase_bare (cfg : Cfg) (pre post : List BTok) (hty : cfg.types = pre ++ .quote :: post)
    (hnq : .quote ∉ pre) (hnp : .paragraph ∉ pre) (ss : List Str) (hne : ss ≠ [])
    (hnt : ∀ s ∈ ss, '\t' ∉ s ∧ NoLeadSp s) (gas : Nat) (b : Buf) (st' : St)
    (hb : tokenizeBlock cfg gas (numbered 0 ss) 1 { setext := false } = .ok (b, st')) :
    blockPhase cfg (gas + (pre.length + 3)) (ss.map (fun s => '>' :: s)) =
      .ok ({ entries := [.quote b.entries b.loose 1 1], loose := false }, { st' with setext := true }) := by
  cases ss with
  | nil => exact absurd rfl hne
  | cons s ss =>
    have e : ∀ g ls, blockPhase cfg g ls = tokenizeBlock cfg g (numbered 0 ls) 1 {} := fun _ _ => rfl
    rw [e, numbered_map_bare]
    rw [numbered_cons] at hb ⊢
    refine C04_quote_wraps_bare cfg pre post hty hnq hnp _ _ ?_ 1 {} st' gas b hb
    intro l hl
    rw [← numbered_cons] at hl
    exact hnt _ (C14.numbered_mem _ _ _ hl)

/-- **Block phase: the quote's content is the document's parse B**, whenever that parse does not depend on
    the setext switch (`hoff`, `hdefs`); the definitions found are the document's. -/
theorem C04_quote_phase_same (cfg : Cfg) (pre post : List BTok) (hty : cfg.types = pre ++ .quote :: post)
    (hnq : .quote ∉ pre) (hnp : .paragraph ∉ pre) (ss : List Str) (hne : ss ≠ []) (hnt : ∀ s ∈ ss, '\t' ∉ s)
    (gas : Nat) (B : Buf) (st₁ st₂ : St)
    (_hB : blockPhase cfg gas ss = .ok (B, st₁))
    (hoff : tokenizeBlock cfg gas (numbered 0 ss) 1 { setext := false } = .ok (B, st₂))
    (hdefs : st₂.defs = st₁.defs) :
    ∃ st₃, blockPhase cfg (gas + (pre.length + 3)) (ss.map (fun s => '>' :: ' ' :: s)) =
        .ok ({ entries := [.quote B.entries B.loose 1 1], loose := false }, st₃)
      ∧ st₃.defs = st₁.defs ∧ st₃.setext = true :=
  ⟨{ st₂ with setext := true }, C04_quote_phase cfg pre post hty hnq hnp ss hne hnt gas B st₂ hoff, hdefs, rfl⟩

/-! ### List items

  What the model computes for the item: `List.read` makes the one item loose only if its content has more
  than one block ("only consider the last list item loose if there's more than one element"), so the item's
  looseness is `B.entries.length > 1 && B.loose`; its indentation is 0, its content offset `|m| + pad`, its
  leader `m`; list and item are reported on the first line.  The nested tokenizer runs in the same state as
  the outer one (no setext switch here), so the content is B itself and the definitions are B's.

  `_partial`: two hypotheses are added to the domain of the property (texts without tabs, not ending in a blank
  line, first line starting with a non-space character, no marker/thematic-break coincidence), because the law
  is false without them, on the model and on the implementation alike (examples at the end of the file):
  * every line other than "\n" has, after its leading spaces, a character that is not whitespace (`ContLine`):
    a line beginning with U+2003, form feed, … is not recognised as indented by `parse_continuation`
    (`[ \t]*` then `\S`) and is taken, with its indentation, as a lazy continuation line — the recorded
    finding "unicode-whitespace-edge";
  * the blank lines are exactly "\n": `parse_continuation` turns every whitespace-only line into "\n", which
    changes the content of a fenced code block that contains such a line (the specification does the same). -/

/-- **Equation form**: `tokenize_block` on the lines indented as one list item is one single-item `List`
    around the result of `tokenize_block` on the original lines (same start line, same state), errors included. -/
theorem C04_item_wraps_eq (cfg : Cfg) (pre post : List BTok) (hty : cfg.types = pre ++ .list :: post)
    (hnl : .list ∉ pre) (hnp : .paragraph ∉ pre) (hnt : .table ∉ pre)
    (m : Str) (hm : ListLeader m) (pad : Nat) (h1 : 1 ≤ pad) (h4 : pad ≤ 4)
    (l0' l0 : Line) (rest' rest : List Line) (hf : FirstAs m pad l0' l0) (htb : Scan.thematicBreak l0'.s = false)
    (hrest : IndentedAll (m.length + pad) rest' rest) (hlast : trailNl 0 rest = 0) (start : Nat) (st : St) (g : Nat) :
    tokenizeBlock cfg (g + (pre.length + 4)) (l0' :: rest') start st =
      wrapItem (m.length + pad) m start l0.origin (tokenizeBlock cfg g (l0 :: rest) start st) :=
  tokenizeBlock_indented cfg pre post hty hnl hnp hnt m hm pad h1 h4 l0' l0 rest' rest hf htb hrest hlast start st g

/-- **A buffer indented as one list item parses to one single-item list whose content is the parse of the
    buffer.**  `cfg.types = pre ++ List :: post` with none of `List`, `Paragraph`, `Table` in `pre`; `m` a list
    marker (`ListLeader`: "-", "+", "*", or one to nine digits and "." or ")" — `listLeader_bullet`,
    `listLeader_ordered`), `pad` = 1 … 4 spaces after it.  The buffer `l0 :: ls`: `l0` begins with a
    non-whitespace character; every other line is "\n" or has a non-whitespace character after its leading
    spaces and ends with its only newline; the last line is not "\n"; marker + first line is not a thematic
    break.  If `tokenize_block` on the buffer returns `(b, st')`, then on the buffer with `m` and `pad` spaces
    before the first line and `|m| + pad` spaces before every other line except the "\n" lines, with
    `pre.length + 4` more gas, it returns exactly one `List` of one `ListItem` with content `b.entries`,
    loose iff `b` is loose and has more than one entry, indentation 0, content offset `|m| + pad`, leader `m` —
    and the same state `st'`, hence the same link definitions. -/
theorem C04_item_wraps_partial (cfg : Cfg) (pre post : List BTok) (hty : cfg.types = pre ++ .list :: post)
    (hnl : .list ∉ pre) (hnp : .paragraph ∉ pre) (hnt : .table ∉ pre)
    (m : Str) (hm : ListLeader m) (pad : Nat) (h1 : 1 ≤ pad) (h4 : pad ≤ 4)
    (l0 : Line) (ls : List Line) (c0 : Char) (r0 : Str) (hs : l0.s = c0 :: r0) (hc0 : pyIsSpace c0 = false)
    (hcont : ∀ l ∈ ls, l.s = ['\n'] ∨ ContLine l.s)
    (hlast : ∀ l, ls.getLast? = some l → l.s ≠ ['\n'])
    (htb : Scan.thematicBreak (m ++ List.replicate pad ' ' ++ l0.s) = false)
    (start : Nat) (st st' : St) (gas : Nat) (b : Buf)
    (hb : tokenizeBlock cfg gas (l0 :: ls) start st = .ok (b, st')) :
    tokenizeBlock cfg (gas + (pre.length + 4)) (markLine m pad l0 :: ls.map (indentLine (m.length + pad))) start st =
      .ok ({ entries := [.list [.mk b.entries (decide (b.entries.length > 1) && b.loose) 0 (m.length + pad) m start l0.origin]
                           start l0.origin], loose := false }, st') := by
  rw [C04_item_wraps_eq cfg pre post hty hnl hnp hnt m hm pad h1 h4 (markLine m pad l0) l0 _ ls
    (firstAs_mark m pad l0 c0 r0 hs hc0) htb (indentedAll_map _ ls hcont) (trailNl_zero ls 0 hlast (fun _ => rfl)) start st gas, hb]
  rfl

/-- the document text indented as one list item -/
def indentDoc (m : Str) (pad : Nat) : List Str → List Str
  | [] => []
  | s0 :: ss => (m ++ List.replicate pad ' ' ++ s0) ::
      ss.map (fun s => if s = ['\n'] then s else List.replicate (m.length + pad) ' ' ++ s)

theorem numbered_map_indent (W : Nat) : ∀ (k : Nat) (ss : List Str),
    numbered k (ss.map (fun s => if s = ['\n'] then s else List.replicate W ' ' ++ s)) = (numbered k ss).map (indentLine W)
  | _, [] => rfl
  | k, s :: ss => by
    rw [List.map_cons, numbered_cons, numbered_cons, List.map_cons, numbered_map_indent W (k + 1) ss]
    congr 1
    unfold indentLine
    by_cases h : s = ['\n'] <;> simp [h]

/-- checkable form of the hypotheses on the document: the first line begins with a non-whitespace character;
    every other line is "\n" or `contLineB`; the last line is not "\n" -/
def itemDocOk : List Str → Bool
  | [] => false
  | s0 :: ss => (match s0 with | c :: _ => !pyIsSpace c | [] => false)
      && ss.all (fun s => s == ['\n'] || contLineB s) && (ss.getLast? != some ['\n'])

/-- **Block phase: the document indented as one list item parses to one single-item list whose content is
    the document's parse B, with B's link definitions.** -/
theorem C04_item_phase_partial (cfg : Cfg) (pre post : List BTok) (hty : cfg.types = pre ++ .list :: post)
    (hnl : .list ∉ pre) (hnp : .paragraph ∉ pre) (hnt : .table ∉ pre)
    (m : Str) (hm : ListLeader m) (pad : Nat) (h1 : 1 ≤ pad) (h4 : pad ≤ 4)
    (s0 : Str) (ss : List Str) (hok : itemDocOk (s0 :: ss) = true)
    (htb : Scan.thematicBreak (m ++ List.replicate pad ' ' ++ s0) = false)
    (gas : Nat) (B : Buf) (st' : St) (hB : blockPhase cfg gas (s0 :: ss) = .ok (B, st')) :
    blockPhase cfg (gas + (pre.length + 4)) (indentDoc m pad (s0 :: ss)) =
      .ok ({ entries := [.list [.mk B.entries (decide (B.entries.length > 1) && B.loose) 0 (m.length + pad) m 1 1] 1 1],
             loose := false }, st') := by
  have e : ∀ g ls, blockPhase cfg g ls = tokenizeBlock cfg g (numbered 0 ls) 1 {} := fun _ _ => rfl
  simp only [itemDocOk, Bool.and_eq_true, List.all_eq_true, Bool.or_eq_true, beq_iff_eq, bne_iff_ne, ne_eq] at hok
  obtain ⟨⟨h0, hall⟩, hlast⟩ := hok
  cases s0 with
  | nil => simp at h0
  | cons c0 r0 =>
    simp only [Bool.not_eq_eq_eq_not, Bool.not_true] at h0
    rw [e, numbered_cons] at hB
    rw [e]
    simp only [indentDoc]
    rw [numbered_cons, numbered_map_indent]
    refine C04_item_wraps_partial cfg pre post hty hnl hnp hnt m hm pad h1 h4 { s := c0 :: r0, origin := 0 + 1 } (numbered (0 + 1) ss)
      c0 r0 rfl h0 ?_ ?_ htb 1 {} st' gas B hB
    · intro l hl
      rcases hall _ (C14.numbered_mem _ _ _ hl) with h | h
      · exact Or.inl h
      · exact Or.inr (contLine_of _ h)
    · intro l hl hs
      apply hlast
      have : (numbered (0 + 1) ss).map (·.s) = ss := C14.numbered_s _ _
      rw [← this, List.getLast?_map, hl, Option.map_some, hs]

/-- the default token types, either `tableInterrupt`: `HtmlBlock`, `BlockCode`, `Heading`, `Quote`, `CodeFence`,
    `ThematicBreak` are consulted before `List` -/
theorem C04_item_phase_default_partial (ti : Bool) (m : Str) (hm : ListLeader m) (pad : Nat) (h1 : 1 ≤ pad) (h4 : pad ≤ 4)
    (s0 : Str) (ss : List Str) (hok : itemDocOk (s0 :: ss) = true)
    (htb : Scan.thematicBreak (m ++ List.replicate pad ' ' ++ s0) = false)
    (gas : Nat) (B : Buf) (st' : St) (hB : blockPhase { types := defaultTypes, tableInterrupt := ti } gas (s0 :: ss) = .ok (B, st')) :
    blockPhase { types := defaultTypes, tableInterrupt := ti } (gas + 10) (indentDoc m pad (s0 :: ss)) =
      .ok ({ entries := [.list [.mk B.entries (decide (B.entries.length > 1) && B.loose) 0 (m.length + pad) m 1 1] 1 1],
             loose := false }, st') :=
  C04_item_phase_partial { types := defaultTypes, tableInterrupt := ti } [.htmlBlock, .blockCode, .heading, .quote, .codeFence, .thematicBreak]
    [.table, .footnote, .paragraph] rfl (by decide) (by decide) (by decide) m hm pad h1 h4 s0 ss hok htb gas B st' hB

/-- the Markdown renderer's token types, either `tableInterrupt` -/
theorem C04_item_phase_markdown_partial (ti : Bool) (m : Str) (hm : ListLeader m) (pad : Nat) (h1 : 1 ≤ pad) (h4 : pad ≤ 4)
    (s0 : Str) (ss : List Str) (hok : itemDocOk (s0 :: ss) = true)
    (htb : Scan.thematicBreak (m ++ List.replicate pad ' ' ++ s0) = false)
    (gas : Nat) (B : Buf) (st' : St) (hB : blockPhase { types := markdownTypes, tableInterrupt := ti } gas (s0 :: ss) = .ok (B, st')) :
    blockPhase { types := markdownTypes, tableInterrupt := ti } (gas + 12) (indentDoc m pad (s0 :: ss)) =
      .ok ({ entries := [.list [.mk B.entries (decide (B.entries.length > 1) && B.loose) 0 (m.length + pad) m 1 1] 1 1],
             loose := false }, st') :=
  C04_item_phase_partial { types := markdownTypes, tableInterrupt := ti }
    [.linkRefDefBlock, .blankLine, .htmlBlock, .blockCode, .heading, .quote, .codeFence, .thematicBreak]
    [.table, .paragraph] rfl (by decide) (by decide) (by decide) m hm pad h1 h4 s0 ss hok htb gas B st' hB

/-! ### Non-vacuity, and the findings on the model -/

def L (s : String) : Str := s.toList

/-- (depth, kind, line_number, ghost origin) of every entry, outermost first (decidable view of a parse) -/
def outline (d : Nat) : List Entry → List (Nat × String × Nat × Nat)
  | [] => []
  | e :: es => (match e with
      | .blockCode _ ln og => [(d, "code", ln, og)]
      | .heading _ _ _ ln og => [(d, "h", ln, og)]
      | .quote inner loose ln og => (d, if loose then "quote(loose)" else "quote", ln, og) :: outline (d + 1) inner
      | .codeFence _ _ _ _ _ ln og => [(d, "fence", ln, og)]
      | .thematicBreak _ ln og => [(d, "hr", ln, og)]
      | .list items ln og => (d, "list", ln, og) :: outlineI (d + 1) items
      | .table _ _ ln og => [(d, "table", ln, og)]
      | .footnote _ ln og => [(d, "defs", ln, og)]
      | .linkRefDefs _ ln og => [(d, "defs", ln, og)]
      | .paragraph _ ln og => [(d, "p", ln, og)]
      | .setext _ ln og => [(d, "setext", ln, og)]
      | .htmlBlock _ ln og => [(d, "html", ln, og)]
      | .blankLine ln og => [(d, "blank", ln, og)]) ++ outline d es
where outlineI (d : Nat) : List Item → List (Nat × String × Nat × Nat)
  | [] => []
  | .mk inner loose _ _ _ ln og :: is =>
    (d, if loose then "item(loose)" else "item", ln, og) :: outline (d + 1) inner ++ outlineI d is

/-- the outline and the number of link definitions found -/
def outlineOf (r : Res (Buf × St)) : List (Nat × String × Nat × Nat) × Nat :=
  match r with
  | .ok (b, st) => (outline 0 b.entries, st.defs.length)
  | .err _ => ([], 0)

/-- the text lines of code blocks and paragraphs, in order -/
def texts : List Entry → List (List Str)
  | [] => []
  | e :: es => (match e with
      | .blockCode ls _ _ => [ls]
      | .codeFence ls _ _ _ _ _ _ => [ls]
      | .paragraph ls _ _ => [ls]
      | .quote inner _ _ _ => texts inner
      | .list items _ _ => textsI items
      | _ => []) ++ texts es
where textsI : List Item → List (List Str)
  | [] => []
  | .mk inner _ _ _ _ _ _ :: is => texts inner ++ textsI is

def textsOf (r : Res (Buf × St)) : List (List Str) := match r with | .ok (b, _) => texts b.entries | .err _ => []

theorem exists_of_isOk {α} (r : Res α) (h : r.isOk = true) : ∃ a, r = .ok a := by
  cases r with
  | ok a => exact ⟨a, rfl⟩
  | err e => cases h

def dflt : Cfg := { types := defaultTypes }
def mdown : Cfg := { types := markdownTypes }

/-- a heading, a paragraph, a two-item list, a blank line, a link definition -/
def doc : List Str := [L "# h\n", L "para\n", L "- a\n", L "- b\n", L "\n", L "[x]: /u\n"]

example : outlineOf (blockPhase dflt 30 doc) =
    ([(0, "h", 1, 1), (0, "p", 2, 2), (0, "list", 3, 3), (1, "item", 3, 3), (2, "p", 3, 3), (1, "item", 4, 4), (2, "p", 4, 4),
      (0, "defs", 6, 6)], 1) := by decide +kernel

/-- the same behind "> ": one quote, the same entries one level down with the same line numbers, one definition -/
example : outlineOf (blockPhase dflt 36 (doc.map (fun s => '>' :: ' ' :: s))) =
    ([(0, "quote(loose)", 1, 1), (1, "h", 1, 1), (1, "p", 2, 2), (1, "list", 3, 3), (2, "item", 3, 3), (3, "p", 3, 3),
      (2, "item", 4, 4), (3, "p", 4, 4), (1, "defs", 6, 6)], 1) := by decide +kernel

/-- `C04_quote_phase` applies to it (the hypothesis holds: the inner parse returns) -/
example : ∃ b st', tokenizeBlock dflt 30 (numbered 0 doc) 1 { setext := false } = .ok (b, st') ∧
    blockPhase dflt 36 (doc.map (fun s => '>' :: ' ' :: s)) =
      .ok ({ entries := [.quote b.entries b.loose 1 1], loose := false }, { st' with setext := true }) := by
  obtain ⟨⟨b, st'⟩, h⟩ := exists_of_isOk (tokenizeBlock dflt 30 (numbered 0 doc) 1 { setext := false }) (by decide +kernel)
  exact ⟨b, st', h, C04_quote_phase dflt [.htmlBlock, .blockCode, .heading] _ rfl (by decide) (by decide) doc (by decide)
    (by decide +kernel) 30 b st' h⟩

/-- `C04_quote_wraps_eq` on the four lines `# h / para / - a / - b`, numbered from line 7, under the Markdown renderer's types -/
example : tokenizeBlock mdown 28 ((numbered 6 (doc.take 4)).map quoteSp) 7 {} =
    wrapQuote 7 7 (tokenizeBlock mdown 20 (numbered 6 (doc.take 4)) 7 { setext := false }) :=
  C04_quote_wraps_eq mdown [.linkRefDefBlock, .blankLine, .htmlBlock, .blockCode, .heading] _ rfl (by decide) (by decide) _ _ _ _
    (quotedAll_map_sp (numbered 6 (doc.take 4)) (by decide +kernel)) 7 {} 20

/-- the marker ">" (no line of `doc` begins with a space) -/
example : ∃ b st', tokenizeBlock dflt 30 (numbered 0 doc) 1 { setext := false } = .ok (b, st') ∧
    blockPhase dflt 36 (doc.map (fun s => '>' :: s)) =
      .ok ({ entries := [.quote b.entries b.loose 1 1], loose := false }, { st' with setext := true }) := by
  obtain ⟨⟨b, st'⟩, h⟩ := exists_of_isOk (tokenizeBlock dflt 30 (numbered 0 doc) 1 { setext := false }) (by decide +kernel)
  refine ⟨b, st', h, C04_quote_phase_bare dflt [.htmlBlock, .blockCode, .heading] _ rfl (by decide) (by decide) doc (by decide)
    ?_ 30 b st' h⟩
  intro s hs
  simp only [doc, List.mem_cons, List.not_mem_nil, or_false] at hs
  rcases hs with rfl | rfl | rfl | rfl | rfl | rfl <;> exact ⟨by decide, _, _, rfl, by decide⟩

/-- a table inside a quote is found (a line "> --- | ---" is not itself a delimiter row, so `Table`'s
    `check_interrupts_paragraph` does not cut `Quote.read` short) -/
example : outlineOf (blockPhase dflt 30 [L "> a | b\n", L "> --- | ---\n"]) = ([(0, "quote", 1, 1), (1, "table", 1, 1)], 0) := by
  decide +kernel

/-- **The recorded finding on the model**: `Foo / ---` is a setext heading … -/
example : outlineOf (blockPhase dflt 30 [L "Foo\n", L "---\n"]) = ([(0, "setext", 1, 1)], 0) := by decide +kernel
/-- … but behind "> " it is a paragraph and a thematic break (`Quote.read` switches `Paragraph.parse_setext` off):
    the flag-independence hypothesis of `C04_quote_wraps_same` fails for this document -/
example : outlineOf (blockPhase dflt 30 [L "> Foo\n", L "> ---\n"]) = ([(0, "quote", 1, 1), (1, "p", 1, 1), (1, "hr", 2, 2)], 0) := by
  decide +kernel
/-- the inner parse `C04_quote_wraps` speaks of, setext off -/
example : outlineOf (tokenizeBlock dflt 30 (numbered 0 [L "Foo\n", L "---\n"]) 1 { setext := false }) = ([(0, "p", 1, 1), (0, "hr", 2, 2)], 0) := by
  decide +kernel
/-- the same mechanism: the nested `Quote.read` switches setext headings back ON for the rest of the outer quote
    (the implementation gives Quote[Quote[Paragraph], SetextHeading] too) -/
example : outlineOf (blockPhase dflt 30 [L "> > a\n", L ">\n", L "> Foo\n", L "> ---\n"]) =
    ([(0, "quote(loose)", 1, 1), (1, "quote", 1, 1), (2, "p", 1, 1), (1, "setext", 3, 3)], 0) := by decide +kernel

/-! list items -/

def doc2 : List Str := [L "# h\n", L "para\n", L "\n", L "- a\n", L "- b\n"]

example : outlineOf (blockPhase dflt 30 doc2) =
    ([(0, "h", 1, 1), (0, "p", 2, 2), (0, "list", 4, 4), (1, "item", 4, 4), (2, "p", 4, 4), (1, "item", 5, 5), (2, "p", 5, 5)], 0) := by
  decide +kernel

example : indentDoc (L "12)") 3 doc2 = [L "12)   # h\n", L "      para\n", L "\n", L "      - a\n", L "      - b\n"] := by decide +kernel

example : outlineOf (blockPhase dflt 40 (indentDoc (L "12)") 3 doc2)) =
    ([(0, "list", 1, 1), (1, "item(loose)", 1, 1), (2, "h", 1, 1), (2, "p", 2, 2), (2, "list", 4, 4), (3, "item", 4, 4), (4, "p", 4, 4),
      (3, "item", 5, 5), (4, "p", 5, 5)], 0) := by decide +kernel

/-- `C04_item_phase_default_partial` applies, marker "12)" and three spaces … -/
example : ∃ B st', blockPhase dflt 30 doc2 = .ok (B, st') ∧
    blockPhase dflt 40 (indentDoc (L "12)") 3 doc2) =
      .ok ({ entries := [.list [.mk B.entries (decide (B.entries.length > 1) && B.loose) 0 6 (L "12)") 1 1] 1 1], loose := false }, st') := by
  obtain ⟨⟨B, st'⟩, h⟩ := exists_of_isOk (blockPhase dflt 30 doc2) (by decide +kernel)
  exact ⟨B, st', h, C04_item_phase_default_partial true (L "12)") (listLeader_ordered (L "12") ')' (by decide) (by decide) (by decide) (Or.inr rfl))
    3 (by omega) (by omega) _ _ (by decide +kernel) (by decide +kernel) 30 B st' h⟩

/-- … and marker "-" and one space, under the Markdown renderer's types -/
example : ∃ B st', blockPhase mdown 30 doc2 = .ok (B, st') ∧
    blockPhase mdown 42 (indentDoc ['-'] 1 doc2) =
      .ok ({ entries := [.list [.mk B.entries (decide (B.entries.length > 1) && B.loose) 0 2 ['-'] 1 1] 1 1], loose := false }, st') := by
  obtain ⟨⟨B, st'⟩, h⟩ := exists_of_isOk (blockPhase mdown 30 doc2) (by decide +kernel)
  exact ⟨B, st', h, C04_item_phase_markdown_partial true ['-'] (listLeader_bullet '-' (Or.inl rfl))
    1 (by omega) (by omega) _ _ (by decide +kernel) (by decide +kernel) 30 B st' h⟩

/-- **Why `ContLine`** (recorded finding "unicode-whitespace-edge"): `Foo / *** / U+2003 ar` is paragraph, rule,
    paragraph; indented by "*   " its last line becomes an indented code block inside the item -/
def edge : List Str := [L "Foo\n", L "***\n", L "\u2003ar\n"]
example : outlineOf (blockPhase dflt 30 edge) = ([(0, "p", 1, 1), (0, "hr", 2, 2), (0, "p", 3, 3)], 0) := by decide +kernel
example : outlineOf (blockPhase dflt 40 (indentDoc ['*'] 3 edge)) =
    ([(0, "list", 1, 1), (1, "item", 1, 1), (2, "p", 1, 1), (2, "hr", 2, 2), (2, "code", 3, 3)], 0) := by decide +kernel
example : itemDocOk edge = false := by decide +kernel

/-- **Why blank lines must be "\n"**: a whitespace-only line inside a fenced code block loses its spaces when the
    block is put into a list item (in the specification too) -/
def fenced : List Str := [L "```\n", L "  \n", L "```\n"]
example : textsOf (blockPhase dflt 30 fenced) = [[L "  \n"]] := by decide +kernel
example : textsOf (blockPhase dflt 40 (indentDoc ['-'] 1 fenced)) = [[L "\n"]] := by decide +kernel


/-- the token-type lists the `_default` / `_markdown` instances are stated for are the lists the HTML and
    the Markdown renderer install in the working tree (re-checked against the tables regenerated from /repo) -/
theorem C04_config_current :
    Config.html.map (·.block.types) = some defaultTypes ∧
    Config.markdown.map (·.block.types) = some markdownTypes := C14.C14_config_current

end Mistletoe.Props.C04
