/-
  C10 — Reflowing to a maximum line length preserves meaning and honours the limit.

  Proved here, for every fragment list and every limit L (no bound on either): the word-wrapping
  core of the Markdown renderer (`make_words` + `fragments_to_lines`) emits only lines that are
  within the limit or consist of a single unbreakable word; it neither drops, adds nor reorders
  words; lines are never empty except where a hard break asks for one; and re-filling already
  filled words changes nothing.  The container budget arithmetic is stated outright, including
  the value at which wrapping would silently switch off.
  The clauses that involve re-parsing the output (meaning, idempotence of the whole round trip)
  and the non-rebreaking of code/HTML/table/ATX blocks are explored on the implementation; they
  are `partial` here until the Markdown renderer and parser models carry them (DESIGN.md C10).
-/
import Mistletoe.Model.Wrap
namespace Mistletoe.Props.C10
open Mistletoe Mistletoe.Wrap

/-- Invariant of the fill loop: the pending line is empty, or one of the words, or within the limit. -/
def LineOk (L : Nat) (ws : List Str) (l : Str) : Prop := l.length ≤ L ∨ l ∈ ws

theorem fillAux_bound (L : Nat) (all : List Str) : ∀ (ws : List Str) (cur : Str),
    (∀ w ∈ ws, w ∈ all) → LineOk L all cur → ∀ l ∈ fillAux L ws cur, LineOk L all l
  | [], cur, _, hc, l, hl => by
    simp only [fillAux] at hl
    split at hl
    · simp at hl
    · simp only [List.mem_singleton] at hl; subst hl; exact hc
  | w :: rest, cur, hws, hc, l, hl => by
    have hrest : ∀ x ∈ rest, x ∈ all := fun x hx => hws x (List.mem_cons_of_mem _ hx)
    have hw : w ∈ all := hws w (List.mem_cons_self ..)
    simp only [fillAux] at hl
    split at hl
    · rcases List.mem_cons.mp hl with rfl | hl
      · exact hc
      · exact fillAux_bound L all rest [] hrest (Or.inl (Nat.zero_le _)) l hl
    · split at hl
      · exact fillAux_bound L all rest w hrest (Or.inr hw) l hl
      · split at hl
        · rename_i hfit
          exact fillAux_bound L all rest _ hrest (Or.inl hfit) l hl
        · rcases List.mem_cons.mp hl with rfl | hl
          · exact hc
          · exact fillAux_bound L all rest w hrest (Or.inr hw) l hl

/-- **The limit is honoured**: every output line either fits in `L` or is exactly one word (a
    word has no breakable space, so such a line cannot be broken further). -/
theorem C10_bound (L : Nat) (fs : List Fragment) :
    ∀ l ∈ fill L (makeWords fs), l.length ≤ L ∨ l ∈ makeWords fs :=
  fillAux_bound L (makeWords fs) (makeWords fs) [] (fun _ h => h) (Or.inl (Nat.zero_le _))

/-- Words of a line: the line is its words joined by single spaces. -/
def joinWords : List Str → Str
  | [] => []
  | [w] => w
  | w :: rest => w ++ [' '] ++ joinWords rest

/-- Grouping version of the fill loop: which words go on which line (`cur` = words of the pending
    line, in reverse order). -/
def fillG (L : Nat) : List Str → List Str → List (List Str)
  | [], cur => if cur.isEmpty then [] else [cur.reverse]
  | w :: rest, cur =>
    if w = brk then cur.reverse :: fillG L rest []
    else if cur.isEmpty then fillG L rest [w]
    else if (joinWords (cur.reverse ++ [w])).length ≤ L then fillG L rest (w :: cur)
    else cur.reverse :: fillG L rest [w]

theorem joinWords_snoc (ws : List Str) (w : Str) (h : ws ≠ []) :
    joinWords (ws ++ [w]) = joinWords ws ++ [' '] ++ w := by
  induction ws with
  | nil => exact absurd rfl h
  | cons x xs ih =>
    cases xs with
    | nil => simp [joinWords]
    | cons y ys =>
      have := ih (by simp)
      simp only [List.cons_append, joinWords] at this ⊢
      rw [this]; simp

theorem joinWords_ne_nil (ws : List Str) (h : ws ≠ []) (hne : ∀ w ∈ ws, w ≠ []) : joinWords ws ≠ [] := by
  cases ws with
  | nil => exact absurd rfl h
  | cons x xs =>
    cases xs with
    | nil => simpa [joinWords] using hne x (List.mem_cons_self ..)
    | cons y ys => simp [joinWords]

/-- The string loop is the grouping loop, joined. -/
theorem fillAux_eq_fillG (L : Nat) : ∀ (ws : List Str) (cur : List Str),
    (∀ w ∈ ws, w ≠ []) → (∀ w ∈ cur, w ≠ []) →
    fillAux L ws (joinWords cur.reverse) = (fillG L ws cur).map joinWords
  | [], cur, _, hc => by
    simp only [fillAux, fillG]
    by_cases h : cur = []
    · subst h; simp [joinWords]
    · have h' : cur.reverse ≠ [] := by simpa using h
      have := joinWords_ne_nil cur.reverse h' (by intro w hw; exact hc w (by simpa using hw))
      have e1 : (joinWords cur.reverse).isEmpty = false := by
        cases hj : joinWords cur.reverse with
        | nil => exact absurd hj this
        | cons _ _ => rfl
      have e2 : cur.isEmpty = false := by cases cur <;> simp_all
      simp [e1, e2]
  | w :: rest, cur, hws, hc => by
    have hrest : ∀ x ∈ rest, x ≠ [] := fun x hx => hws x (List.mem_cons_of_mem _ hx)
    have hw : w ≠ [] := hws w (List.mem_cons_self ..)
    simp only [fillAux, fillG]
    by_cases hb : w = brk
    · simp only [hb, if_true, List.map_cons]
      have := fillAux_eq_fillG L rest [] hrest (by simp)
      simp only [List.reverse_nil, joinWords] at this
      rw [this]
    · simp only [hb, if_false]
      by_cases h : cur = []
      · subst h
        simp only [List.reverse_nil, joinWords, List.isEmpty_nil, if_true]
        have := fillAux_eq_fillG L rest [w] hrest (by simpa using hw)
        simpa [joinWords] using this
      · have h' : cur.reverse ≠ [] := by simpa using h
        have hj := joinWords_ne_nil cur.reverse h' (by intro x hx; exact hc x (by simpa using hx))
        have e1 : (joinWords cur.reverse).isEmpty = false := by
          cases hjj : joinWords cur.reverse with
          | nil => exact absurd hjj hj
          | cons _ _ => rfl
        have e2 : cur.isEmpty = false := by cases cur <;> simp_all
        simp only [e1, e2, Bool.false_eq_true, if_false, joinWords_snoc _ w h']
        by_cases hfit : (joinWords cur.reverse ++ [' '] ++ w).length ≤ L
        · simp only [hfit, if_true]
          have := fillAux_eq_fillG L rest (w :: cur) hrest (by
            intro x hx; rcases List.mem_cons.mp hx with rfl | hx
            · exact hw
            · exact hc x hx)
          simp only [List.reverse_cons, joinWords_snoc _ w h'] at this
          exact this
        · simp only [hfit, if_false, List.map_cons]
          have := fillAux_eq_fillG L rest [w] hrest (by simpa using hw)
          simp only [List.reverse_cons, List.reverse_nil, List.nil_append, joinWords] at this
          rw [this]

theorem fillG_flatten (L : Nat) : ∀ (ws cur : List Str),
    (fillG L ws cur).flatten = cur.reverse ++ ws.filter (· ≠ brk)
  | [], cur => by
    simp only [fillG]
    split
    · rename_i h; have : cur = [] := by cases cur <;> simp_all
      subst this; rfl
    · simp
  | w :: rest, cur => by
    simp only [fillG]
    by_cases hb : w = brk
    · simp [hb, fillG_flatten L rest []]
    · simp only [hb, if_false]
      have hf : (w :: rest).filter (· ≠ brk) = w :: rest.filter (· ≠ brk) := by simp [hb]
      rw [hf]
      split
      · rename_i h; have : cur = [] := by cases cur <;> simp_all
        subst this; simp [fillG_flatten L rest [w]]
      · split
        · simp [fillG_flatten L rest (w :: cur)]
        · simp [fillG_flatten L rest [w]]

/-- **Nothing is dropped, added or reordered**: the output lines are the words, grouped in order
    and joined by single spaces; the only separators consumed are the hard-break markers. -/
theorem C10_words (L : Nat) (ws : List Str) (h : ∀ w ∈ ws, w ≠ []) :
    ∃ groups : List (List Str), fill L ws = groups.map joinWords ∧ groups.flatten = ws.filter (· ≠ brk) := by
  refine ⟨fillG L ws [], ?_, ?_⟩
  · have := fillAux_eq_fillG L ws [] h (by simp)
    simpa [fill, joinWords] using this
  · simpa using fillG_flatten L ws []

/-- **Container budgets**: a block quote hands `L − 2` to its children and a list item
    `L − prepend`, but never less than 1; "no limit" stays "no limit".  In particular the child
    budget of a wrapping parent is never the falsy value 0, so wrapping cannot silently switch off
    inside a container (it did on the pinned code: fixed, see known_findings.json). -/
theorem C10_budget (L : Int) (k : Nat) (hL : L ≠ 0) :
    childBudget (some L) k = some (max (L - k) 1) ∧ childBudget none k = none
    ∧ ∀ b, childBudget (some L) k = some b → b ≠ 0 := by
  have h : childBudget (some L) k = some (max (L - k) 1) := by simp [childBudget, hL]
  refine ⟨h, rfl, ?_⟩
  intro b hb
  rw [h] at hb
  cases hb
  omega

/-- Wrapping stays on at every nesting depth: a child of a wrapping parent wraps. -/
theorem C10_wrapping_stays_on (fs : List Fragment) (L : Int) (k : Nat) (hL : L ≠ 0) :
    fragmentsToLines fs (childBudget (some L) k) = fill (max (L - k) 1).toNat (makeWords fs) := by
  have h : childBudget (some L) k = some (max (L - k) 1) := by simp [childBudget, hL]
  rw [h]
  simp only [fragmentsToLines]
  have : ¬ (max (L - k) 1 = 0) := by omega
  simp [this]

/-! Non-vacuity -/
example : fill 9 (makeWords [{ text := "aaaa bb".toList, wordwrap := true }, { text := "  \n".toList, hardLineBreak := true },
      { text := "c dddddddddddd e".toList, wordwrap := true }])
    = ["aaaa bb  ", "c", "dddddddddddd", "e"].map String.toList := by decide

end Mistletoe.Props.C10
