/-
  SPECIFICATION: emphasis and strong emphasis in the presence of backslash escapes.
  CommonMark 0.30 section 2.4 (backslash escapes), section 6.2 (emphasis and strong emphasis) and
  the appendix procedure *process emphasis* (the latter two as in Spec/Emphasis.lean, whose
  definitions of flanking, "can open", "can close" and `process` are used unchanged).

  Written from the text of the specification, not from mistletoe: this file does not import the
  model of core_tokens.py.  Proofs/EmphRefineEsc.lean proves that the model computes what is defined
  here.

  Fragment.  `plainEsc s`: the inline text has no backtick, `[`, `]`, `<`, `&` (no code span, link,
  image, autolink, raw HTML, entity).  Backslashes are allowed; every other character too.

  Section 2.4: "Any ASCII punctuation character may be backslash-escaped […]  Backslashes before
  other characters are treated as literal backslashes […]  If a backslash is itself escaped, the
  following character is not."  Section 6.2: "A delimiter run is either a sequence of one or more
  `*` characters that is not preceded or followed by a non-backslash-escaped `*` character, or a
  sequence of one or more `_` characters that is not preceded or followed by a non-backslash-escaped
  `_` character."  So an escaped `*` or `_` is literal text and belongs to no delimiter run, and it
  does not prolong the run next to it.

  Flanking.  The characters before and after a run are taken from the source text (as the reference
  implementations do).  Nothing hinges on this choice: the character after a run can be an escaping
  backslash (ASCII punctuation) in front of an escaped character (ASCII punctuation as well, only
  such characters can be escaped); the character before a run can be an escaped character, which
  is the same character in the source and in the text "after unescaping".
-/
import Mistletoe.Spec.Emphasis
namespace Mistletoe.Spec.EmphasisEsc
open Mistletoe Mistletoe.Spec.Emphasis

/-! ### backslash escapes (section 2.4) -/

/-- "An *ASCII punctuation character* is `!`, `"`, `#`, `$`, `%`, `&`, `'`, `(`, `)`, `*`, `+`, `,`,
    `-`, `.`, `/` (U+0021–2F), `:`, `;`, `<`, `=`, `>`, `?`, `@` (U+003A–0040), `[`, `\`, `]`, `^`,
    `_`, `` ` `` (U+005B–0060), `{`, `|`, `}`, or `~` (U+007B–007E)." -/
def isAsciiPunctuation (c : Char) : Bool :=
  inRanges [(0x21, 0x2F), (0x3A, 0x40), (0x5B, 0x60), (0x7B, 0x7E)] c

/-- `escMarks pending s`: for every character of `s`, whether it is backslash-escaped; `pending`
    = the character before `s` is a backslash that is not itself escaped.

    After such a backslash, an ASCII punctuation character is escaped ("Any ASCII punctuation
    character may be backslash-escaped"); any other character is not, and the backslash was a
    literal one ("Backslashes before other characters are treated as literal backslashes").  In
    both cases the character is consumed: if it is a backslash, it is escaped, hence it escapes
    nothing ("If a backslash is itself escaped, the following character is not").  A backslash at
    the end of the text escapes nothing. -/
def escMarks : Bool → List Char → List Bool
  | _, [] => []
  | true, c :: rest => isAsciiPunctuation c :: escMarks false rest
  | false, c :: rest => false :: escMarks (c == '\\') rest

/-- the character at position `i` of `s` is backslash-escaped -/
def escapedAt (s : List Char) (i : Nat) : Bool := ((escMarks false s)[i]?).getD false

/-- The fragment: no character that could start (or end) a construct other than emphasis or a
    backslash escape. -/
def plainEscChar (c : Char) : Bool := c != '`' && c != '[' && c != ']' && c != '<' && c != '&'

def plainEsc (s : List Char) : Bool := s.all plainEscChar

/-! ### delimiter runs (section 6.2) -/

/-- `some c`: the character is a `*` or `_` (namely `c`) that is not backslash-escaped, a delimiter
    character; `none`: it is text -/
def delimOf (c : Char) (escaped : Bool) : Option Char := if isDelimChar c && !escaped then some c else none

/-- the text as a sequence of delimiter characters and (`none`) other characters -/
def delims (s : List Char) : List (Option Char) := List.zipWith delimOf s (escMarks false s)

/-- number of leading delimiter characters `c` -/
def countRunD (c : Char) : List (Option Char) → Nat
  | some d :: rest => if d = c then countRunD c rest + 1 else 0
  | _ => 0

/-- `runSpansD prev pos rest`: the delimiter runs of `rest`, whose first element has position `pos`
    and is preceded by `prev`; each as (character, position, length).  A run starts at a delimiter
    character that is not preceded by the same delimiter character ("not preceded […] by a
    non-backslash-escaped `*` character"), and extends over all the following equal delimiter
    characters. -/
def runSpansD : Option Char → Nat → List (Option Char) → List (Char × Nat × Nat)
  | _, _, [] => []
  | _, pos, none :: rest => runSpansD none (pos + 1) rest
  | prev, pos, some c :: rest =>
    if prev != some c then (c, pos, countRunD c rest + 1) :: runSpansD (some c) (pos + 1) rest
    else runSpansD (some c) (pos + 1) rest

/-- the delimiter runs of a text as (character, position, length), from left to right -/
def runSpansEsc (s : List Char) : List (Char × Nat × Nat) := runSpansD none 0 (delims s)

/-- The delimiter stack, bottom first, when *process emphasis* is called at the end of the text:
    one entry per delimiter run, classified by `Emphasis.mkRun` (left/right flanking, rules 1–8)
    from the characters of the source text before and after the run. -/
def runsEsc (s : List Char) : List Run := (runSpansEsc s).map (fun r => mkRun s r.1 r.2.1 r.2.2)

/-- the emphasis structure of an inline text with backslash escapes: the SAME *process emphasis* -/
def emphasisEsc (s : List Char) : List Match := process (runsEsc s)

/-- entry point for a driver: (start, text start, text end, stop, strong) of every emphasis, in the
    order found -/
def spansEsc (s : List Char) : List (Nat × Nat × Nat × Nat × Bool) :=
  (emphasisEsc s).map (fun m => (m.openStart, m.openStop, m.closeStart, m.closeStop, m.strong))

/-! ### sanity checks -/

/-- the 32 ASCII punctuation characters -/
example : ((List.range 128).filter (fun n => isAsciiPunctuation (Char.ofNat n))).map Char.ofNat =
    "!\"#$%&'()*+,-./:;<=>?@[\\]^_`{|}~".toList := by decide +kernel

/-- on a text without backslash, nothing is escaped and the runs are those of Spec/Emphasis.lean -/
example : runsEsc "***a** _b_ c*".toList = runs "***a** _b_ c*".toList := by decide +kernel

/-- escape marks: `\\` escapes the second backslash, which then escapes nothing; `\a` escapes
    nothing; a final backslash escapes nothing -/
example : (List.range 9).filter (escapedAt "\\\\*\\*\\a*\\".toList) = [1, 4] := by decide +kernel

/-! The examples of the 0.30 test suite (/repo/test/specification/commonmark.json) that lie in the
  fragment and contain a backslash, with the emphasis structure that the expected HTML implies: each
  `<em>`/`<strong>` pair as (start, text start, text end, stop, strong) in positions of the source.
  `⏎` stands for a line ending inside the paragraph. -/

/-- example 13: `\→\A\a\ \3\φ\«` ↦ `<p>\→\A\a\ \3\φ\«</p>` -/
example : spansEsc "\\\t\\A\\a\\ \\3\\φ\\«".toList = [] := by decide +kernel

/-- example 14, first line: `\*not emphasized*` ↦ `*not emphasized*` -/
example : spansEsc "\\*not emphasized*".toList = [] := by decide +kernel

/-- example 14, other lines of the fragment -/
example : spansEsc "\\# not a heading".toList = [] ∧ spansEsc "1\\. not a list".toList = [] ∧
    spansEsc "\\* not a list".toList = [] := by decide +kernel

/-- example 15: `\\*emphasis*` ↦ `<p>\<em>emphasis</em></p>` -/
example : spansEsc "\\\\*emphasis*".toList = [(2, 3, 11, 12, false)] := by decide +kernel

/-- example 16: `foo\⏎bar` ↦ `<p>foo<br />⏎bar</p>` -/
example : spansEsc "foo\\\nbar".toList = [] := by decide +kernel

/-- example 436: `foo *\**` ↦ `<p>foo <em>*</em></p>` -/
example : spansEsc "foo *\\**".toList = [(4, 5, 7, 8, false)] := by decide +kernel

/-- example 439: `foo **\***` ↦ `<p>foo <strong>*</strong></p>` -/
example : spansEsc "foo **\\***".toList = [(4, 6, 8, 10, true)] := by decide +kernel

/-- example 448: `foo _\__` ↦ `<p>foo <em>_</em></p>` -/
example : spansEsc "foo _\\__".toList = [(4, 5, 7, 8, false)] := by decide +kernel

/-- example 451: `foo __\___` ↦ `<p>foo <strong>_</strong></p>` -/
example : spansEsc "foo __\\___".toList = [(4, 6, 8, 10, true)] := by decide +kernel

/-- example 639: `*foo\⏎bar*` ↦ `<p><em>foo<br />⏎bar</em></p>` -/
example : spansEsc "*foo\\\nbar*".toList = [(0, 1, 9, 10, false)] := by decide +kernel

/-- example 644: `foo\` ↦ `<p>foo\</p>` -/
example : spansEsc "foo\\".toList = [] := by decide +kernel

/-! Further examples; each was run on the reference oracle (`spec_emph.spec` in /verif/harness, an
  independent Python transcription of section 6.2 with escapes) and on the real mistletoe
  (`mistletoe.markdown`), which agree with the value stated. -/

/-- `\**a*` ↦ `*<em>a</em>`: the run starts after the escaped `*`, which counts as punctuation
    before it -/
example : spansEsc "\\**a*".toList = [(2, 3, 4, 5, false)] := by decide +kernel
example : (runsEsc "\\**a*".toList).map (fun r => (r.start, r.orig, r.canOpen, r.canClose)) =
    [(2, 1, true, false), (4, 1, false, true)] := by decide +kernel

/-- `*a\**` ↦ `<em>a*</em>`: the escaped `*` does not prolong the closing run -/
example : spansEsc "*a\\**".toList = [(0, 1, 4, 5, false)] := by decide +kernel

/-- `**a*\` ↦ `*<em>a</em>\`: the final backslash is literal, and punctuation after the run -/
example : spansEsc "**a*\\".toList = [(1, 2, 3, 4, false)] := by decide +kernel

/-- `a\\*b*` ↦ `a\<em>b</em>`: an escaped backslash escapes nothing -/
example : spansEsc "a\\\\*b*".toList = [(3, 4, 5, 6, false)] := by decide +kernel

/-- `*a\\\*` ↦ `*a\*`: escaped backslash, then escaped `*` -/
example : spansEsc "*a\\\\\\*".toList = [] := by decide +kernel

/-- `a \*b* *c\* d*` ↦ `a *b* <em>c* d</em>` -/
example : spansEsc "a \\*b* *c\\* d*".toList = [(7, 8, 13, 14, false)] := by decide +kernel

/-- `*a\*` ↦ `*a*`;  `*\*a*` ↦ `<em>*a</em>`;  `*a*\*` ↦ `<em>a</em>*` -/
example : spansEsc "*a\\*".toList = [] ∧ spansEsc "*\\*a*".toList = [(0, 1, 4, 5, false)] ∧
    spansEsc "*a*\\*".toList = [(0, 1, 2, 3, false)] := by decide +kernel

/-- `\a*b*` ↦ `\a<em>b</em>` (a backslash before a letter is literal);  `\_a_` ↦ `_a_` -/
example : spansEsc "\\a*b*".toList = [(2, 3, 4, 5, false)] ∧ spansEsc "\\_a_".toList = [] := by decide +kernel

/-- `**a\***` ↦ `<strong>a*</strong>`;  `_a\__` ↦ `<em>a_</em>` -/
example : spansEsc "**a\\***".toList = [(0, 2, 5, 7, true)] ∧ spansEsc "_a\\__".toList = [(0, 1, 4, 5, false)] := by
  decide +kernel

/-- `a*\ b*` ↦ `a*\ b*`: the first run is followed by a (literal) backslash, punctuation, and
    preceded by a letter: not left-flanking -/
example : spansEsc "a*\\ b*".toList = [] := by decide +kernel

/-- an escaped `_` between two `_` runs separates them: `__\___a__` has runs of 2, 2, 2 -/
example : (runSpansEsc "__\\___a__".toList) = [('_', 0, 2), ('_', 4, 2), ('_', 7, 2)] := by decide +kernel

end Mistletoe.Spec.EmphasisEsc
