/-
  SPECIFICATION: emphasis and strong emphasis, CommonMark 0.30 section 6.2 and the appendix
  "An algorithm for parsing nested emphasis and links" (procedure *process emphasis*).

  Written from the text of the specification, not from mistletoe: this file does not import the
  model of core_tokens.py.  Proofs/EmphRefine.lean proves that the model computes what is defined
  here.

  Fragment.  The inline text is a list of characters in which backslash escapes, code spans, links,
  images' brackets, autolinks, raw HTML and entities do not occur: `plain s` excludes the characters
  `\`, backtick, `[`, `]`, `<`, `&`.  Every other character (letters, digits, spaces, line endings,
  punctuation, `!`, `*`, `_`, …) is allowed; `*` and `_` form delimiter runs and everything else is
  text.  In such a text the delimiter stack holds emphasis delimiters only, `stack_bottom` is the
  bottom of the stack, and *process emphasis* is called once, at the end of the text.

  Positions are 0-based indexes of characters of the text; a range `[a, b)` holds the characters
  `a, …, b - 1`.
-/
import Mistletoe.Model.Chars
import Mistletoe.Gen.Tables
namespace Mistletoe.Spec.Emphasis
open Mistletoe

/-! ### characters (section 2.1) -/

/-- "A *Unicode whitespace character* is any code point in the Unicode `Zs` general category, or a
    tab (U+0009), line feed (U+000A), form feed (U+000C), or carriage return (U+000D)."

    `Zs` is written out: U+0020, U+00A0, U+1680, U+2000–U+200A, U+202F, U+205F, U+3000 (the same 17
    code points in every Unicode version since 6.3; the interpreter behind Gen/ has 15.0). -/
def isUnicodeWhitespace (c : Char) : Bool :=
  inRanges [(0x09, 0x0A), (0x0C, 0x0D), (0x20, 0x20), (0xA0, 0xA0), (0x1680, 0x1680), (0x2000, 0x200A),
            (0x202F, 0x202F), (0x205F, 0x205F), (0x3000, 0x3000)] c

/-- "A *Unicode punctuation character* is an ASCII punctuation character or anything in the general
    Unicode categories `Pc`, `Pd`, `Pe`, `Pf`, `Pi`, `Po`, or `Ps`."

    The table is NOT written out here: it is `Gen.Tables.punctuation`, the list of code point ranges
    that the harness regenerates on every run from `core_tokens.punctuation`, which mistletoe builds
    as (the 32 ASCII punctuation characters) ∪ {c | unicodedata.category(c) starts with "P"} with
    the running CPython.  So for this one class the specification and the implementation share the
    table by construction; what is specified independently is how the class is *used*. -/
def isUnicodePunctuation (c : Char) : Bool := inRanges Gen.Tables.punctuation c

/-- `*` or `_` -/
def isDelimChar (c : Char) : Bool := c == '*' || c == '_'

/-- The fragment: no character that could start (or end) a construct other than emphasis. -/
def plainChar (c : Char) : Bool :=
  c != '\\' && c != '`' && c != '[' && c != ']' && c != '<' && c != '&'

def plain (s : List Char) : Bool := s.all plainChar

/-! ### delimiter runs (section 6.2) -/

/-- One delimiter run, as it sits on the delimiter stack: "the type of delimiter (`*`, `_`)", "the
    number of delimiters" (`count`, what is left of the run; the text node still holds the
    characters `[start, start + count)`), "whether the delimiter is a potential opener, a potential
    closer, or both", and the length `orig` of the whole run, which rules 9 and 10 refer to
    ("the lengths of the delimiter runs containing the opening and closing delimiters"). -/
structure Run where
  char : Char
  start : Nat
  orig : Nat
  count : Nat
  canOpen : Bool
  canClose : Bool
  deriving Repr, DecidableEq, Inhabited

/-- number of leading characters equal to `c` -/
def countRun (c : Char) : List Char → Nat
  | [] => 0
  | d :: rest => if d = c then countRun c rest + 1 else 0

/-- "A *delimiter run* is either a sequence of one or more `*` characters that is not preceded or
    followed by a non-backslash-escaped `*` character, or a sequence of one or more `_` characters
    that is not preceded or followed by a non-backslash-escaped `_` character."

    `runSpans prev pos rest`: the runs of `rest`, whose first character has position `pos` and is
    preceded by `prev`; each as (character, position, length).  A run starts at a `*`/`_` that is
    not preceded by the same character, and extends over all the following equal characters. -/
def runSpans : Option Char → Nat → List Char → List (Char × Nat × Nat)
  | _, _, [] => []
  | prev, pos, c :: rest =>
    if isDelimChar c && prev != some c then
      (c, pos, countRun c rest + 1) :: runSpans (some c) (pos + 1) rest
    else runSpans (some c) (pos + 1) rest

/-- "For purposes of this definition, the beginning and the end of the line count as Unicode
    whitespace."  `none` is the beginning or the end of the text. -/
def wsAt : Option Char → Bool
  | none => true
  | some c => isUnicodeWhitespace c

def punctAt : Option Char → Bool
  | none => false
  | some c => isUnicodePunctuation c

/-- "A *left-flanking delimiter run* is a delimiter run that is (1) not followed by Unicode
    whitespace, and either (2a) not followed by a Unicode punctuation character, or (2b) followed
    by a Unicode punctuation character and preceded by Unicode whitespace or a Unicode punctuation
    character." -/
def leftFlanking (before after : Option Char) : Bool :=
  !wsAt after && (!punctAt after || (punctAt after && (wsAt before || punctAt before)))

/-- "A *right-flanking delimiter run* is a delimiter run that is (1) not preceded by Unicode
    whitespace, and either (2a) not preceded by a Unicode punctuation character, or (2b) preceded
    by a Unicode punctuation character and followed by Unicode whitespace or a Unicode punctuation
    character." -/
def rightFlanking (before after : Option Char) : Bool :=
  !wsAt before && (!punctAt before || (punctAt before && (wsAt after || punctAt after)))

/-- Rules 1, 5: "A single `*` character [a double `**`] can open emphasis iff it is part of a
    left-flanking delimiter run."  Rules 2, 6: "A single `_` character can open emphasis iff it is
    part of a left-flanking delimiter run and either (a) not part of a right-flanking delimiter run
    or (b) part of a right-flanking delimiter run preceded by a Unicode punctuation character." -/
def canOpen (c : Char) (before after : Option Char) : Bool :=
  if c = '*' then leftFlanking before after
  else leftFlanking before after &&
    (!rightFlanking before after || (rightFlanking before after && punctAt before))

/-- Rules 3, 7: "A single `*` character can close emphasis iff it is part of a right-flanking
    delimiter run."  Rules 4, 8: "A single `_` character can close emphasis iff it is part of a
    right-flanking delimiter run and either (a) not part of a left-flanking delimiter run or (b)
    part of a left-flanking delimiter run followed by a Unicode punctuation character." -/
def canClose (c : Char) (before after : Option Char) : Bool :=
  if c = '*' then rightFlanking before after
  else rightFlanking before after &&
    (!leftFlanking before after || (leftFlanking before after && punctAt after))

/-- the character before position `a` of the text -/
def charBefore (s : List Char) (a : Nat) : Option Char := if a = 0 then none else s[a - 1]?

/-- the character at position `b` of the text (the one after a run that ends at `b`) -/
def charAfter (s : List Char) (b : Nat) : Option Char := s[b]?

/-- the stack entry of the run of `n` characters `c` at position `a` of the text `s` -/
def mkRun (s : List Char) (c : Char) (a n : Nat) : Run :=
  { char := c, start := a, orig := n, count := n,
    canOpen := canOpen c (charBefore s a) (charAfter s (a + n)),
    canClose := canClose c (charBefore s a) (charAfter s (a + n)) }

/-- the delimiter runs of a plain text, from left to right: the delimiter stack, bottom first, when
    *process emphasis* is called at the end of the text -/
def runs (s : List Char) : List Run :=
  (runSpans none 0 s).map (fun r => mkRun s r.1 r.2.1 r.2.2)

/-! ### process emphasis (appendix) -/

/-- An emphasis (`strong = false`, one delimiter character on each side) or a strong emphasis
    (`strong = true`, two): the opening delimiter is `[openStart, openStop)`, the closing delimiter
    is `[closeStart, closeStop)`, the content is `[openStop, closeStart)`. -/
structure Match where
  openStart : Nat
  openStop : Nat
  closeStart : Nat
  closeStop : Nat
  strong : Bool
  deriving Repr, DecidableEq, Inhabited

/-- Rules 9 and 10: "[…] and that uses the same character (`_` or `*`) as the opening delimiter.
    […] If one of the delimiters can both open and close (strong) emphasis, then the sum of the
    lengths of the delimiter runs containing the opening and closing delimiters must not be a
    multiple of 3 unless both lengths are multiples of 3."  `ruleOfThree o c` = this condition holds
    for the opener `o` and the closer `c`. -/
def ruleOfThree (o c : Run) : Bool :=
  if (o.canOpen && o.canClose) || (c.canOpen && c.canClose) then
    (o.orig + c.orig) % 3 != 0 || (o.orig % 3 == 0 && c.orig % 3 == 0)
  else true

/-- `o` is a "matching potential opener" for the closer `c` -/
def canMatch (o c : Run) : Bool := o.canOpen && o.char == c.char && ruleOfThree o c

/-- index of `openers_bottom`: "for each delimiter type (`*`, `_`), indexed by the length of the
    closing delimiter run (modulo 3) and whether the closing delimiter can also be an opener" -/
abbrev Key := Char × Bool × Nat

def keyOf (c : Run) : Key := (c.char, c.canOpen, c.orig % 3)

/-- The state of *process emphasis*.  The delimiter stack is `below.reverse ++ above`:
    `above` is the part from `current_position` upwards (its head is the element at
    `current_position`), `below` the part under `current_position`, nearest element first.
    `bottoms k = some p`: `openers_bottom` for `k` is the stack element at text position `p`;
    `none`: it is `stack_bottom`.  An element lies above that bottom iff its position is greater
    (the stack is ordered by position), which stays meaningful when the element itself has been
    removed from the stack in the meantime.  `found`: the emphasis nodes inserted so far, newest
    first. -/
structure State where
  below : List Run
  above : List Run
  bottoms : Key → Option Nat
  found : List Match

def aboveBottom (bottom : Option Nat) (o : Run) : Bool :=
  match bottom with
  | none => true
  | some p => p < o.start

/-- "Now, look back in the stack (staying above `stack_bottom` and the `openers_bottom` for this
    delimiter type) for the first matching potential opener ("matching" means same delimiter)."
    Returns the opener and the part of the stack under it. -/
def lookBack (c : Run) (bottom : Option Nat) : List Run → Option (Run × List Run)
  | [] => none
  | o :: rest =>
    if aboveBottom bottom o then
      if canMatch o c then some (o, rest) else lookBack c bottom rest
    else none

/-- One round of "Then we repeat the following until we run out of potential closers";
    `none`: there is no element at `current_position` any more. -/
def step (st : State) : Option State :=
  match st.above with
  | [] => none
  | c :: rest =>
    -- "Move current_position forward in the delimiter stack (if needed) until we find the first
    --  potential closer with delimiter * or _."
    if !c.canClose then some { st with below := c :: st.below, above := rest }
    else
      match lookBack c (st.bottoms (keyOf c)) st.below with
      | some (o, under) =>
        -- "Figure out whether we have emphasis or strong emphasis: if both closer and opener spans
        --  have length >= 2, we have strong, otherwise regular."
        let n := if 2 ≤ o.count && 2 ≤ c.count then 2 else 1
        -- "Insert an emph or strong emph node accordingly, after the text node corresponding to
        --  the opener."  The opener gives its last `n` characters, the closer its first `n`.
        let m : Match := { openStart := o.start + o.count - n, openStop := o.start + o.count,
                           closeStart := c.start, closeStop := c.start + n, strong := n == 2 }
        -- "Remove any delimiters between the opener and closer from the delimiter stack."
        -- (they are the elements of `below` above `o`: dropped)
        -- "Remove 1 (for regular emph) or 2 (for strong emph) delimiters from the opening and
        --  closing text nodes.  If they become empty as a result, remove them and remove the
        --  corresponding element of the delimiter stack.  If the closing node is removed, reset
        --  current_position to the next element in the stack."
        let o' : Run := { o with count := o.count - n }
        let c' : Run := { c with start := c.start + n, count := c.count - n }
        some { below := if o'.count = 0 then under else o' :: under,
               above := if c'.count = 0 then rest else c' :: rest,
               bottoms := st.bottoms, found := m :: st.found }
      | none =>
        -- "Set openers_bottom to the element before current_position."
        let bottoms' : Key → Option Nat := fun k =>
          if k = keyOf c then st.below.head?.map (·.start) else st.bottoms k
        -- "If the closer at current_position is not a potential opener, remove it from the
        --  delimiter stack (since we know it can't be a closer either).  Advance current_position
        --  to the next element in the stack."
        some { below := if c.canOpen then c :: st.below else st.below, above := rest,
               bottoms := bottoms', found := st.found }

/-- `n` rounds, or fewer if `current_position` runs off the top of the stack -/
def run : Nat → State → State
  | 0, st => st
  | n + 1, st =>
    match step st with
    | none => st
    | some st' => run n st'

/-- number of delimiter characters on a stack -/
def total : List Run → Nat
  | [] => 0
  | r :: rest => r.count + total rest

/-- Every round makes `total (below ++ above) + above.length` smaller (a match removes at least
    two delimiter characters; otherwise `current_position` advances), so this many rounds always
    reach the end of the stack: `run_complete` in Proofs/EmphRefine.lean. -/
def measure (st : State) : Nat := total st.below + total st.above + st.above.length

/-- *process emphasis* with `stack_bottom` = NULL on the stack `rs` (bottom first): "Let
    current_position point to the element on the delimiter stack just above stack_bottom (or the
    first element if stack_bottom is NULL)", all `openers_bottom` are `stack_bottom`.  The result is
    the list of emphasis nodes in the order in which they are inserted. -/
def initial (rs : List Run) : State :=
  { below := [], above := rs, bottoms := fun _ => none, found := [] }

def process (rs : List Run) : List Match :=
  (run (measure (initial rs)) (initial rs)).found.reverse

/-- the emphasis structure of a plain inline text -/
def emphasis (s : List Char) : List Match := process (runs s)

/-- entry point for a driver: (start, text start, text end, stop, strong) of every emphasis, in the
    order found -/
def spans (s : List Char) : List (Nat × Nat × Nat × Nat × Bool) :=
  (emphasis s).map (fun m => (m.openStart, m.openStop, m.closeStart, m.closeStop, m.strong))

/-! ### sanity checks: the specification's own examples

  All the examples of section 6.2 (numbers 350–480 of the 0.30 test suite) whose text lies in the
  fragment, 114 of 131, with the emphasis structure that the expected HTML implies: each
  `<em>`/`<strong>` … `</em>`/`</strong>` pair as (start, text start, text end, stop, strong), ordered
  by the position of the closing delimiter (the order in which the procedure finds them).  The
  expected values were derived mechanically from the HTML of the test suite
  (/repo/test/specification/commonmark.json), not from this definition.  `⏎` stands for a line
  ending inside the paragraph. -/

/-- example 350: `*foo bar*` ↦ `<p><em>foo bar</em></p>` -/
example : spans "*foo bar*".toList = [(0, 1, 8, 9, false)] := by decide +kernel

/-- example 351: `a * foo bar*` ↦ `<p>a * foo bar*</p>` -/
example : spans "a * foo bar*".toList = [] := by decide +kernel

/-- example 352: `a*"foo"*` ↦ `<p>a*&quot;foo&quot;*</p>` -/
example : spans "a*\"foo\"*".toList = [] := by decide +kernel

/-- example 353: `* a *` ↦ `<p>* a *</p>` -/
example : spans "*\u00a0a\u00a0*".toList = [] := by decide +kernel

/-- example 354: `foo*bar*` ↦ `<p>foo<em>bar</em></p>` -/
example : spans "foo*bar*".toList = [(3, 4, 7, 8, false)] := by decide +kernel

/-- example 355: `5*6*78` ↦ `<p>5<em>6</em>78</p>` -/
example : spans "5*6*78".toList = [(1, 2, 3, 4, false)] := by decide +kernel

/-- example 356: `_foo bar_` ↦ `<p><em>foo bar</em></p>` -/
example : spans "_foo bar_".toList = [(0, 1, 8, 9, false)] := by decide +kernel

/-- example 357: `_ foo bar_` ↦ `<p>_ foo bar_</p>` -/
example : spans "_ foo bar_".toList = [] := by decide +kernel

/-- example 358: `a_"foo"_` ↦ `<p>a_&quot;foo&quot;_</p>` -/
example : spans "a_\"foo\"_".toList = [] := by decide +kernel

/-- example 359: `foo_bar_` ↦ `<p>foo_bar_</p>` -/
example : spans "foo_bar_".toList = [] := by decide +kernel

/-- example 360: `5_6_78` ↦ `<p>5_6_78</p>` -/
example : spans "5_6_78".toList = [] := by decide +kernel

/-- example 361: `пристаням_стремятся_` ↦ `<p>пристаням_стремятся_</p>` -/
example : spans "\u043f\u0440\u0438\u0441\u0442\u0430\u043d\u044f\u043c_\u0441\u0442\u0440\u0435\u043c\u044f\u0442\u0441\u044f_".toList = [] := by decide +kernel

/-- example 362: `aa_"bb"_cc` ↦ `<p>aa_&quot;bb&quot;_cc</p>` -/
example : spans "aa_\"bb\"_cc".toList = [] := by decide +kernel

/-- example 363: `foo-_(bar)_` ↦ `<p>foo-<em>(bar)</em></p>` -/
example : spans "foo-_(bar)_".toList = [(4, 5, 10, 11, false)] := by decide +kernel

/-- example 364: `_foo*` ↦ `<p>_foo*</p>` -/
example : spans "_foo*".toList = [] := by decide +kernel

/-- example 365: `*foo bar *` ↦ `<p>*foo bar *</p>` -/
example : spans "*foo bar *".toList = [] := by decide +kernel

/-- example 366: `*foo bar⏎*` ↦ `<p>*foo bar⏎*</p>` -/
example : spans "*foo bar\n*".toList = [] := by decide +kernel

/-- example 367: `*(*foo)` ↦ `<p>*(*foo)</p>` -/
example : spans "*(*foo)".toList = [] := by decide +kernel

/-- example 368: `*(*foo*)*` ↦ `<p><em>(<em>foo</em>)</em></p>` -/
example : spans "*(*foo*)*".toList = [(2, 3, 6, 7, false), (0, 1, 8, 9, false)] := by decide +kernel

/-- example 369: `*foo*bar` ↦ `<p><em>foo</em>bar</p>` -/
example : spans "*foo*bar".toList = [(0, 1, 4, 5, false)] := by decide +kernel

/-- example 370: `_foo bar _` ↦ `<p>_foo bar _</p>` -/
example : spans "_foo bar _".toList = [] := by decide +kernel

/-- example 371: `_(_foo)` ↦ `<p>_(_foo)</p>` -/
example : spans "_(_foo)".toList = [] := by decide +kernel

/-- example 372: `_(_foo_)_` ↦ `<p><em>(<em>foo</em>)</em></p>` -/
example : spans "_(_foo_)_".toList = [(2, 3, 6, 7, false), (0, 1, 8, 9, false)] := by decide +kernel

/-- example 373: `_foo_bar` ↦ `<p>_foo_bar</p>` -/
example : spans "_foo_bar".toList = [] := by decide +kernel

/-- example 374: `_пристаням_стремятся` ↦ `<p>_пристаням_стремятся</p>` -/
example : spans "_\u043f\u0440\u0438\u0441\u0442\u0430\u043d\u044f\u043c_\u0441\u0442\u0440\u0435\u043c\u044f\u0442\u0441\u044f".toList = [] := by decide +kernel

/-- example 375: `_foo_bar_baz_` ↦ `<p><em>foo_bar_baz</em></p>` -/
example : spans "_foo_bar_baz_".toList = [(0, 1, 12, 13, false)] := by decide +kernel

/-- example 376: `_(bar)_.` ↦ `<p><em>(bar)</em>.</p>` -/
example : spans "_(bar)_.".toList = [(0, 1, 6, 7, false)] := by decide +kernel

/-- example 377: `**foo bar**` ↦ `<p><strong>foo bar</strong></p>` -/
example : spans "**foo bar**".toList = [(0, 2, 9, 11, true)] := by decide +kernel

/-- example 378: `** foo bar**` ↦ `<p>** foo bar**</p>` -/
example : spans "** foo bar**".toList = [] := by decide +kernel

/-- example 379: `a**"foo"**` ↦ `<p>a**&quot;foo&quot;**</p>` -/
example : spans "a**\"foo\"**".toList = [] := by decide +kernel

/-- example 380: `foo**bar**` ↦ `<p>foo<strong>bar</strong></p>` -/
example : spans "foo**bar**".toList = [(3, 5, 8, 10, true)] := by decide +kernel

/-- example 381: `__foo bar__` ↦ `<p><strong>foo bar</strong></p>` -/
example : spans "__foo bar__".toList = [(0, 2, 9, 11, true)] := by decide +kernel

/-- example 382: `__ foo bar__` ↦ `<p>__ foo bar__</p>` -/
example : spans "__ foo bar__".toList = [] := by decide +kernel

/-- example 383: `__⏎foo bar__` ↦ `<p>__⏎foo bar__</p>` -/
example : spans "__\nfoo bar__".toList = [] := by decide +kernel

/-- example 384: `a__"foo"__` ↦ `<p>a__&quot;foo&quot;__</p>` -/
example : spans "a__\"foo\"__".toList = [] := by decide +kernel

/-- example 385: `foo__bar__` ↦ `<p>foo__bar__</p>` -/
example : spans "foo__bar__".toList = [] := by decide +kernel

/-- example 386: `5__6__78` ↦ `<p>5__6__78</p>` -/
example : spans "5__6__78".toList = [] := by decide +kernel

/-- example 387: `пристаням__стремятся__` ↦ `<p>пристаням__стремятся__</p>` -/
example : spans "\u043f\u0440\u0438\u0441\u0442\u0430\u043d\u044f\u043c__\u0441\u0442\u0440\u0435\u043c\u044f\u0442\u0441\u044f__".toList = [] := by decide +kernel

/-- example 388: `__foo, __bar__, baz__` ↦ `<p><strong>foo, <strong>bar</strong>, baz</strong></p>` -/
example : spans "__foo, __bar__, baz__".toList = [(7, 9, 12, 14, true), (0, 2, 19, 21, true)] := by decide +kernel

/-- example 389: `foo-__(bar)__` ↦ `<p>foo-<strong>(bar)</strong></p>` -/
example : spans "foo-__(bar)__".toList = [(4, 6, 11, 13, true)] := by decide +kernel

/-- example 390: `**foo bar **` ↦ `<p>**foo bar **</p>` -/
example : spans "**foo bar **".toList = [] := by decide +kernel

/-- example 391: `**(**foo)` ↦ `<p>**(**foo)</p>` -/
example : spans "**(**foo)".toList = [] := by decide +kernel

/-- example 392: `*(**foo**)*` ↦ `<p><em>(<strong>foo</strong>)</em></p>` -/
example : spans "*(**foo**)*".toList = [(2, 4, 7, 9, true), (0, 1, 10, 11, false)] := by decide +kernel

/-- example 393: `**Gomphocarpus (*Gomphocarpus physocarpus*, syn.⏎*Asclepias physocarpa*)**` ↦ `<p><strong>Gomphocarpus (<em>Gomphocarpus physocarpus</em>, syn.⏎<em>Asclepias physocarpa</em>)</strong></p>` -/
example : spans "**Gomphocarpus (*Gomphocarpus physocarpus*, syn.\n*Asclepias physocarpa*)**".toList = [(16, 17, 41, 42, false), (49, 50, 70, 71, false), (0, 2, 72, 74, true)] := by decide +kernel

/-- example 394: `**foo "*bar*" foo**` ↦ `<p><strong>foo &quot;<em>bar</em>&quot; foo</strong></p>` -/
example : spans "**foo \"*bar*\" foo**".toList = [(7, 8, 11, 12, false), (0, 2, 17, 19, true)] := by decide +kernel

/-- example 395: `**foo**bar` ↦ `<p><strong>foo</strong>bar</p>` -/
example : spans "**foo**bar".toList = [(0, 2, 5, 7, true)] := by decide +kernel

/-- example 396: `__foo bar __` ↦ `<p>__foo bar __</p>` -/
example : spans "__foo bar __".toList = [] := by decide +kernel

/-- example 397: `__(__foo)` ↦ `<p>__(__foo)</p>` -/
example : spans "__(__foo)".toList = [] := by decide +kernel

/-- example 398: `_(__foo__)_` ↦ `<p><em>(<strong>foo</strong>)</em></p>` -/
example : spans "_(__foo__)_".toList = [(2, 4, 7, 9, true), (0, 1, 10, 11, false)] := by decide +kernel

/-- example 399: `__foo__bar` ↦ `<p>__foo__bar</p>` -/
example : spans "__foo__bar".toList = [] := by decide +kernel

/-- example 400: `__пристаням__стремятся` ↦ `<p>__пристаням__стремятся</p>` -/
example : spans "__\u043f\u0440\u0438\u0441\u0442\u0430\u043d\u044f\u043c__\u0441\u0442\u0440\u0435\u043c\u044f\u0442\u0441\u044f".toList = [] := by decide +kernel

/-- example 401: `__foo__bar__baz__` ↦ `<p><strong>foo__bar__baz</strong></p>` -/
example : spans "__foo__bar__baz__".toList = [(0, 2, 15, 17, true)] := by decide +kernel

/-- example 402: `__(bar)__.` ↦ `<p><strong>(bar)</strong>.</p>` -/
example : spans "__(bar)__.".toList = [(0, 2, 7, 9, true)] := by decide +kernel

/-- example 404: `*foo⏎bar*` ↦ `<p><em>foo⏎bar</em></p>` -/
example : spans "*foo\nbar*".toList = [(0, 1, 8, 9, false)] := by decide +kernel

/-- example 405: `_foo __bar__ baz_` ↦ `<p><em>foo <strong>bar</strong> baz</em></p>` -/
example : spans "_foo __bar__ baz_".toList = [(5, 7, 10, 12, true), (0, 1, 16, 17, false)] := by decide +kernel

/-- example 406: `_foo _bar_ baz_` ↦ `<p><em>foo <em>bar</em> baz</em></p>` -/
example : spans "_foo _bar_ baz_".toList = [(5, 6, 9, 10, false), (0, 1, 14, 15, false)] := by decide +kernel

/-- example 407: `__foo_ bar_` ↦ `<p><em><em>foo</em> bar</em></p>` -/
example : spans "__foo_ bar_".toList = [(1, 2, 5, 6, false), (0, 1, 10, 11, false)] := by decide +kernel

/-- example 408: `*foo *bar**` ↦ `<p><em>foo <em>bar</em></em></p>` -/
example : spans "*foo *bar**".toList = [(5, 6, 9, 10, false), (0, 1, 10, 11, false)] := by decide +kernel

/-- example 409: `*foo **bar** baz*` ↦ `<p><em>foo <strong>bar</strong> baz</em></p>` -/
example : spans "*foo **bar** baz*".toList = [(5, 7, 10, 12, true), (0, 1, 16, 17, false)] := by decide +kernel

/-- example 410: `*foo**bar**baz*` ↦ `<p><em>foo<strong>bar</strong>baz</em></p>` -/
example : spans "*foo**bar**baz*".toList = [(4, 6, 9, 11, true), (0, 1, 14, 15, false)] := by decide +kernel

/-- example 411: `*foo**bar*` ↦ `<p><em>foo**bar</em></p>` -/
example : spans "*foo**bar*".toList = [(0, 1, 9, 10, false)] := by decide +kernel

/-- example 412: `***foo** bar*` ↦ `<p><em><strong>foo</strong> bar</em></p>` -/
example : spans "***foo** bar*".toList = [(1, 3, 6, 8, true), (0, 1, 12, 13, false)] := by decide +kernel

/-- example 413: `*foo **bar***` ↦ `<p><em>foo <strong>bar</strong></em></p>` -/
example : spans "*foo **bar***".toList = [(5, 7, 10, 12, true), (0, 1, 12, 13, false)] := by decide +kernel

/-- example 414: `*foo**bar***` ↦ `<p><em>foo<strong>bar</strong></em></p>` -/
example : spans "*foo**bar***".toList = [(4, 6, 9, 11, true), (0, 1, 11, 12, false)] := by decide +kernel

/-- example 415: `foo***bar***baz` ↦ `<p>foo<em><strong>bar</strong></em>baz</p>` -/
example : spans "foo***bar***baz".toList = [(4, 6, 9, 11, true), (3, 4, 11, 12, false)] := by decide +kernel

/-- example 416: `foo******bar*********baz` ↦ `<p>foo<strong><strong><strong>bar</strong></strong></strong>***baz</p>` -/
example : spans "foo******bar*********baz".toList = [(7, 9, 12, 14, true), (5, 7, 14, 16, true), (3, 5, 16, 18, true)] := by decide +kernel

/-- example 417: `*foo **bar *baz* bim** bop*` ↦ `<p><em>foo <strong>bar <em>baz</em> bim</strong> bop</em></p>` -/
example : spans "*foo **bar *baz* bim** bop*".toList = [(11, 12, 15, 16, false), (5, 7, 20, 22, true), (0, 1, 26, 27, false)] := by decide +kernel

/-- example 419: `** is not an empty emphasis` ↦ `<p>** is not an empty emphasis</p>` -/
example : spans "** is not an empty emphasis".toList = [] := by decide +kernel

/-- example 420: `**** is not an empty strong emphasis` ↦ `<p>**** is not an empty strong emphasis</p>` -/
example : spans "**** is not an empty strong emphasis".toList = [] := by decide +kernel

/-- example 422: `**foo⏎bar**` ↦ `<p><strong>foo⏎bar</strong></p>` -/
example : spans "**foo\nbar**".toList = [(0, 2, 9, 11, true)] := by decide +kernel

/-- example 423: `__foo _bar_ baz__` ↦ `<p><strong>foo <em>bar</em> baz</strong></p>` -/
example : spans "__foo _bar_ baz__".toList = [(6, 7, 10, 11, false), (0, 2, 15, 17, true)] := by decide +kernel

/-- example 424: `__foo __bar__ baz__` ↦ `<p><strong>foo <strong>bar</strong> baz</strong></p>` -/
example : spans "__foo __bar__ baz__".toList = [(6, 8, 11, 13, true), (0, 2, 17, 19, true)] := by decide +kernel

/-- example 425: `____foo__ bar__` ↦ `<p><strong><strong>foo</strong> bar</strong></p>` -/
example : spans "____foo__ bar__".toList = [(2, 4, 7, 9, true), (0, 2, 13, 15, true)] := by decide +kernel

/-- example 426: `**foo **bar****` ↦ `<p><strong>foo <strong>bar</strong></strong></p>` -/
example : spans "**foo **bar****".toList = [(6, 8, 11, 13, true), (0, 2, 13, 15, true)] := by decide +kernel

/-- example 427: `**foo *bar* baz**` ↦ `<p><strong>foo <em>bar</em> baz</strong></p>` -/
example : spans "**foo *bar* baz**".toList = [(6, 7, 10, 11, false), (0, 2, 15, 17, true)] := by decide +kernel

/-- example 428: `**foo*bar*baz**` ↦ `<p><strong>foo<em>bar</em>baz</strong></p>` -/
example : spans "**foo*bar*baz**".toList = [(5, 6, 9, 10, false), (0, 2, 13, 15, true)] := by decide +kernel

/-- example 429: `***foo* bar**` ↦ `<p><strong><em>foo</em> bar</strong></p>` -/
example : spans "***foo* bar**".toList = [(2, 3, 6, 7, false), (0, 2, 11, 13, true)] := by decide +kernel

/-- example 430: `**foo *bar***` ↦ `<p><strong>foo <em>bar</em></strong></p>` -/
example : spans "**foo *bar***".toList = [(6, 7, 10, 11, false), (0, 2, 11, 13, true)] := by decide +kernel

/-- example 431: `**foo *bar **baz**⏎bim* bop**` ↦ `<p><strong>foo <em>bar <strong>baz</strong>⏎bim</em> bop</strong></p>` -/
example : spans "**foo *bar **baz**\nbim* bop**".toList = [(11, 13, 16, 18, true), (6, 7, 22, 23, false), (0, 2, 27, 29, true)] := by decide +kernel

/-- example 433: `__ is not an empty emphasis` ↦ `<p>__ is not an empty emphasis</p>` -/
example : spans "__ is not an empty emphasis".toList = [] := by decide +kernel

/-- example 434: `____ is not an empty strong emphasis` ↦ `<p>____ is not an empty strong emphasis</p>` -/
example : spans "____ is not an empty strong emphasis".toList = [] := by decide +kernel

/-- example 435: `foo ***` ↦ `<p>foo ***</p>` -/
example : spans "foo ***".toList = [] := by decide +kernel

/-- example 437: `foo *_*` ↦ `<p>foo <em>_</em></p>` -/
example : spans "foo *_*".toList = [(4, 5, 6, 7, false)] := by decide +kernel

/-- example 438: `foo *****` ↦ `<p>foo *****</p>` -/
example : spans "foo *****".toList = [] := by decide +kernel

/-- example 440: `foo **_**` ↦ `<p>foo <strong>_</strong></p>` -/
example : spans "foo **_**".toList = [(4, 6, 7, 9, true)] := by decide +kernel

/-- example 441: `**foo*` ↦ `<p>*<em>foo</em></p>` -/
example : spans "**foo*".toList = [(1, 2, 5, 6, false)] := by decide +kernel

/-- example 442: `*foo**` ↦ `<p><em>foo</em>*</p>` -/
example : spans "*foo**".toList = [(0, 1, 4, 5, false)] := by decide +kernel

/-- example 443: `***foo**` ↦ `<p>*<strong>foo</strong></p>` -/
example : spans "***foo**".toList = [(1, 3, 6, 8, true)] := by decide +kernel

/-- example 444: `****foo*` ↦ `<p>***<em>foo</em></p>` -/
example : spans "****foo*".toList = [(3, 4, 7, 8, false)] := by decide +kernel

/-- example 445: `**foo***` ↦ `<p><strong>foo</strong>*</p>` -/
example : spans "**foo***".toList = [(0, 2, 5, 7, true)] := by decide +kernel

/-- example 446: `*foo****` ↦ `<p><em>foo</em>***</p>` -/
example : spans "*foo****".toList = [(0, 1, 4, 5, false)] := by decide +kernel

/-- example 447: `foo ___` ↦ `<p>foo ___</p>` -/
example : spans "foo ___".toList = [] := by decide +kernel

/-- example 449: `foo _*_` ↦ `<p>foo <em>*</em></p>` -/
example : spans "foo _*_".toList = [(4, 5, 6, 7, false)] := by decide +kernel

/-- example 450: `foo _____` ↦ `<p>foo _____</p>` -/
example : spans "foo _____".toList = [] := by decide +kernel

/-- example 452: `foo __*__` ↦ `<p>foo <strong>*</strong></p>` -/
example : spans "foo __*__".toList = [(4, 6, 7, 9, true)] := by decide +kernel

/-- example 453: `__foo_` ↦ `<p>_<em>foo</em></p>` -/
example : spans "__foo_".toList = [(1, 2, 5, 6, false)] := by decide +kernel

/-- example 454: `_foo__` ↦ `<p><em>foo</em>_</p>` -/
example : spans "_foo__".toList = [(0, 1, 4, 5, false)] := by decide +kernel

/-- example 455: `___foo__` ↦ `<p>_<strong>foo</strong></p>` -/
example : spans "___foo__".toList = [(1, 3, 6, 8, true)] := by decide +kernel

/-- example 456: `____foo_` ↦ `<p>___<em>foo</em></p>` -/
example : spans "____foo_".toList = [(3, 4, 7, 8, false)] := by decide +kernel

/-- example 457: `__foo___` ↦ `<p><strong>foo</strong>_</p>` -/
example : spans "__foo___".toList = [(0, 2, 5, 7, true)] := by decide +kernel

/-- example 458: `_foo____` ↦ `<p><em>foo</em>___</p>` -/
example : spans "_foo____".toList = [(0, 1, 4, 5, false)] := by decide +kernel

/-- example 459: `**foo**` ↦ `<p><strong>foo</strong></p>` -/
example : spans "**foo**".toList = [(0, 2, 5, 7, true)] := by decide +kernel

/-- example 460: `*_foo_*` ↦ `<p><em><em>foo</em></em></p>` -/
example : spans "*_foo_*".toList = [(1, 2, 5, 6, false), (0, 1, 6, 7, false)] := by decide +kernel

/-- example 461: `__foo__` ↦ `<p><strong>foo</strong></p>` -/
example : spans "__foo__".toList = [(0, 2, 5, 7, true)] := by decide +kernel

/-- example 462: `_*foo*_` ↦ `<p><em><em>foo</em></em></p>` -/
example : spans "_*foo*_".toList = [(1, 2, 5, 6, false), (0, 1, 6, 7, false)] := by decide +kernel

/-- example 463: `****foo****` ↦ `<p><strong><strong>foo</strong></strong></p>` -/
example : spans "****foo****".toList = [(2, 4, 7, 9, true), (0, 2, 9, 11, true)] := by decide +kernel

/-- example 464: `____foo____` ↦ `<p><strong><strong>foo</strong></strong></p>` -/
example : spans "____foo____".toList = [(2, 4, 7, 9, true), (0, 2, 9, 11, true)] := by decide +kernel

/-- example 465: `******foo******` ↦ `<p><strong><strong><strong>foo</strong></strong></strong></p>` -/
example : spans "******foo******".toList = [(4, 6, 9, 11, true), (2, 4, 11, 13, true), (0, 2, 13, 15, true)] := by decide +kernel

/-- example 466: `***foo***` ↦ `<p><em><strong>foo</strong></em></p>` -/
example : spans "***foo***".toList = [(1, 3, 6, 8, true), (0, 1, 8, 9, false)] := by decide +kernel

/-- example 467: `_____foo_____` ↦ `<p><em><strong><strong>foo</strong></strong></em></p>` -/
example : spans "_____foo_____".toList = [(3, 5, 8, 10, true), (1, 3, 10, 12, true), (0, 1, 12, 13, false)] := by decide +kernel

/-- example 468: `*foo _bar* baz_` ↦ `<p><em>foo _bar</em> baz_</p>` -/
example : spans "*foo _bar* baz_".toList = [(0, 1, 9, 10, false)] := by decide +kernel

/-- example 469: `*foo __bar *baz bim__ bam*` ↦ `<p><em>foo <strong>bar *baz bim</strong> bam</em></p>` -/
example : spans "*foo __bar *baz bim__ bam*".toList = [(5, 7, 19, 21, true), (0, 1, 25, 26, false)] := by decide +kernel

/-- example 470: `**foo **bar baz**` ↦ `<p>**foo <strong>bar baz</strong></p>` -/
example : spans "**foo **bar baz**".toList = [(6, 8, 15, 17, true)] := by decide +kernel

/-- example 471: `*foo *bar baz*` ↦ `<p>*foo <em>bar baz</em></p>` -/
example : spans "*foo *bar baz*".toList = [(5, 6, 13, 14, false)] := by decide +kernel

end Mistletoe.Spec.Emphasis
