/-
  The process-global parser state of mistletoe as a state machine (C11).

  `Globals` holds what the modules keep between calls: the two active token lists
  (block_token._token_types, span_token._token_types), core_tokens._code_matches (only its size
  matters here), Paragraph.parse_setext, token._root_node (set / not set) and whether html._charref
  is the stdlib regex.  `step` writes these exactly where the Python writes them, *including on the
  paths on which an exception leaves*:
    - constructing a renderer runs the add_token/remove_token calls recorded from the code
      (Gen/Constructors.lean); `__exit__` resets both lists to the defaults;
    - `Document(d)` sets the root, runs the block phase, the inline phase, clears the root;
    - `Quote.read` turns parse_setext off and restores it in a `finally`;
    - `span_tokenizer.tokenize` swaps html._charref and restores it in a `finally`;
    - `find_core_tokens` first discards stale code matches, then appends this string's matches;
      `InlineCode.find` takes them over.
  A document is abstracted to the *program* of such actions its parse performs; an exception may
  be raised at any point of it.
-/
import Mistletoe.Model.Basic
import Mistletoe.Gen.RenderMaps
import Mistletoe.Gen.Constructors
namespace Mistletoe.State
open Mistletoe Mistletoe.Gen.Constructors

structure Globals where
  blockTypes : List String
  spanTypes : List String
  codeMatches : Nat
  parseSetext : Bool
  rootSet : Bool
  charrefStd : Bool
  deriving Repr, DecidableEq, Inhabited

def defaults : Globals :=
  { blockTypes := Gen.RenderMaps.defaultBlockTokens, spanTypes := Gen.RenderMaps.defaultSpanTokens,
    codeMatches := 0, parseSetext := true, rootSet := false, charrefStd := true }

/-- Python `list.insert(pos, x)` for `pos ≥ 0`. -/
def insertAt (l : List String) (pos : Nat) (x : String) : List String := l.take pos ++ [x] ++ l.drop pos

/-- Python `list.remove(x)`: `none` = ValueError. -/
def removeFirst : List String → String → Option (List String)
  | [], _ => none
  | y :: ys, x => if y = x then some ys else (removeFirst ys x).map (y :: ·)

/-- One recorded add_token / remove_token call; `none` = it raised. -/
def applyTokOp (g : Globals) : TokOp → Option Globals
  | .add true cls pos => some { g with blockTypes := insertAt g.blockTypes pos cls }
  | .add false cls pos => some { g with spanTypes := insertAt g.spanTypes pos cls }
  | .remove true cls => (removeFirst g.blockTypes cls).map (fun l => { g with blockTypes := l })
  | .remove false cls => (removeFirst g.spanTypes cls).map (fun l => { g with spanTypes := l })

/-- A renderer constructor: the calls in order; stops at the first one that raises (the lists keep
    what was done until then). Returns the state and whether it raised. -/
def applyTokOps : List TokOp → Globals → Globals × Bool
  | [], g => (g, false)
  | op :: ops, g =>
    match applyTokOp g op with
    | some g' => applyTokOps ops g'
    | none => (g, true)

/-- `BaseRenderer.__exit__`: reset_tokens() on both modules. -/
def exitRenderer (g : Globals) : Globals :=
  { g with blockTypes := Gen.RenderMaps.defaultBlockTokens, spanTypes := Gen.RenderMaps.defaultSpanTokens }

/-- Where inside one `span_tokenizer.tokenize` call an exception is raised. -/
inductive RaiseAt where
  | beforeScan      -- a span token ahead of CoreTokens raises in find
  | betweenScanAndDrain   -- find_core_tokens itself, or a token between CoreTokens and InlineCode
  | afterDrain      -- a later token's find, or a token constructor
  deriving Repr, DecidableEq

/-- The program of one parse. -/
inductive Prog where
  | raise                                  -- a block token raises in start / read / __init__
  | quote (inner : List Prog)              -- Quote.read around the nested tokenize_block
  | inline (nCode : Nat) (raiseAt : Option RaiseAt)   -- one span_tokenizer.tokenize call
  deriving Repr

mutual
/-- Runs a program; returns the state, whether an exception is propagating, and the code-match
    counts each `InlineCode.find` took over (the only data that flows through a global). -/
def exec : Prog → Globals → Globals × Bool × List Nat
  | .raise, g => (g, true, [])
  | .quote inner, g =>
    -- parse_setext = False; try: nested tokenize_block  finally: parse_setext = True
    let (g', r, out) := execList inner { g with parseSetext := false }
    ({ g' with parseSetext := true }, r, out)
  | .inline n raiseAt, g =>
    -- try: html._charref = markdown regex; find_tokens …  finally: html._charref = stdlib regex
    let g1 := { g with charrefStd := false }
    match raiseAt with
    | some .beforeScan => ({ g1 with charrefStd := true }, true, [])
    | some .betweenScanAndDrain => ({ g1 with codeMatches := n, charrefStd := true }, true, [])
    | some .afterDrain => ({ g1 with codeMatches := 0, charrefStd := true }, true, [n])
    | none => ({ g1 with codeMatches := 0, charrefStd := true }, false, [n])
def execList : List Prog → Globals → Globals × Bool × List Nat
  | [], g => (g, false, [])
  | p :: ps, g =>
    let (g', r, out) := exec p g
    if r then (g', true, out)
    else
      let (g'', r', out') := execList ps g'
      (g'', r', out ++ out')
end

/-- `Document(d)`: `token._root_node = self; … ; token._root_node = None` (no finally). -/
def document (p : List Prog) (g : Globals) : Globals × Bool × List Nat :=
  let (g', r, out) := execList p { g with rootSet := true }
  (if r then g' else { g' with rootSet := false }, r, out)

/-- Operations inside a `with R(...) as r:` block. -/
inductive Op where
  | parse (p : List Prog)                          -- Document(d) (+ render, which touches no global)
  | addToken (blk : Bool) (cls : String) (pos : Nat)   -- a custom token added by hand
  deriving Repr

def runBody : List Op → Globals → Globals × Bool
  | [], g => (g, false)
  | .parse p :: ops, g =>
    let (g', r, _) := document p g
    if r then (g', true) else runBody ops g'
  | .addToken blk cls pos :: ops, g =>
    match applyTokOp g (.add blk cls pos) with
    | some g' => runBody ops g'
    | none => (g, true)

/-- One `with R(...) as r: body`: constructor (may raise before the block is entered, in which
    case `__exit__` does not run), body until an exception, `__exit__` in every case. -/
def withBlock (ctor : List TokOp) (body : List Op) (g : Globals) : Globals :=
  let (g1, r1) := applyTokOps ctor g
  if r1 then g1
  else exitRenderer (runBody body g1).1

def runHistory : List (List TokOp × List Op) → Globals → Globals
  | [], g => g
  | (ctor, body) :: rest, g => runHistory rest (withBlock ctor body g)

/-- The fields whose *value* must be back to the fresh-interpreter value for later results to be
    unaffected (`codeMatches` and `rootSet` may be stale: nothing reads them before rewriting). -/
def Clean (g : Globals) : Prop :=
  g.blockTypes = Gen.RenderMaps.defaultBlockTokens ∧ g.spanTypes = Gen.RenderMaps.defaultSpanTokens ∧
  g.parseSetext = true ∧ g.charrefStd = true

end Mistletoe.State
