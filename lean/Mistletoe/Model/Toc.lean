/-
  Model of mistletoe/contrib/toc_renderer.py: the heading collection done by
  `TocRenderer.render_heading` while rendering, `parse_rendered_heading`, and the list lines that
  `TocRenderer.toc` hands to the block tokenizer.
-/
import Mistletoe.Model.Html
namespace Mistletoe.Toc
open Mistletoe Mistletoe.Html

/-- `re.sub(r'<.+?>', '', s)`: drop every `<…>` with at least one character between the brackets
    and no newline inside (`.` does not match '\n'); non-greedy, leftmost. `findClose` looks for the
    first '>' that ends a candidate starting after the '<' and one mandatory character. -/
def findClose : Str → Option Str
  | [] => none
  | c :: rest => if c = '\n' then none else if c = '>' then some rest else findClose rest

def stripTagsAux : Nat → Str → Str
  | 0, s => s
  | _, [] => []
  | fuel + 1, c :: rest =>
    if c = '<' then
      match rest with
      | [] => [c]
      | d :: rest' =>
        -- `.+?` needs one character `d` (not a newline), then the first '>' after it
        if d = '\n' then c :: stripTagsAux fuel rest
        else match findClose rest' with
          | some after => stripTagsAux fuel after
          | none => c :: stripTagsAux fuel rest
    else c :: stripTagsAux fuel rest

def stripTags (s : Str) : Str := stripTagsAux (s.length + 1) s

structure Cfg where
  depth : Nat := 5
  omitTitle : Bool := true
  /-- `any(cond(content) for cond in filter_conds)` -/
  excluded : Str → Bool := fun _ => false

/-- `TocRenderer.render_heading`'s side effect for one heading. -/
def entry (q : Quotes) (cfg : Cfg) (level : Nat) (kids : List Inline) : List (Nat × Str) :=
  let rendered := flat ([Ev.otag ('h' :: natDigits level) []] ++ renderInlines q kids ++ [Ev.ctag ('h' :: natDigits level)])
  let content := stripTags rendered
  if (cfg.omitTitle && level == 1) || decide (level > cfg.depth) || cfg.excluded content then []
  else [(level, content)]

mutual
/-- `_headings` after rendering: headings in the order `render` reaches them. -/
def collect (q : Quotes) (cfg : Cfg) : Block → List (Nat × Str)
  | .heading l _ k _ => entry q cfg l k
  | .setextHeading l _ k _ => entry q cfg l k
  | .quote kids _ => collectL q cfg kids
  | .list _ _ items _ => collectL q cfg items
  | .listItem _ _ _ _ kids _ => collectL q cfg kids
  | .table _ _ rows _ => collectL q cfg rows
  | _ => []
def collectL (q : Quotes) (cfg : Cfg) : List Block → List (Nat × Str)
  | [] => []
  | b :: bs => collect q cfg b ++ collectL q cfg bs
end

/-- `min((level for level, _ in self._headings), default=1)`. -/
def baseLevel : List (Nat × Str) → Nat
  | [] => 1
  | h :: hs => hs.foldl (fun m x => min m x.1) h.1

/-- `get_indent` + `build_list_item`: indentation is relative to the shallowest collected heading. -/
def tocLine (base : Nat) (h : Nat × Str) : Str :=
  List.replicate (4 * (h.1 - base)) ' ' ++ ['-', ' '] ++ h.2 ++ ['\n']

def tocLines (hs : List (Nat × Str)) : List Str := hs.map (tocLine (baseLevel hs))

end Mistletoe.Toc
