/-
  Model of mistletoe/utils.py `traverse(source, klass=None, depth=None, include_source=False)` over a
  generic rose tree: a node carries an identity `id`, a class tag `cls` and its `children`
  (`children or []`: a leaf and an empty container look the same to `traverse`).
  `klass` is modelled by the predicate "isinstance(node, klass)" on class tags.
-/
import Mistletoe.Model.Basic
namespace Mistletoe.Traverse

inductive RTree where
  | node (id : Nat) (cls : Nat) (kids : List RTree)
  deriving Repr, Inhabited

def RTree.id : RTree → Nat
  | .node i _ _ => i
def RTree.cls : RTree → Nat
  | .node _ c _ => c
def RTree.kids : RTree → List RTree
  | .node _ _ k => k

/-- `TraverseResult(node, parent, depth)`; `parent = none` only for the source itself. -/
structure Result where
  node : RTree
  parent : Option RTree
  depth : Nat
  deriving Repr, Inhabited

/-- `[(child, c) for c in child.children or []]`. -/
def childPairs (p : RTree) : List (RTree × RTree) := p.kids.map (fun c => (p, c))

/-- One round of the `while` loop: the results yielded for the current level … -/
def emit (klass : Nat → Bool) (d : Nat) (level : List (RTree × RTree)) : List Result :=
  (level.filter (fun pc => klass pc.2.cls)).map (fun pc => { node := pc.2, parent := some pc.1, depth := d })

/-- … and the next level (`new_children`). -/
def nextLevel (level : List (RTree × RTree)) : List (RTree × RTree) :=
  level.flatMap (fun pc => childPairs pc.2)

/-- `depth is None or current_depth < depth`. -/
def withinLimit : Option Nat → Nat → Bool
  | none, _ => true
  | some d, cur => decide (cur < d)

/-- The `while next_children and (depth is None or current_depth < depth)` loop; `cur` is
    `current_depth` before the increment.  `fuel` bounds the number of rounds. -/
def loop (klass : Nat → Bool) (limit : Option Nat) : Nat → Nat → List (RTree × RTree) → List Result
  | 0, _, _ => []
  | fuel + 1, cur, level =>
    if level.isEmpty then []
    else if withinLimit limit cur then
      emit klass (cur + 1) level ++ loop klass limit fuel (cur + 1) (nextLevel level)
    else []

mutual
def height : RTree → Nat
  | .node _ _ kids => heightL kids + 1
def heightL : List RTree → Nat
  | [] => 0
  | t :: ts => max (height t) (heightL ts)
end

/-- `utils.traverse`. -/
def traverse (source : RTree) (klass : Nat → Bool) (limit : Option Nat) (includeSource : Bool) : List Result :=
  (if includeSource && klass source.cls then [{ node := source, parent := none, depth := 0 }] else [])
  ++ loop klass limit (height source) 0 (childPairs source)

mutual
/-- Reference: every proper descendant of `p` with its true parent and true depth, in pre-order;
    `d` is the depth of `p`'s children. -/
def descendants (d : Nat) : RTree → List Result
  | .node i c kids => descendantsL d (.node i c kids) kids
/-- descendants contributed by the children list `kids` of parent `p`. -/
def descendantsL (d : Nat) (p : RTree) : List RTree → List Result
  | [] => []
  | k :: ks => { node := k, parent := some p, depth := d } :: (descendants (d + 1) k ++ descendantsL d p ks)
end

end Mistletoe.Traverse
