/-
  Model of mistletoe/html_renderer.py (HtmlRenderer) and of the HTML-based contrib renderers that
  extend it (TocRenderer, GithubWikiRenderer, MathJaxRenderer; PygmentsRenderer outside code blocks).

  The renderer is written as a function from the token tree to a list of *events* (open tag with
  attributes, close tag, void tag, escaped text, verbatim raw HTML); the output string is
  `flat events`, which spells each event exactly as the Python templates do.  The correspondence
  unit `render.html` compares `flat (renderDoc …)` with the real renderer's output byte for byte.

  `_suppress_ptag_stack` is modelled by passing its top element down the recursion (`s`): the
  Python pushes before and pops after rendering the children of a quote / list and reads only
  the top.

  `supported*` says on which trees the Python raises (KeyError for a token class that has no entry
  in this renderer's render_map, AttributeError/UnboundLocalError where a method is applied
  directly to a child of the wrong kind).  The driver reports `err` exactly when `supported` is false.
-/
import Mistletoe.Model.Ast
import Mistletoe.Model.Escape
import Mistletoe.Gen.RenderMaps
namespace Mistletoe.Html
open Mistletoe Mistletoe.Escape

inductive Flavor where
  | html | toc | githubWiki | mathjax | pygments
  deriving Repr, DecidableEq, Inhabited

structure Opts where
  dq : Bool := false             -- html_escape_double_quotes
  sq : Bool := false             -- html_escape_single_quotes
  processHtml : Bool := true     -- process_html_tokens
  flavor : Flavor := .html
  deriving Repr, DecidableEq, Inhabited

/-- The part of the options the rendering functions read. -/
structure Quotes where
  dq : Bool
  sq : Bool
  deriving Repr, DecidableEq, Inhabited

def Opts.q (o : Opts) : Quotes := ⟨o.dq, o.sq⟩

/-- Output events. -/
inductive Ev where
  | otag (tag : Str) (attrs : List (Str × Str))     -- `<tag k="v" …>`
  | ctag (tag : Str)                                  -- `</tag>`
  | vtag (tag : Str) (attrs : List (Str × Str))     -- `<tag k="v" … />`
  | text (s : Str)                                    -- text, already escaped
  | raw (s : Str)                                     -- verbatim content of HtmlBlock / HtmlSpan
  deriving Repr, DecidableEq, Inhabited

def flatAttrs : List (Str × Str) → Str
  | [] => []
  | (k, v) :: rest => ' ' :: k ++ ['=', '"'] ++ v ++ ['"'] ++ flatAttrs rest

def flatEv : Ev → Str
  | .otag t as => '<' :: t ++ flatAttrs as ++ ['>']
  | .ctag t => '<' :: '/' :: t ++ ['>']
  | .vtag t as => '<' :: t ++ flatAttrs as ++ [' ', '/', '>']
  | .text s => s
  | .raw s => s

def flat (evs : List Ev) : Str := evs.flatMap flatEv

def decDigits : List Char := "0123456789".toList
def decDigit (n : Nat) : Char := decDigits.getD (n % 10) '0'

/-- Decimal digits of a natural number (`str(int)` for a non-negative int); `fuel` ≥ number of digits. -/
def natDigitsAux : Nat → Nat → Str → Str
  | 0, n, acc => decDigit n :: acc
  | fuel + 1, n, acc => if n < 10 then decDigit n :: acc else natDigitsAux fuel (n / 10) (decDigit n :: acc)
def natDigits (n : Nat) : Str := natDigitsAux n n []

def nl : Ev := .text ['\n']

mutual
/-- `HtmlRenderer.render_to_plain`: concatenated `html.escape(content)` of the leaves. -/
def toPlain : Inline → Str
  | .rawText c => htmlEscape c
  | .strong _ k => toPlains k
  | .emphasis _ k => toPlains k
  | .inlineCode _ _ c => htmlEscape c
  | .strikethrough k => toPlains k
  | .image _ _ _ _ _ k => toPlains k
  | .link _ _ _ _ _ k => toPlains k
  | .autoLink t _ => htmlEscape t
  | .escapeSequence c => htmlEscape c
  | .lineBreak c _ => htmlEscape c
  | .htmlSpan c => htmlEscape c
  | .math c => htmlEscape c
  | .githubWiki _ k => toPlains k
  | .xwikiMacroStart c => htmlEscape c
  | .xwikiMacroEnd c => htmlEscape c
  | .linkRefDef .. => []                -- no `content`, no `children`: unsupported
def toPlains : List Inline → Str
  | [] => []
  | i :: is => toPlain i ++ toPlains is
end

def titleAttr (title : Str) : List (Str × Str) :=
  if title.isEmpty then [] else [("title".toList, htmlEscape title)]

/-- Python `str.rstrip('$')`. -/
def rstripDollar : Str → Str
  | [] => []
  | c :: rest =>
    match rstripDollar rest with
    | [] => if c = '$' then [] else [c]
    | r => c :: r

/-- Python `str.strip('$')`. -/
def stripDollar (s : Str) : Str := rstripDollar (s.dropWhile (· == '$'))

mutual
def renderInline (o : Quotes) : Inline → List Ev
  | .rawText c => [.text (escapeHtmlText o.dq o.sq c)]
  | .strong _ k => [.otag "strong".toList []] ++ renderInlines o k ++ [.ctag "strong".toList]
  | .emphasis _ k => [.otag "em".toList []] ++ renderInlines o k ++ [.ctag "em".toList]
  | .inlineCode _ _ c => [.otag "code".toList [], .text (escapeHtmlText o.dq o.sq c), .ctag "code".toList]
  | .strikethrough k => [.otag "del".toList []] ++ renderInlines o k ++ [.ctag "del".toList]
  | .image src title _ _ _ k =>
    [.vtag "img".toList ([("src".toList, htmlEscapeUrl src), ("alt".toList, toPlains k)] ++ titleAttr title)]
  | .link target title _ _ _ k =>
    [.otag "a".toList ([("href".toList, htmlEscapeUrl target)] ++ titleAttr title)] ++ renderInlines o k
      ++ [.ctag "a".toList]
  | .autoLink target mailto =>
    [.otag "a".toList [("href".toList, (if mailto then "mailto:".toList else []) ++ htmlEscapeUrl target)],
     .text (escapeHtmlText o.dq o.sq target), .ctag "a".toList]
  | .escapeSequence c => [.text (escapeHtmlText o.dq o.sq c)]
  | .lineBreak _ soft => if soft then [nl] else [.vtag "br".toList [], nl]
  | .htmlSpan c => [.raw c]
  | .math c =>
    -- MathJaxRenderer.render_math (render_raw_text resolves to HtmlRenderer's: escape_html_text)
    if c.take 2 == ['$', '$'] then [.text (escapeHtmlText o.dq o.sq c)]
    else [.text (['\\', '('] ++ stripDollar (escapeHtmlText o.dq o.sq c) ++ ['\\', ')'])]
  | .githubWiki target k =>
    [.otag "a".toList [("href".toList, htmlEscapeUrl target)]] ++ renderInlines o k ++ [.ctag "a".toList]
  | .xwikiMacroStart _ => []
  | .xwikiMacroEnd _ => []
  | .linkRefDef .. => []
def renderInlines (o : Quotes) : List Inline → List Ev
  | [] => []
  | i :: is => renderInline o i ++ renderInlines o is
end

def isParagraph : Block → Bool
  | .paragraph .. => true
  | _ => false

def alignName : Option Nat → Str
  | none => "left".toList
  | some 0 => "center".toList
  | some _ => "right".toList

mutual
/-- `HtmlRenderer.render` on a block token; `s` = `_suppress_ptag_stack[-1]`. -/
def renderBlock (o : Quotes) (s : Bool) : Block → List Ev
  | .paragraph k _ =>
    if s then renderInlines o k else [.otag "p".toList []] ++ renderInlines o k ++ [.ctag "p".toList]
  | .heading level _ k _ =>
    [.otag ('h' :: natDigits level) []] ++ renderInlines o k ++ [.ctag ('h' :: natDigits level)]
  | .setextHeading level _ k _ =>
    [.otag ('h' :: natDigits level) []] ++ renderInlines o k ++ [.ctag ('h' :: natDigits level)]
  | .quote kids _ =>
    -- '\n'.join(['<blockquote>'] + children + ['</blockquote>'])
    [.otag "blockquote".toList [], nl] ++ renderAfterEach o false kids ++ [.ctag "blockquote".toList]
  | .blockCode c _ =>
    [.otag "pre".toList [], .otag "code".toList [], .text (escapeHtmlText o.dq o.sq c), .ctag "code".toList,
     .ctag "pre".toList]
  | .codeFence lang _ _ _ c _ =>
    [.otag "pre".toList [],
     .otag "code".toList (if lang.isEmpty then [] else [("class".toList, "language-".toList ++ htmlEscape lang)]),
     .text (escapeHtmlText o.dq o.sq c), .ctag "code".toList, .ctag "pre".toList]
  | .list loose start items _ =>
    let tag := match start with | some _ => "ol".toList | none => "ul".toList
    let attrs := match start with
      | some n => if n != 1 then [("start".toList, natDigits n)] else []
      | none => []
    [.otag tag attrs, nl] ++ renderSep o (!loose) items ++ [nl, .ctag tag]
  | .listItem _ _ _ _ kids _ =>
    match kids with
    | [] => [.otag "li".toList [], .ctag "li".toList]
    | first :: _ =>
      let lead := if s && isParagraph first then [] else [nl]
      let trail := if s && (match kids.getLast? with | some l => isParagraph l | none => false) then [] else [nl]
      [.otag "li".toList []] ++ lead ++ renderSep o s kids ++ trail ++ [.ctag "li".toList]
  | .table _ header rows _ =>
    [.otag "table".toList [], nl]
      ++ (match header with
          | [] => []
          | h :: _ => [.otag "thead".toList [], nl] ++ renderRow o s true h ++ [.ctag "thead".toList, nl])
      ++ [.otag "tbody".toList [], nl] ++ renderCat o s rows ++ [.ctag "tbody".toList, nl]
      ++ [.ctag "table".toList]
  | .tableRow _ cells _ => [.otag "tr".toList [], nl] ++ renderCells o false cells ++ [.ctag "tr".toList, nl]
  | .tableCell a k _ =>
    [.otag "td".toList [("align".toList, alignName a)]] ++ renderInlines o k ++ [.ctag "td".toList, nl]
  | .thematicBreak _ _ => [.vtag "hr".toList []]
  | .htmlBlock c _ => [.raw c]
  | .blankLine _ => []
  | .linkRefDefBlock _ _ => []
/-- `render_table_row(token, is_header)`. -/
def renderRow (o : Quotes) (s : Bool) (isHeader : Bool) : Block → List Ev
  | .tableRow _ cells _ => [.otag "tr".toList [], nl] ++ renderCells o isHeader cells ++ [.ctag "tr".toList, nl]
  | _ => []
def renderCells (o : Quotes) (isHeader : Bool) : List Block → List Ev
  | [] => []
  | c :: cs => renderCell o isHeader c ++ renderCells o isHeader cs
/-- `render_table_cell(token, in_header)`. -/
def renderCell (o : Quotes) (inHeader : Bool) : Block → List Ev
  | .tableCell a k _ =>
    let tag := if inHeader then "th".toList else "td".toList
    [.otag tag [("align".toList, alignName a)]] ++ renderInlines o k ++ [.ctag tag, nl]
  | _ => []
/-- `'\n'.join(render(child) …)`. -/
def renderSep (o : Quotes) (s : Bool) : List Block → List Ev
  | [] => []
  | [b] => renderBlock o s b
  | b :: rest => renderBlock o s b ++ [nl] ++ renderSep o s rest
/-- children each followed by `'\n'` (the quote template). -/
def renderAfterEach (o : Quotes) (s : Bool) : List Block → List Ev
  | [] => []
  | b :: rest => renderBlock o s b ++ [nl] ++ renderAfterEach o s rest
/-- `''.join(map(self.render, children))`. -/
def renderCat (o : Quotes) (s : Bool) : List Block → List Ev
  | [] => []
  | b :: rest => renderBlock o s b ++ renderCat o s rest
end

/-- MathJaxRenderer.mathjax_src is appended by the harness from Gen (C18); here: the document. -/
def renderDoc (o : Quotes) (d : Doc) : List Ev :=
  match d.kids with
  | [] => []
  | kids =>
    let inner := renderSep o false kids
    if (flat inner).isEmpty then [] else inner ++ [nl]

/-- Output string of `HtmlRenderer(**opts).render(doc)`. -/
def render (o : Opts) (d : Doc) : Str := flat (renderDoc o.q d)

/-- What the flavour appends to the document: `MathJaxRenderer.render_document` adds the script line. -/
def suffix : Flavor → Str
  | .mathjax => Gen.RenderMaps.mathjaxSrc
  | _ => []

/-- Output string of `R(**opts).render(doc)` for R in the HTML family. -/
def renderFlavored (o : Opts) (d : Doc) : Str := render o d ++ suffix o.flavor

/-! ### On which trees the Python raises -/

mutual
def supportedInline (o : Opts) : Inline → Bool
  | .rawText _ => true
  | .strong _ k => supportedInlines o k
  | .emphasis _ k => supportedInlines o k
  | .inlineCode .. => true
  | .strikethrough k => supportedInlines o k
  | .image _ _ _ _ _ k => plainOk k            -- only render_to_plain walks an image's children
  | .link _ _ _ _ _ k => supportedInlines o k
  | .autoLink .. => true
  | .escapeSequence _ => true
  | .lineBreak .. => true
  | .htmlSpan _ => o.processHtml
  | .math _ => o.flavor == .mathjax
  | .githubWiki _ k => o.flavor == .githubWiki && supportedInlines o k
  | .xwikiMacroStart _ => false
  | .xwikiMacroEnd _ => false
  | .linkRefDef .. => false
def supportedInlines (o : Opts) : List Inline → Bool
  | [] => true
  | i :: is => supportedInline o i && supportedInlines o is
def plainOk : List Inline → Bool
  | [] => true
  | i :: is => plainOk1 i && plainOk is
def plainOk1 : Inline → Bool
  | .linkRefDef .. => false
  | .strong _ k => plainOk k
  | .emphasis _ k => plainOk k
  | .strikethrough k => plainOk k
  | .image _ _ _ _ _ k => plainOk k
  | .link _ _ _ _ _ k => plainOk k
  | .githubWiki _ k => plainOk k
  | _ => true
end

def alignOk : Option Nat → Bool
  | none => true
  | some 0 => true
  | some 1 => true
  | some _ => false

mutual
def supportedBlock (o : Opts) : Block → Bool
  | .paragraph k _ => supportedInlines o k
  | .heading _ _ k _ => supportedInlines o k
  | .setextHeading _ _ k _ => supportedInlines o k
  | .quote kids _ => supportedBlocks o kids
  | .blockCode .. => o.flavor != .pygments
  | .codeFence .. => o.flavor != .pygments
  | .list _ _ items _ => supportedBlocks o items
  | .listItem _ _ _ _ kids _ => supportedBlocks o kids
  | .table _ header rows _ => supportedRows o header && supportedBlocks o rows
  | .tableRow _ cells _ => supportedCells o cells
  | .tableCell a k _ => alignOk a && supportedInlines o k
  | .thematicBreak .. => true
  | .htmlBlock .. => o.processHtml
  | .blankLine _ => false
  | .linkRefDefBlock .. => false
def supportedBlocks (o : Opts) : List Block → Bool
  | [] => true
  | b :: bs => supportedBlock o b && supportedBlocks o bs
def supportedRows (o : Opts) : List Block → Bool
  | [] => true
  | .tableRow _ cells _ :: rest => supportedCells o cells && supportedRows o rest
  | _ :: _ => false
def supportedCells (o : Opts) : List Block → Bool
  | [] => true
  | .tableCell a k _ :: rest => alignOk a && supportedInlines o k && supportedCells o rest
  | _ :: _ => false
end

def supported (o : Opts) (d : Doc) : Bool := supportedBlocks o d.kids

end Mistletoe.Html
