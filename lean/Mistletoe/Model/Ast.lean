/-
  The token tree (AST) of mistletoe as a typed inductive.  One constructor per token class, carrying
  every attribute the renderers and the Markdown round trip read.  Leaf-shaped tokens whose
  constructor fixes their children (InlineCode, AutoLink, EscapeSequence: one RawText; BlockCode,
  CodeFence, HtmlBlock: one RawText) carry that child's content directly.

  Child lists are untyped in the Python objects; here `List Block` may hold any block constructor
  (a list's children are whatever was put there), exactly what the renderers' dynamic dispatch sees.
  The kind discipline (C12) is checked by the exporter on the real object graph, not assumed here.
-/
import Mistletoe.Model.Basic
namespace Mistletoe

/-- `dest_type` of Link / Image / LinkReferenceDefinition. -/
inductive DestType where
  | uri | angleUri | full | collapsed | shortcut | none
  deriving Repr, DecidableEq, Inhabited

inductive Inline where
  | rawText (content : Str)
  | strong (delimiter : Str) (kids : List Inline)
  | emphasis (delimiter : Str) (kids : List Inline)
  | inlineCode (delimiter padding content : Str)
  | strikethrough (kids : List Inline)
  | image (src title : Str) (destType : DestType) (label titleDelim : Option Str) (kids : List Inline)
  | link (target title : Str) (destType : DestType) (label titleDelim : Option Str) (kids : List Inline)
  | autoLink (target : Str) (mailto : Bool)
  | escapeSequence (content : Str)
  | lineBreak (content : Str) (soft : Bool)
  | htmlSpan (content : Str)
  | math (content : Str)                        -- latex_token.Math
  | githubWiki (target : Str) (kids : List Inline)
  | xwikiMacroStart (content : Str)
  | xwikiMacroEnd (content : Str)
  | linkRefDef (label dest title : Str) (destType : DestType) (titleDelim : Option Str)
  deriving Repr, Inhabited

inductive Block where
  | paragraph (kids : List Inline) (ln : Nat)
  | heading (level : Nat) (closing : Str) (kids : List Inline) (ln : Nat)
  | setextHeading (level : Nat) (underline : Str) (kids : List Inline) (ln : Nat)
  | quote (kids : List Block) (ln : Nat)
  | blockCode (content : Str) (ln : Nat)
  | codeFence (language : Str) (indentation : Nat) (delimiter infoString content : Str) (ln : Nat)
  | list (loose : Bool) (start : Option Nat) (items : List Block) (ln : Nat)
  | listItem (leader : Str) (indentation prepend : Nat) (loose : Bool) (kids : List Block) (ln : Nat)
  /-- `header` holds zero or one row (Python: attribute present or absent). -/
  | table (columnAlign : List (Option Nat)) (header : List Block) (rows : List Block) (ln : Nat)
  | tableRow (rowAlign : List (Option Nat)) (cells : List Block) (ln : Nat)
  | tableCell (align : Option Nat) (kids : List Inline) (ln : Nat)
  | thematicBreak (line : Str) (ln : Nat)
  | htmlBlock (content : Str) (ln : Nat)
  | blankLine (ln : Nat)
  | linkRefDefBlock (defs : List Inline) (ln : Nat)
  deriving Repr, Inhabited

/-- `Document`: children and the link reference definitions `label ↦ (dest, title)` in insertion
    order. -/
structure Doc where
  kids : List Block
  footnotes : List (Str × Str × Str)
  deriving Repr, Inhabited

end Mistletoe
