/-
  Model of mistletoe/core_tokens.py: `find_core_tokens`, `find_link_image`, `process_emphasis`,
  `match_link_image` and its helpers, `Delimiter`, the flanking tests.  Written function for
  function after the Python; every indexing that could raise is an explicit `err`.

  The delimiter stack is a `List Delim` updated functionally where the Python mutates objects in
  place; positions are the list indexes the Python uses.  `stackBottom`/bounds: `none` is Python's
  `None` (search down to index 0 inclusive), `some b` excludes index `b`.
-/
import Mistletoe.Model.InlineScan
import Mistletoe.Model.Footnotes
import Mistletoe.Gen.Tables
namespace Mistletoe.Core
open Mistletoe Mistletoe.Py Mistletoe.Scan Mistletoe.InlineScan

def coreWs (c : Char) : Bool := inRanges Gen.Tables.coreWhitespace c
def uniWs (c : Char) : Bool := inRanges Gen.Tables.unicodeWhitespace c
def punct (c : Char) : Bool := inRanges Gen.Tables.punctuation c

/-- `preceded_by(start, string, charset)` -/
def precededBy (start : Nat) (s : Str) (p : Char → Bool) : Bool :=
  p (if start > 0 then (s[start - 1]?).getD ' ' else ' ')

/-- `succeeded_by(end, string, charset)` -/
def succeededBy (stop : Nat) (s : Str) (p : Char → Bool) : Bool :=
  p ((s[stop]?).getD ' ')

def isLeftDelimiter (start stop : Nat) (s : Str) : Bool :=
  !succeededBy stop s uniWs && (!succeededBy stop s punct || precededBy start s punct || precededBy start s uniWs)

def isRightDelimiter (start stop : Nat) (s : Str) : Bool :=
  !precededBy start s uniWs && (!precededBy start s punct || succeededBy stop s uniWs || succeededBy stop s punct)

def isOpener (start stop : Nat) (s : Str) : Bool :=
  if s[start]? == some '*' then isLeftDelimiter start stop s
  else
    let isRight := isRightDelimiter start stop s
    isLeftDelimiter start stop s && (!isRight || (isRight && precededBy start s punct))

def isCloser (start stop : Nat) (s : Str) : Bool :=
  if s[start]? == some '*' then isRightDelimiter start stop s
  else
    let isLeft := isLeftDelimiter start stop s
    isRightDelimiter start stop s && (!isLeft || (isLeft && succeededBy stop s punct))

/-- `Delimiter` -/
structure Delim where
  type : Str
  number : Nat
  runLength : Nat
  active : Bool
  start : Nat
  stop : Nat
  emph : Bool        -- `hasattr(self, 'open')`: type starts with '*' or '_'
  opens : Bool
  closes : Bool
  deriving Repr, DecidableEq, Inhabited

/-- `Delimiter(start, end, string)` -/
def mkDelim (start stop : Nat) (s : Str) : Delim :=
  let t := slice s start stop
  let emph := t.head? == some '*' || t.head? == some '_'
  { type := t, number := stop - start, runLength := stop - start, active := true, start := start, stop := stop,
    emph := emph, opens := emph && isOpener start stop s, closes := emph && isCloser start stop s }

/-- `Delimiter.closed_by`; `err .index` for an empty `type` -/
def closedBy (d other : Delim) : Res Bool :=
  match d.type.head?, other.type.head? with
  | some a, some b =>
    if a != b then .ok false
    else if (d.opens && d.closes) || (other.opens && other.closes) then
      .ok ((d.runLength + other.runLength) % 3 != 0 || (d.runLength % 3 == 0 && other.runLength % 3 == 0))
    else .ok true
  | _, _ => .err .index

inductive Kind where
  | strong | emphasis | link | image
  deriving Repr, DecidableEq, Inhabited

/-- `MatchObj` of a core token -/
structure CoreM where
  start : Nat
  stop : Nat
  kind : Kind
  ts : Nat              -- fields[0]: text span
  te : Nat
  dest : Str            -- fields[1][2]
  title : Str           -- fields[2][2]
  delimiter : Char := ' '
  destType : Str := []
  label : Option Str := none
  titleDelim : Option Char := none
  deriving Repr, DecidableEq, Inhabited

/-! ### link pieces -/

def isControl (c : Char) : Bool := c.toNat < 32 || c.toNat == 127

/-- `follows(string, index, char)` -/
def follows (s : Str) (index : Nat) (ch : Char) : Bool := s[index + 1]? == some ch

/-- `shift_whitespace` -/
def shiftWhitespace (s : Str) (index : Nat) : Nat :=
  index + ((s.drop index).takeWhile coreWs).length

/-- angle-bracket destination: loop from `offset + 1` -/
def destAngle (s : Str) (offset : Nat) : Str → Nat → Bool → Option (Nat × Nat × Str)
  | [], _, _ => none
  | c :: rest, i, escaped =>
    if c = '\\' && !escaped then destAngle s offset rest (i + 1) true
    else if c = '\n' || (c = '<' && !escaped) then none
    else if c = '>' && !escaped then some (offset, i + 1, slice s (offset + 1) i)
    else destAngle s offset rest (i + 1) false

/-- plain destination: `count` starts at 1 (the opening parenthesis of the inline link) -/
def destPlain (s : Str) (offset : Nat) : Str → Nat → Bool → Nat → Option (Nat × Nat × Str)
  | [], _, _, _ => none
  | c :: rest, i, escaped, count =>
    if c = '\\' && !escaped then destPlain s offset rest (i + 1) true count
    else if coreWs c then some (offset, i, slice s offset i)
    else if !escaped then
      let count' := if c = '(' then count + 1 else if c = ')' then count - 1 else count
      if count' = 0 then some (offset, i, slice s offset i) else destPlain s offset rest (i + 1) false count'
    else if isControl c then none
    else (if count = 0 then some (offset, i, slice s offset i) else destPlain s offset rest (i + 1) false count)

/-- `match_link_dest(string, offset)` -/
def matchLinkDest (s : Str) (offset0 : Nat) : Option (Nat × Nat × Str) :=
  let offset := shiftWhitespace s (offset0 + 1)
  if offset == s.length then none else
  match s[offset]? with
  | none => none
  | some c =>
    if c = '<' then destAngle s offset (s.drop (offset + 1)) (offset + 1) false
    else destPlain s offset (s.drop offset) offset false 1

def titleGo (s : Str) (offset : Nat) (closing : Char) : Str → Nat → Bool → Option (Nat × Nat × Str)
  | [], _, _ => none
  | c :: rest, i, escaped =>
    if c = '\\' && !escaped then titleGo s offset closing rest (i + 1) true
    else if c = closing && !escaped then some (offset, i + 1, slice s (offset + 1) i)
    else titleGo s offset closing rest (i + 1) false

/-- `match_link_title(string, offset)` -/
def matchLinkTitle (s : Str) (offset0 : Nat) : Option (Nat × Nat × Str) :=
  let offset := shiftWhitespace s offset0
  if offset == s.length then none else
  match s[offset]? with
  | none => none
  | some c =>
    if c = ')' then some (offset, offset, []) else
    let closing : Option Char := if c = '"' then some '"' else if c = '\'' then some '\'' else if c = '(' then some ')' else none
    match closing with
    | none => none
    | some cl => titleGo s offset cl (s.drop (offset + 1)) (offset + 1) false

/-- loop of `match_link_label`; `start = none` is -1.  Returns ((start, end, label), ref) or none. -/
def labelGo (s : Str) (fn : Footnotes.Table) : Str → Nat → Option Nat → Bool → Option ((Nat × Str) × (Str × Str))
  | [], _, _, _ => none
  | c :: rest, i, start, escaped =>
    if c = '\\' && !escaped then labelGo s fn rest (i + 1) start true
    else if c = '[' && !escaped then
      (match start with
       | none => labelGo s fn rest (i + 1) (some i) false
       | some _ => none)
    else if c = ']' && !escaped then
      -- `label = string[start + 1:end]`; with start = -1 this is `string[0:end]`
      let label := slice s (match start with | none => 0 | some st => st + 1) i
      if !isBlank label then
        match Footnotes.lookup fn (Footnotes.normalizeLabel label) with
        | some ref => some ((i + 1, label), ref)
        | none => none
      else none
    else labelGo s fn rest (i + 1) start false

/-- `match_link_label(string, offset, root)` -/
def matchLinkLabel (s : Str) (offset : Nat) (fn : Footnotes.Table) : Option ((Nat × Str) × (Str × Str)) :=
  labelGo s fn (s.drop offset) offset none false

/-- `get_link_label(text, root)` -/
def getLinkLabel (text : Str) (fn : Footnotes.Table) : Option (Str × Str) :=
  let rec bad : Str → Bool → Bool
    | [], _ => false
    | c :: rest, escaped =>
      if c = '\\' && !escaped then bad rest true
      else if (c = '[' || c = ']') && !escaped then true
      else bad rest false
  if bad text false then none
  else if !isBlank text then Footnotes.lookup fn (Footnotes.normalizeLabel text) else none

/-- `match_link_image(string, offset, delimiter, root)` -/
def matchLinkImage (s : Str) (offset : Nat) (d : Delim) (fn : Footnotes.Table) : Option CoreM :=
  let image := d.type == ['!', '[']
  let kind : Kind := if image then .image else .link
  let start := d.start
  let ts := start + d.number
  let te := offset
  let inline : Option CoreM :=
    if follows s offset '(' then
      match matchLinkDest s (offset + 1) with
      | none => none
      | some (ds, de, dest) =>
        match matchLinkTitle s de with
        | none => none
        | some (tls, tle, title) =>
          let paren := shiftWhitespace s tle
          if s[paren]? == some ')' then
            some { start := start, stop := paren + 1, kind := kind, ts := ts, te := te, dest := dest, title := title,
                   destType := if ds < de && s[ds]? == some '<' then "angle_uri".toList else "uri".toList,
                   titleDelim := if tls < tle then s[tls]? else none }
          else none
    else none
  match inline with
  | some m => some m
  | none =>
    let text := slice s ts te
    if follows s offset '[' then
      match matchLinkLabel s (offset + 1) fn with
      | some ((stop, label), (dest, title)) =>
        some { start := start, stop := stop, kind := kind, ts := ts, te := te, dest := dest, title := title,
               destType := "full".toList, label := some label }
      | none =>
        match getLinkLabel text fn with
        | some (dest, title) =>
          if follows s (offset + 1) ']' then
            some { start := start, stop := offset + 3, kind := kind, ts := ts, te := te, dest := dest, title := title,
                   destType := "collapsed".toList }
          else none
        | none => none
    else
      match getLinkLabel text fn with
      | some (dest, title) =>
        some { start := start, stop := offset + 1, kind := kind, ts := ts, te := te, dest := dest, title := title,
               destType := "shortcut".toList }
      | none => none

/-! ### process_emphasis -/

/-- `next_closer(curr_pos, delimiters)`: first index ≥ `from_` of a delimiter that can close -/
def nextCloser (from_ : Nat) (ds : List Delim) : Option Nat :=
  let rec go : List Delim → Nat → Option Nat
    | [], _ => none
    | d :: rest, i => if d.emph && d.closes then some i else go rest (i + 1)
  go (ds.drop from_) from_

/-- `matching_opener(curr_pos, delimiters, bottom)`: search from `curr_pos - 1` down to just above
    `bottom` -/
def matchingOpener (curr : Nat) (ds : List Delim) (bottom : Option Nat) : Res (Option Nat) :=
  if curr = 0 then .ok none else
  match ds[curr]? with
  | none => .err .index
  | some closer =>
    let lo := match bottom with | none => 0 | some b => b + 1
    -- indexes curr-1, curr-2, …, lo
    let rec go : Nat → Nat → Res (Option Nat)
      | 0, _ => .ok none
      | n + 1, idx =>
        if idx < lo then .ok none else
        match ds[idx]? with
        | none => .ok none
        | some d =>
          if d.emph && d.opens then
            match closedBy d closer with
            | .err e => .err e
            | .ok true => .ok (some idx)
            | .ok false => if idx = 0 then .ok none else go n (idx - 1)
          else if idx = 0 then .ok none else go n (idx - 1)
    go curr (curr - 1)

/-- key of `bottoms`: (closer.type[0], closer.open, closer.run_length % 3) -/
abbrev BKey := Char × Bool × Nat

def bottomsGet (bs : List (BKey × Option Nat)) (k : BKey) (dflt : Option Nat) : Option Nat :=
  match bs.find? (fun e => e.1 == k) with
  | some e => e.2
  | none => dflt

def bottomsSet (bs : List (BKey × Option Nat)) (k : BKey) (v : Option Nat) : List (BKey × Option Nat) :=
  if bs.any (fun e => e.1 == k) then bs.map (fun e => if e.1 == k then (k, v) else e) else bs ++ [(k, v)]

/-- `Delimiter.remove(n, left)`: `none` = returned False (the caller deletes the delimiter) -/
def delimRemove (d : Delim) (n : Nat) (left : Bool) : Option Delim :=
  if d.number = n then none
  else if left then
    let st := d.start + n
    some { d with start := st, number := d.stop - st, type := d.type.drop n }
  else
    let en := d.stop - n
    some { d with stop := en, number := en - d.start, type := d.type.drop n }

structure EState where
  ds : List Delim
  ms : List CoreM           -- `matches`, newest first
  bottoms : List (BKey × Option Nat)

/-- the `while curr_pos is not None` loop -/
def emphLoop (s : Str) (stackBottom : Option Nat) : Nat → EState → Option Nat → Res EState
  | 0, _, _ => .err .fuel
  | _, st, none => .ok st
  | fuel + 1, st, some curr =>
    match st.ds[curr]? with
    | none => .err .index
    | some closer =>
      match closer.type.head? with
      | none => .err .index
      | some ch =>
        let key : BKey := (ch, closer.opens, closer.runLength % 3)
        let bottom := bottomsGet st.bottoms key stackBottom
        match matchingOpener curr st.ds bottom with
        | .err e => .err e
        | .ok (some openPos) =>
          (match st.ds[openPos]? with
           | none => .err .index
           | some opener =>
             let n := if closer.number ≥ 2 && opener.number ≥ 2 then 2 else 1
             let start := opener.stop - n
             let stop := closer.start + n
             match s[start]? with
             | none => .err .index
             | some dch =>
               let m : CoreM := { start := start, stop := stop, kind := if n = 2 then .strong else .emphasis,
                                  ts := start + n, te := stop - n, dest := [], title := [], delimiter := dch }
               -- del delimiters[open_pos + 1:curr_pos]; curr_pos = open_pos + 1
               let ds1 := st.ds.take (openPos + 1) ++ st.ds.drop curr
               let bottoms1 := st.bottoms.map (fun e =>
                 match e.2 with
                 | some b => if b ≥ openPos then (e.1, if openPos > 0 then some (openPos - 1) else stackBottom) else e
                 | none => e)
               -- opener.remove(n, left=False)
               let (ds2, curr2) : List Delim × Nat :=
                 match delimRemove opener n false with
                 | some o' => (ds1.set openPos o', openPos + 1)
                 | none => (ds1.eraseIdx openPos, openPos)
               -- closer.remove(n, left=True)
               let ds3 := match delimRemove closer n true with
                 | some c' => ds2.set curr2 c'
                 | none => ds2.eraseIdx curr2
               emphLoop s stackBottom fuel { ds := ds3, ms := m :: st.ms, bottoms := bottoms1 } (nextCloser curr2 ds3))
        | .ok none =>
          let bottoms1 := bottomsSet st.bottoms key (if curr > 0 then some (curr - 1) else stackBottom)
          if !closer.opens then
            let ds1 := st.ds.eraseIdx curr
            emphLoop s stackBottom fuel { st with ds := ds1, bottoms := bottoms1 } (nextCloser curr ds1)
          else
            emphLoop s stackBottom fuel { st with bottoms := bottoms1 } (nextCloser (curr + 1) st.ds)

/-- `process_emphasis(string, stack_bottom, delimiters, matches)`; returns the new delimiters and matches -/
def processEmphasis (s : Str) (stackBottom : Option Nat) (ds : List Delim) (ms : List CoreM) : Res (List Delim × List CoreM) :=
  match emphLoop s stackBottom (2 * s.length + 2 * ds.length + 4) { ds := ds, ms := ms, bottoms := [] }
      (nextCloser (stackBottom.getD 0) ds) with
  | .err e => .err e
  | .ok st => .ok (match stackBottom with | none => [] | some b => st.ds.take b, st.ms)

/-! ### find_link_image -/

/-- index of the last `[` / `![` delimiter -/
def lastBracket : List Delim → Nat → Option Nat → Option Nat
  | [], _, acc => acc
  | d :: rest, i, acc => lastBracket rest (i + 1) (if d.type == ['['] || d.type == ['!', '['] then some i else acc)

/-- `find_link_image(string, offset, delimiters, matches, root)`: (new i, delimiters, matches) -/
def findLinkImage (s : Str) (offset : Nat) (ds : List Delim) (ms : List CoreM) (fn : Footnotes.Table) :
    Res (Nat × List Delim × List CoreM) :=
  match lastBracket ds 0 none with
  | none => .ok (offset, ds, ms)
  | some i =>
    match ds[i]? with
    | none => .err .index
    | some d =>
      if !d.active then .ok (offset, ds.eraseIdx i, ms) else
      match matchLinkImage s offset d fn with
      | none => .ok (offset, ds.eraseIdx i, ms)
      | some m =>
        match processEmphasis s (some i) ds ms with
        | .err e => .err e
        | .ok (ds1, ms1) =>
          let ds2 := if d.type == ['['] then ds1.map (fun x => if x.type == ['['] then { x with active := false } else x) else ds1
          .ok (m.stop - 1, ds2, m :: ms1)

/-! ### find_core_tokens -/

structure FState where
  ds : List Delim := []          -- in list order
  ms : List CoreM := []          -- newest first
  codes : List CodeM := []       -- `_code_matches`, newest first
  escaped : Bool := false
  inRun : Option Char := none
  inImage : Bool := false
  start : Nat := 0
  code : Option CodeM := none

def pushDelim (st : FState) (d : Delim) : FState := { st with ds := st.ds ++ [d] }

/-- the `while i < len(string)` loop -/
def coreLoop (s : Str) (fn : Footnotes.Table) : Nat → Nat → FState → Res (Nat × FState)
  | 0, _, _ => .err .fuel
  | fuel + 1, i, st =>
    match s[i]? with
    | none => .ok (i, st)
    | some c =>
      if (match st.code with | some cm => i == cm.start | none => false) then
        match st.code with
        | none => .err .type
        | some cm =>
          let st1 := if st.inRun.isSome then
              { pushDelim st (mkDelim st.start (if !st.escaped then i else i - 1) s) with inRun := none, escaped := false }
            else st
          coreLoop s fn fuel cm.stop { st1 with codes := cm :: st1.codes, code := codeSearch s cm.stop, inImage := false }
      else if c = '\\' && !st.escaped then coreLoop s fn fuel (i + 1) { st with escaped := true }
      else
        let st1 := if st.inRun.isSome && (some c != st.inRun || st.escaped) then
            { pushDelim st (mkDelim st.start (if !st.escaped then i else i - 1) s) with inRun := none }
          else st
        let st2 := if st1.inRun.isNone && (c = '*' || c = '_') && !st1.escaped then { st1 with inRun := some c, start := i } else st1
        if !st2.escaped then
          if c = '[' then
            if !st2.inImage then coreLoop s fn fuel (i + 1) (pushDelim st2 (mkDelim i (i + 1) s))
            else coreLoop s fn fuel (i + 1) { pushDelim st2 (mkDelim (i - 1) (i + 1) s) with inImage := false }
          else if c = '!' then coreLoop s fn fuel (i + 1) { st2 with inImage := true }
          else if c = ']' then
            match findLinkImage s i st2.ds st2.ms fn with
            | .err e => .err e
            | .ok (i', ds', ms') => coreLoop s fn fuel (i' + 1) { st2 with ds := ds', ms := ms', code := codeSearch s i' }
          else if st2.inImage then coreLoop s fn fuel (i + 1) { st2 with inImage := false }
          else coreLoop s fn fuel (i + 1) st2
        else coreLoop s fn fuel (i + 1) { st2 with escaped := false, inImage := false }

/-- `find_core_tokens(string, root)`: the matches in the order they were appended, and
    `_code_matches` as `InlineCode.find` will return them -/
def findCoreTokens (s : Str) (fn : Footnotes.Table) : Res (List CoreM × List CodeM) :=
  match coreLoop s fn (s.length + 2) 0 { code := codeSearch s 0 } with
  | .err e => .err e
  | .ok (i, st) =>
    let st1 := if st.inRun.isSome then pushDelim st (mkDelim st.start (if !st.escaped then i else i - 1) s) else st
    match processEmphasis s none st1.ds st1.ms with
    | .err e => .err e
    | .ok (_, ms) => .ok (ms.reverse, st1.codes.reverse)

end Mistletoe.Core
