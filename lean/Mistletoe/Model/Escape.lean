/-
  Escaping helpers as per-character maps.  The ASCII images are *probed from the working tree* on
  every run (Gen/Chains.lean): `escape_html_text` under the four quote options, `html.escape`,
  `HtmlRenderer.escape_url`, `LaTeXRenderer.render_raw_text`, `LaTeXRenderer.escape_url`.
  Above ASCII the text escapers are the identity and the URL escapers percent-encode the UTF-8
  bytes (`urllib.parse.quote`).  That each real helper *is* such a per-character map is what the
  `py.*` correspondence units check (every code point singly + random concatenations).
-/
import Mistletoe.Model.Basic
import Mistletoe.Gen.Chains
namespace Mistletoe.Escape

def hexDigits : List Char := "0123456789ABCDEF".toList

def hexDigit (n : Nat) : Char := hexDigits.getD (n % 16) '0'

/-- `%XX` for one byte. -/
def pctByte (b : Nat) : Str := ['%', hexDigit (b / 16), hexDigit (b % 16)]

/-- UTF-8 bytes of a code point. -/
def utf8 (n : Nat) : List Nat :=
  if n < 0x80 then [n]
  else if n < 0x800 then [0xC0 + n / 64, 0x80 + n % 64]
  else if n < 0x10000 then [0xE0 + n / 4096, 0x80 + (n / 64) % 64, 0x80 + n % 64]
  else [0xF0 + n / 262144, 0x80 + (n / 4096) % 64, 0x80 + (n / 64) % 64, 0x80 + n % 64]

/-- `quote(c)` for a non-ASCII character: every UTF-8 byte percent-encoded. -/
def pctUtf8 (c : Char) : Str := (utf8 c.toNat).flatMap pctByte

/-- A per-character map given by an ASCII table and a function for the rest. -/
def mapChars (tbl : List Str) (above : Char → Str) (s : Str) : Str :=
  s.flatMap (fun c => if c.toNat < 128 then tbl.getD c.toNat [c] else above c)

def ident (c : Char) : Str := [c]

/-- `HtmlRenderer.escape_html_text` under the two quote options. -/
def escapeHtmlText (dq sq : Bool) : Str → Str :=
  mapChars (match dq, sq with
    | false, false => Gen.Chains.escapeHtmlText_nodq_nosq
    | false, true => Gen.Chains.escapeHtmlText_nodq_sq
    | true, false => Gen.Chains.escapeHtmlText_dq_nosq
    | true, true => Gen.Chains.escapeHtmlText_dq_sq) ident

/-- `html.escape(s)` (quote=True). -/
def htmlEscape : Str → Str := mapChars Gen.Chains.htmlEscape ident

/-- `HtmlRenderer.escape_url` = `html.escape(quote(raw, safe=…))`. -/
def htmlEscapeUrl : Str → Str := mapChars Gen.Chains.htmlEscapeUrl pctUtf8

/-- `LaTeXRenderer.render_raw_text(token)` with `escape=True`. -/
def latexRawText : Str → Str := mapChars Gen.Chains.latexRawText ident

/-- `quote(c)` followed by LaTeX-escaping of '%': every UTF-8 byte as `\%XX`. -/
def latexPctUtf8 (c : Char) : Str := (utf8 c.toNat).flatMap (fun b => '\\' :: pctByte b)

/-- `LaTeXRenderer.escape_url`. -/
def latexEscapeUrl : Str → Str := mapChars Gen.Chains.latexEscapeUrl latexPctUtf8

end Mistletoe.Escape
