/-
  Hand-written scanners for the regular expressions of span_token.py / core_tokens.py, in the
  shape the call sites use them (`finditer` / `search(string, pos)`).  Each anchored matcher gets
  the character before the position (`prev`, for the look-behinds) and the rest of the string, and
  returns the length of the match plus the group spans *relative to the match start*.
  Tied to the compiled pattern objects of the working tree by the `scan.*` correspondence units.
-/
import Mistletoe.Model.Scan
namespace Mistletoe.InlineScan
open Mistletoe Mistletoe.Py Mistletoe.Scan

/-- a regex match: absolute `start`/`stop` and one group span (absolute) -/
structure M where
  start : Nat
  stop : Nat
  gs : Nat      -- start of the group the token class reads
  ge : Nat      -- end of that group
  deriving Repr, DecidableEq, Inhabited

/-- `pattern.finditer(s)` for an anchored matcher `m prev rest = some (len, gs, ge)` with `len > 0`. -/
def findIterAux (m : Option Char → Str → Option (Nat × Nat × Nat)) : Nat → Nat → Option Char → Str → List M
  | 0, _, _, _ => []
  | _, _, _, [] => []
  | fuel + 1, pos, prev, c :: rest =>
    match m prev (c :: rest) with
    | some (len, gs, ge) =>
      let len := if len = 0 then 1 else len
      let matched := (c :: rest).take len
      { start := pos, stop := pos + len, gs := pos + gs, ge := pos + ge } ::
        findIterAux m fuel (pos + len) matched.getLast? ((c :: rest).drop len)
    | none => findIterAux m fuel (pos + 1) (some c) rest

def findIter (m : Option Char → Str → Option (Nat × Nat × Nat)) (s : Str) : List M :=
  findIterAux m (s.length + 1) 0 none s

/-- index of the first position `j ≥ from_` in `s` at which `p (s.drop j)` holds -/
def findFrom (p : Str → Bool) : Nat → Str → Option Nat
  | _, [] => none
  | j, c :: rest => if p (c :: rest) then some j else findFrom p (j + 1) rest

/-! ### EscapeSequence.pattern  `\\([!\"#$%&'()*+,-./:;<=>?@\[\\\]^_`{|}~])` -/
def escapable (c : Char) : Bool := "!\"#$%&'()*+,-./:;<=>?@[\\]^_`{|}~".toList.contains c

def escapeAt (_ : Option Char) : Str → Option (Nat × Nat × Nat)
  | '\\' :: c :: _ => if escapable c then some (2, 1, 2) else none
  | _ => none

/-! ### LineBreak.pattern  `( *|\\)\n`  (group 1) -/
def lineBreakAt (_ : Option Char) (r : Str) : Option (Nat × Nat × Nat) :=
  let n := countLeading ' ' r
  if r[n]? == some '\n' then some (n + 1, 0, n)
  else match r with
    | '\\' :: '\n' :: _ => some (2, 0, 1)
    | _ => none

/-- number of leading backslashes -/
def leadingBackslashes (r : Str) : Nat := countLeading '\\' r

/-! ### Strikethrough.pattern  `(?<!\\)(?:\\\\)*~~(.+?)~~`  (DOTALL; group 1) -/
def strikeAt (prev : Option Char) (r : Str) : Option (Nat × Nat × Nat) :=
  if prev == some '\\' then none else
  let k := leadingBackslashes r
  if k % 2 != 0 then none else
  match r.drop k with
  | '~' :: '~' :: body =>
    (match body with
     | _ :: body1 =>
       (match findFrom (fun t => startsWith ['~', '~'] t) 1 body1 with
        | some j => some (k + 2 + j + 2, k + 2, k + 2 + j)
        | none => none)
     | [] => none)
  | _ => none

/-! ### AutoLink.pattern -/
def schemeChar (c : Char) : Bool := isAlnum c || c == '+' || c == '.' || c == '-'
def localChar (c : Char) : Bool := isAlnum c || ".!#$%&'*+/=?^_`{|}~-".toList.contains c
def domChar (c : Char) : Bool := isAlnum c || c == '-'

/-- `[A-Za-z0-9](?:[A-Za-z0-9-]{0,61}[A-Za-z0-9])?` matches the whole of `l` -/
def labelOk (l : Str) : Bool :=
  match l with
  | [] => false
  | c :: _ => isAlnum c && l.length ≤ 63 && (match l.getLast? with | some d => isAlnum d | none => false)

/-- split on '.' -/
def splitDots : Str → Str → List Str
  | [], cur => [cur.reverse]
  | c :: rest, cur => if c == '.' then cur.reverse :: splitDots rest [] else splitDots rest (c :: cur)

/-- after `<`: the length of group 1 if `…>` follows -/
def autoLinkBody (r : Str) : Option Nat :=
  let scheme : Option Nat :=
    match r with
    | c :: r1 =>
      if !isAlpha c then none else
      let (run, r2) := span schemeChar r1
      if run.length < 1 || run.length > 31 then none else
      (match r2 with
       | ':' :: r3 =>
         let (body, r4) := span (fun d => d != ' ' && d != '<' && d != '>') r3
         (match r4 with
          | '>' :: _ => some (1 + run.length + 1 + body.length)
          | _ => none)
       | _ => none)
    | [] => none
  match scheme with
  | some n => some n
  | none =>
    let (loc, r1) := span localChar r
    if loc.isEmpty then none else
    match r1 with
    | '@' :: r2 =>
      let (dom, r3) := span (fun d => domChar d || d == '.') r2
      (match r3 with
       | '>' :: _ => if (splitDots dom []).all labelOk then some (loc.length + 1 + dom.length) else none
       | _ => none)
    | _ => none

def autoLinkAt (prev : Option Char) (r : Str) : Option (Nat × Nat × Nat) :=
  if prev == some '\\' then none else
  let k := leadingBackslashes r
  if k % 2 != 0 then none else
  match r.drop k with
  | '<' :: body =>
    (match autoLinkBody body with
     | some n => some (k + 1 + n + 1, k + 1, k + 1 + n)
     | none => none)
  | _ => none

/-! ### HtmlSpan.pattern (six alternatives, DOTALL; group 0) -/

/-- `<!--(?!>|->)(?:(?!--).)+?(?<!-)-->` at `<` : total length -/
def commentBody : Nat → Nat → Option Char → Str → Option Nat
  -- `n` = characters of content consumed so far, `prev` = last content character
  | 0, _, _, _ => none
  | _, _, _, [] => none
  | fuel + 1, n, prev, c :: rest =>
    if n ≥ 1 && prev != some '-' && startsWith ['-', '-', '>'] (c :: rest) then some n
    else if startsWith ['-', '-'] (c :: rest) then none
    else commentBody fuel (n + 1) (some c) rest

def commentAt (r : Str) : Option Nat :=
  if !startsWith "<!--".toList r then none else
  let body := r.drop 4
  if startsWith ['>'] body || startsWith ['-', '>'] body then none else
  match commentBody (body.length + 1) 0 none body with
  | some n => some (4 + n + 3)
  | none => none

/-- `<\?.+?\?>` -/
def instructionAt (r : Str) : Option Nat :=
  match r with
  | '<' :: '?' :: _ :: body1 =>
    (match findFrom (fun t => startsWith ['?', '>'] t) 1 body1 with
     | some j => some (2 + j + 2)
     | none => none)
  | _ => none

/-- `<![A-Z].+?>` -/
def declarationAt (r : Str) : Option Nat :=
  match r with
  | '<' :: '!' :: c :: _ :: body1 =>
    if 'A' ≤ c && c ≤ 'Z' then
      (match findFrom (fun t => startsWith ['>'] t) 1 body1 with
       | some j => some (3 + j + 1)
       | none => none)
    else none
  | _ => none

/-- `<!\[CDATA.+?\]\]>` -/
def cdataAt (r : Str) : Option Nat :=
  if !startsWith "<![CDATA".toList r then none else
  match r.drop 8 with
  | _ :: body1 =>
    (match findFrom (fun t => startsWith [']', ']', '>'] t) 1 body1 with
     | some j => some (8 + j + 3)
     | none => none)
  | [] => none

def htmlSpanAt (prev : Option Char) (r : Str) : Option (Nat × Nat × Nat) :=
  if prev == some '\\' then none else
  let len : Option Nat :=
    match openTag r with
    | some r' => some (r.length - r'.length)
    | none =>
      match closingTag r with
      | some r' => some (r.length - r'.length)
      | none =>
        match commentAt r with
        | some n => some n
        | none =>
          match instructionAt r with
          | some n => some n
          | none =>
            match declarationAt r with
            | some n => some n
            | none => cdataAt r
  match len with
  | some n => some (n, 0, n)
  | none => none

/-! ### core_tokens.code_pattern  `(?<!\\|`)(?:\\\\)*(`+)(?!`)(.+?)(?<!`)\1(?!`)`  (DOTALL) -/

structure CodeM where
  start : Nat
  stop : Nat
  delim : Nat        -- length of group 1
  gs : Nat           -- group 2
  ge : Nat
  deriving Repr, DecidableEq, Inhabited

/-- position (relative to `body`) of the first maximal run of exactly `n` backticks that starts at
    index ≥ 1; `prevTick` = the previous character is a backtick -/
def closeRun (n : Nat) : Nat → Nat → Bool → Str → Option Nat
  | 0, _, _, _ => none
  | _, _, _, [] => none
  | fuel + 1, j, prevTick, c :: rest =>
    if c == '`' && !prevTick && j ≥ 1 then
      let run := countLeading '`' (c :: rest)
      if run = n then some j else closeRun n fuel (j + run) true ((c :: rest).drop run)
    else closeRun n fuel (j + 1) (c == '`') rest

/-- anchored: (total length, delimiter length, group 2 span) -/
def codeAt (prev : Option Char) (r : Str) : Option (Nat × Nat × Nat × Nat) :=
  if prev == some '\\' || prev == some '`' then none else
  let k := leadingBackslashes r
  if k % 2 != 0 then none else
  let r1 := r.drop k
  let n := countLeading '`' r1
  if n = 0 then none else
  let body := r1.drop n
  match closeRun n (body.length + 1) 0 false body with
  | some j => some (k + n + j + n, n, k + n, k + n + j)
  | none => none

/-- `code_pattern.search(s, pos)`: `before` = `s[:pos]` reversed is not needed, only the character
    before `pos`; `r` = `s[pos:]` -/
def codeSearchAux : Nat → Nat → Option Char → Str → Option CodeM
  | 0, _, _, _ => none
  | _, _, _, [] => none
  | fuel + 1, pos, prev, c :: rest =>
    match codeAt prev (c :: rest) with
    | some (len, n, gs, ge) => some { start := pos, stop := pos + len, delim := n, gs := pos + gs, ge := pos + ge }
    | none => codeSearchAux fuel (pos + 1) (some c) rest

def codeSearch (s : Str) (pos : Nat) : Option CodeM :=
  codeSearchAux (s.length + 1) pos (if pos = 0 then none else s[pos - 1]?) (s.drop pos)

/-! ### latex_token.Math.pattern  `(\${1,2})([^$]+?)\1`  (group 0) -/
def mathAt (_ : Option Char) (r : Str) : Option (Nat × Nat × Nat) :=
  let n := countLeading '$' r
  if n = 0 then none else
  -- `\${1,2}` greedy: two if available, then one on backtracking
  let try_ (d : Nat) : Option Nat :=
    let body := r.drop d
    let (c, r1) := span (· != '$') body
    if c.isEmpty then none else
    if countLeading '$' r1 ≥ d then some (d + c.length + d) else none
  match (if n ≥ 2 then try_ 2 else none) with
  | some len => some (len, 0, len)
  | none => match try_ 1 with
    | some len => some (len, 0, len)
    | none => none

end Mistletoe.InlineScan
