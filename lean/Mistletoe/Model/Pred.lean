/-
  Decidable predicates the property statements are written with (C08: HTML well-formedness).
  Kept apart from the lemmas so that a reader can check they say what properties.jsonl says.
-/
import Mistletoe.Model.Html
namespace Mistletoe.Pred
open Mistletoe Mistletoe.Html

/-- The renderer's fixed tag vocabulary. -/
def htmlVocabulary : List Str :=
  ["p", "h1", "h2", "h3", "h4", "h5", "h6", "blockquote", "pre", "code", "ul", "ol", "li", "table",
   "thead", "tbody", "tr", "th", "td", "hr", "br", "em", "strong", "del", "a", "img"].map String.toList

/-- Attribute names the renderer writes. -/
def htmlAttrNames : List Str :=
  ["src", "alt", "title", "href", "class", "start", "align"].map String.toList

/-- An attribute value that cannot end its (double-quoted) attribute or open a tag. -/
def safeAttrChar (c : Char) : Bool := c != '"' && c != '<' && c != '>'
def safeAttr (v : Str) : Bool := v.all safeAttrChar

/-- The tails of the five character references the escapers write after `&`. -/
def entityTails : List Str := ["amp;", "lt;", "gt;", "quot;", "#x27;"].map String.toList

/-- Text in which `<` and `>` do not occur and `&` occurs only as the start of
    `&amp;` `&lt;` `&gt;` `&quot;` `&#x27;`. -/
def safeText : Str → Bool
  | [] => true
  | c :: rest =>
    if c = '&' then entityTails.any (fun t => t.isPrefixOf rest) && safeText rest
    else c != '<' && c != '>' && safeText rest

def attrsOk (as : List (Str × Str)) : Bool :=
  as.all (fun kv => htmlAttrNames.contains kv.1 && safeAttr kv.2)

/-- One output event is admissible. -/
def evOk : Ev → Bool
  | .otag t as => htmlVocabulary.contains t && attrsOk as
  | .ctag t => htmlVocabulary.contains t
  | .vtag t as => htmlVocabulary.contains t && attrsOk as
  | .text s => safeText s
  | .raw _ => true

def isRaw : Ev → Bool
  | .raw _ => true
  | _ => false

/-- Properly nested tags: every open tag is closed by the matching close tag, in LIFO order. -/
inductive Balanced : List Ev → Prop where
  | nil : Balanced []
  | vtag (t as) {rest} : Balanced rest → Balanced (.vtag t as :: rest)
  | text (s) {rest} : Balanced rest → Balanced (.text s :: rest)
  | raw (s) {rest} : Balanced rest → Balanced (.raw s :: rest)
  | wrap (t as) {inner rest} : Balanced inner → Balanced rest →
      Balanced (.otag t as :: (inner ++ .ctag t :: rest))

/-- The executable counterpart of `Balanced` (used by the search on implementation output and in
    non-vacuity examples): a stack machine. -/
def balancedB : List Ev → List Str → Bool
  | [], stack => stack.isEmpty
  | .otag t _ :: rest, stack => balancedB rest (t :: stack)
  | .ctag t :: rest, top :: stack => t == top && balancedB rest stack
  | .ctag _ :: _, [] => false
  | _ :: rest, stack => balancedB rest stack

/-- HTML well-formedness of an event list, raw HTML set aside. -/
def WellFormed (evs : List Ev) : Prop := Balanced evs ∧ ∀ e ∈ evs, evOk e = true

mutual
/-- The tree contains no HtmlSpan / HtmlBlock token. -/
def noHtmlInline : Inline → Bool
  | .htmlSpan _ => false
  | .strong _ k => noHtmlInlines k
  | .emphasis _ k => noHtmlInlines k
  | .strikethrough k => noHtmlInlines k
  | .image _ _ _ _ _ _ => true          -- an image's children reach the output only through html.escape
  | .link _ _ _ _ _ k => noHtmlInlines k
  | .githubWiki _ k => noHtmlInlines k
  | _ => true
def noHtmlInlines : List Inline → Bool
  | [] => true
  | i :: is => noHtmlInline i && noHtmlInlines is
end

mutual
def noHtmlBlock : Block → Bool
  | .htmlBlock .. => false
  | .paragraph k _ => noHtmlInlines k
  | .heading _ _ k _ => noHtmlInlines k
  | .setextHeading _ _ k _ => noHtmlInlines k
  | .quote kids _ => noHtmlBlocks kids
  | .list _ _ items _ => noHtmlBlocks items
  | .listItem _ _ _ _ kids _ => noHtmlBlocks kids
  | .table _ header rows _ => noHtmlBlocks header && noHtmlBlocks rows
  | .tableRow _ cells _ => noHtmlBlocks cells
  | .tableCell _ k _ => noHtmlInlines k
  | _ => true
def noHtmlBlocks : List Block → Bool
  | [] => true
  | b :: bs => noHtmlBlock b && noHtmlBlocks bs
end

mutual
/-- Heading levels are 1…6 (what C12 states of parsed documents). -/
def levelsOk : Block → Bool
  | .heading l _ _ _ => 1 ≤ l && l ≤ 6
  | .setextHeading l _ _ _ => 1 ≤ l && l ≤ 6
  | .quote kids _ => levelsOks kids
  | .list _ _ items _ => levelsOks items
  | .listItem _ _ _ _ kids _ => levelsOks kids
  | .table _ header rows _ => levelsOks header && levelsOks rows
  | _ => true
def levelsOks : List Block → Bool
  | [] => true
  | b :: bs => levelsOk b && levelsOks bs
end

end Mistletoe.Pred
