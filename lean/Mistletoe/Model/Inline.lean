/-
  `span_token.tokenize_inner`: candidate collection per token class (`find`), resolution by the
  span tokenizer (`Model/Span.lean`, the model C16 is proved about), and the token constructors of
  span_token.py / latex_token.py / contrib/github_wiki.py, producing the `Inline` tree.
-/
import Mistletoe.Model.Core
import Mistletoe.Model.InlineScanX
import Mistletoe.Model.Span
import Mistletoe.Model.Unescape
import Mistletoe.Model.Ast
namespace Mistletoe.Inline
open Mistletoe Mistletoe.Py Mistletoe.Scan Mistletoe.InlineScan Mistletoe.Core

/-- span token classes that can be in `span_token._token_types` (RawText, the fallback, is implicit) -/
inductive STok where
  | escapeSequence | htmlSpan | strikethrough | autoLink | coreTokens | inlineCode | lineBreak
  | math | githubWiki | xwikiMacroStart | xwikiMacroEnd
  deriving Repr, DecidableEq, Inhabited

/-- what a class's `find` returned for one match: enough for `ParseToken.__init__` and the constructor -/
inductive Payload where
  | re (m : M)                 -- a regex match with the group the constructor reads
  | core (m : CoreM)
  | code (m : CodeM)
  deriving Repr, Inhabited

def prec : STok → Nat
  | .escapeSequence => 2
  | .coreTokens => 3
  | _ => 5

def parseInner : STok → Bool
  | .strikethrough | .coreTokens | .githubWiki => true
  | _ => false

/-! ### GithubWiki.pattern  `\[\[ *(.+?) *\| *(.+?) *\]\]`  (group 1 is the parse group; the constructor reads group 2) -/

/-- lazy `(.+?)` (no newline) followed by ` *` and the literal `lit`: smallest n ≥ 1 -/
def lazyUntil (lit : Str) : Nat → Nat → Str → Option (Nat × Nat)
  -- returns (length of the group, length consumed including ` *` and `lit`)
  | 0, _, _ => none
  | _, _, [] => none
  | fuel + 1, n, c :: rest =>
    let tail := if n = 0 then none else
      let sp := countLeading ' ' (c :: rest)
      if startsWith lit ((c :: rest).drop sp) then some (n, n + sp + lit.length) else none
    match tail with
    | some r => some r
    | none => if c == '\n' then none else lazyUntil lit fuel (n + 1) rest

/-- try `f k` for k = n, n-1, …, 0 (a greedy ` *` giving characters back) -/
def downFrom {α} (f : Nat → Option α) : Nat → Option α
  | 0 => f 0
  | n + 1 => match f (n + 1) with | some r => some r | none => downFrom f n

structure WikiM where
  m : M
  g2s : Nat
  g2e : Nat
  deriving Repr, Inhabited

def wikiAt (r : Str) : Option (Nat × Nat × Nat × Nat × Nat) :=
  if !startsWith ['[', '['] r then none else
  downFrom (fun sp1 =>
    let a := 2 + sp1
    let body := r.drop a
    match lazyUntil ['|'] (body.length + 1) 0 body with
    | none => none
    | some (g1, used1) =>
      let b0 := a + used1
      downFrom (fun sp2 =>
        let b := b0 + sp2
        let body2 := r.drop b
        match lazyUntil [']', ']'] (body2.length + 1) 0 body2 with
        | none => none
        | some (g2, used2) => some (b + used2, a, a + g1, b, b + g2)) (countLeading ' ' (r.drop b0)))
    (countLeading ' ' (r.drop 2))

def wikiFindAux : Nat → Nat → Str → List WikiM
  | 0, _, _ => []
  | _, _, [] => []
  | fuel + 1, pos, c :: rest =>
    match wikiAt (c :: rest) with
    | some (len, g1s, g1e, g2s, g2e) =>
      { m := { start := pos, stop := pos + len, gs := pos + g1s, ge := pos + g1e }, g2s := pos + g2s, g2e := pos + g2e } ::
        wikiFindAux fuel (pos + len) ((c :: rest).drop len)
    | none => wikiFindAux fuel (pos + 1) rest

/-! ### candidates -/

structure Found where
  cls : STok
  start : Nat
  stop : Nat
  pstart : Nat
  pend : Nat
  payload : Payload
  g2 : Nat × Nat := (0, 0)      -- GithubWiki group 2
  deriving Inhabited

def ofRe (cls : STok) (wholeIsGroup : Bool) (m : M) : Found :=
  { cls := cls, start := m.start, stop := m.stop,
    pstart := if wholeIsGroup then m.start else m.gs, pend := if wholeIsGroup then m.stop else m.ge, payload := .re m }

/-- `token_type.find(string)` for one class; core tokens need the definitions table -/
def findOne (s : Str) (core : List CoreM) (codes : List CodeM) : STok → List Found
  | .escapeSequence => (findIter escapeAt s).map (ofRe .escapeSequence false)
  | .htmlSpan => (findIter htmlSpanAt s).map (ofRe .htmlSpan true)
  | .strikethrough => (findIter strikeAt s).map (ofRe .strikethrough false)
  | .autoLink => (findIter autoLinkAt s).map (ofRe .autoLink false)
  | .lineBreak => (findIter lineBreakAt s).map (ofRe .lineBreak true)
  | .math => (findIter mathAt s).map (ofRe .math true)
  | .coreTokens => core.map (fun m => { cls := .coreTokens, start := m.start, stop := m.stop, pstart := m.ts, pend := m.te, payload := .core m })
  | .inlineCode => codes.map (fun m => { cls := .inlineCode, start := m.start, stop := m.stop, pstart := m.gs, pend := m.ge, payload := .code m })
  | .githubWiki => (wikiFindAux (s.length + 1) 0 s).map (fun w =>
      { cls := .githubWiki, start := w.m.start, stop := w.m.stop, pstart := w.m.gs, pend := w.m.ge, payload := .re w.m, g2 := (w.g2s, w.g2e) })
  -- span_token.XWikiBlockMacroStart / XWikiBlockMacroEnd: `parse_group = 1`
  | .xwikiMacroStart => (findIter InlineScanX.xwikiStartAt s).map (ofRe .xwikiMacroStart false)
  | .xwikiMacroEnd => (findIter InlineScanX.xwikiEndAt s).map (ofRe .xwikiMacroEnd false)

/-- `find_tokens`: all candidates, class by class in token-list order -/
def findAll (s : Str) (types : List STok) (fn : Footnotes.Table) : Res (List Found) :=
  -- CoreTokens.find runs find_core_tokens; InlineCode.find returns what that call left behind
  let coreRes : Res (List CoreM × List CodeM) :=
    if types.contains .coreTokens then findCoreTokens s fn else .ok ([], [])
  match coreRes with
  | .err e => .err e
  | .ok (core, codes) => .ok (types.flatMap (findOne s core codes))

def DestTypeOf (t : Str) : DestType :=
  if t == "uri".toList then .uri else if t == "angle_uri".toList then .angleUri
  else if t == "full".toList then .full else if t == "collapsed".toList then .collapsed
  else if t == "shortcut".toList then .shortcut else .none

/-- `InlineCode.__init__`: (delimiter, padding, content) -/
def inlineCodeOf (s : Str) (m : CodeM) : Inline :=
  let content := (slice s m.gs m.ge).map (fun c => if c == '\n' then ' ' else c)
  let delim := List.replicate m.delim '`'
  let pad := !content.all pyIsSpace && content.head? == some ' ' && content.getLast? == some ' '
  if pad then .inlineCode delim [' '] (content.drop 1).dropLast else .inlineCode delim [] content

def casefoldContains (hay : Str) (needle : Str) : Bool := isInfix needle (Footnotes.casefold hay)

mutual
/-- `ParseToken.make` on the resolved forest (`Span.Out`), looking the payload up by `ord` -/
def build (s : Str) (found : List Found) : Span.Out → Inline
  | .raw a b => .rawText (Unescape.unescape true (slice s a b))
  | .tok c kids =>
    match found[c.ord]? with
    | none => .rawText []
    | some f =>
      match f.cls, f.payload with
      | .escapeSequence, .re m => .escapeSequence (slice s m.gs m.ge)
      | .htmlSpan, .re m => .htmlSpan (slice s m.start m.stop)
      | .strikethrough, _ => .strikethrough (builds s found kids)
      | .autoLink, .re m =>
        let t := slice s m.gs m.ge
        .autoLink t (t.contains '@' && !casefoldContains t "mailto".toList)
      | .lineBreak, .re m =>
        let content := slice s m.gs m.ge
        .lineBreak content (!(startsWith [' ', ' '] content || startsWith ['\\'] content))
      | .math, .re m => .math (slice s m.start m.stop)
      | .githubWiki, _ => .githubWiki (slice s f.g2.1 f.g2.2) (builds s found kids)
      -- `SpanToken.__init__` with `parse_inner = False`: `self.content = match.group(1)`
      | .xwikiMacroStart, .re m => .xwikiMacroStart (slice s m.gs m.ge)
      | .xwikiMacroEnd, .re m => .xwikiMacroEnd (slice s m.gs m.ge)
      | .inlineCode, .code m => inlineCodeOf s m
      | .coreTokens, .core m =>
        (match m.kind with
         | .strong => .strong [m.delimiter] (builds s found kids)
         | .emphasis => .emphasis [m.delimiter] (builds s found kids)
         | .link => .link (Unescape.escStrip true (strip m.dest)) (Unescape.escStrip true m.title) (DestTypeOf m.destType)
                      m.label (m.titleDelim.map (fun c => [c])) (builds s found kids)
         | .image => .image (Unescape.escStrip true (strip m.dest)) (Unescape.escStrip true m.title) (DestTypeOf m.destType)
                      m.label (m.titleDelim.map (fun c => [c])) (builds s found kids))
      | _, _ => .rawText []
def builds (s : Str) (found : List Found) : List Span.Out → List Inline
  | [] => []
  | o :: os => build s found o :: builds s found os
end

/-- position of a class in the token list (for `Cand.cls`) -/
def clsIndex (types : List STok) (t : STok) : Nat := types.findIdx (· == t)

/-- `span_token.tokenize_inner(content)` under the token list `types` (RawText last, implicit) -/
def tokenizeInner (types : List STok) (fn : Footnotes.Table) (s : Str) : Res (List Inline) :=
  match findAll s types fn with
  | .err e => .err e
  | .ok found =>
    let cands : List Span.Cand := found.zipIdx.map (fun (f, i) =>
      { start := f.start, stop := f.stop, pstart := f.pstart, pend := f.pend, prec := prec f.cls,
        inner := parseInner f.cls, cls := clsIndex types f.cls, ord := i })
    .ok (builds s found (Span.tokenize cands s.length))

end Mistletoe.Inline
