/-
  Model of the block phase of mistletoe: block_tokenizer.FileWrapper / tokenize_block and every
  `start` / `read` / `check_interrupts_paragraph` of block_token.py (plus the Markdown renderer's
  BlankLine), written function for function after the Python.

  * A line carries a ghost `origin` (its 1-based index in the document); the model never reads
    it except to copy it (C13 proves the reported line numbers equal the origins).
  * `FW` is FileWrapper: `pos` = `_index + 1`; `line_number() = start + pos - 1`.
  * Class scratch (Heading.level/content, CodeFence._open_info, HtmlBlock._end_cond) is recomputed
    from the line `start` was called on: in tokenize_block `read` directly follows `start` on the
    same line (C05 argues that nothing writes the scratch in between).
  * `Paragraph.parse_setext` and the definitions collected by `append_footnotes` are threaded as
    state (`St`), written where the Python writes them.
  * Loops that are not structural take fuel; `err .fuel` is never produced for sufficient fuel.
-/
import Mistletoe.Model.Scan
import Mistletoe.Model.Footnotes
import Mistletoe.Gen.Tables
namespace Mistletoe.Block
open Mistletoe Mistletoe.Py Mistletoe.Scan

structure Line where
  s : Str
  origin : Nat := 0
  deriving Repr, DecidableEq, Inhabited

/-- block token classes that can be in `_token_types` -/
inductive BTok where
  | htmlBlock | blockCode | heading | quote | codeFence | thematicBreak | list | table | footnote
  | paragraph | blankLine | linkRefDefBlock
  deriving Repr, DecidableEq, Inhabited

/-- one link reference definition as `match_reference` returns it -/
structure FnMatch where
  label : Str
  dest : Str
  title : Str
  destType : Str          -- "angle_uri" | "uri"
  titleDelim : Option Char
  deriving Repr, DecidableEq, Inhabited

mutual
/-- entries of a ParseBuffer: (token_type, read result, line_number) -/
inductive Entry where
  | blockCode (lines : List Str) (ln og : Nat)
  | heading (level : Nat) (content closing : Str) (ln og : Nat)
  | quote (inner : List Entry) (loose : Bool) (ln og : Nat)
  | codeFence (lines : List Str) (prepend : Nat) (leader info lang : Str) (ln og : Nat)
  | thematicBreak (line : Str) (ln og : Nat)
  | list (items : List Item) (ln og : Nat)
  | table (lines : List Str) (startLine : Nat) (ln og : Nat)
  | footnote (ms : List FnMatch) (ln og : Nat)
  | linkRefDefs (ms : List FnMatch) (ln og : Nat)
  | paragraph (lines : List Str) (ln og : Nat)
  | setext (lines : List Str) (ln og : Nat)
  | htmlBlock (lines : List Str) (ln og : Nat)
  | blankLine (ln og : Nat)
/-- `ln` is the reported `line_number`; `og` is a ghost: the origin of the line the token was found on. -/
inductive Item where
  | mk (inner : List Entry) (loose : Bool) (indentation prepend : Nat) (leader : Str) (ln og : Nat)
end

structure Buf where
  entries : List Entry := []
  loose : Bool := false

structure St where
  setext : Bool := true                 -- Paragraph.parse_setext
  defs : List FnMatch := []             -- every definition handed to append_footnotes, in call order

structure FW where
  lines : List Line
  pos : Nat := 0
  start : Nat := 1

namespace FW
def peek (f : FW) : Option Line := f.lines[f.pos]?
def next (f : FW) : FW := { f with pos := f.pos + 1 }
def backstep (f : FW) : FW := { f with pos := f.pos - 1 }
def lineNumber (f : FW) : Nat := f.start + f.pos - 1
def remaining (f : FW) : Nat := f.lines.length - f.pos
end FW

structure Cfg where
  types : List BTok
  tableInterrupt : Bool := true

/-! ### small helpers -/

def replaceTab1 (s : Str) : Str := replaceFirst ['\t'] [' ', ' ', ' ', ' '] s

/-- BlockCode.start -/
def blockCodeStart (line : Str) : Bool := !isBlank line && startsWith [' ', ' ', ' ', ' '] (replaceTab1 line)

/-- BlockCode.strip -/
def blockCodeStrip : Str → Nat → Str
  | [], _ => []
  | c :: rest, count =>
    if c = '\t' then rest
    else if c = ' ' then (if count + 1 = 4 then rest else blockCodeStrip rest (count + 1))
    else c :: rest

/-- Quote.start -/
def quoteStart (line : Str) : Bool :=
  let stripped := lstripSp line
  if line.length - stripped.length > 3 then false else startsWith ['>'] stripped

/-- CodeFence.start (returns `_open_info`) -/
def codeFenceStart (line : Str) : Option FenceMatch :=
  match codeFence line with
  | none => none
  | some m => if m.leader.head? == some '`' && m.info.contains '`' then none else some m

/-- rules 6 and 7 of HtmlBlock.start -/
def htmlRest (stripped : Str) : Option (Nat × Option Str) :=
  let custom : Option (Nat × Option Str) := if customTag stripped then some (7, none) else none
  match predefined stripped with
  | some g => if Gen.Tables.tags.contains (String.ofList (Footnotes.casefold g)) then some (6, none) else custom
  | none => custom

/-- HtmlBlock.start: rule number and `_end_cond`; `err .index` where `stripped[2]` does not exist -/
def htmlBlockStart (line : Str) : Res (Option (Nat × Option Str)) :=
  let stripped := lstrip line
  if line.length - stripped.length ≥ 4 then .ok none else
  match multiblock stripped with
  | some tag => .ok (some (1, some ("</".toList ++ Footnotes.casefold tag ++ ['>'])))
  | none =>
    if startsWith "<!--".toList stripped then .ok (some (2, some "-->".toList)) else
    if startsWith "<?".toList stripped then .ok (some (3, some "?>".toList)) else
    if startsWith "<!".toList stripped then
      match stripped[2]? with
      | none => .err .index
      | some c =>
        if isUpper c then .ok (some (4, some ['>']))
        else if startsWith "<![CDATA[".toList stripped then .ok (some (5, some "]]>".toList))
        else .ok (htmlRest stripped)
    else .ok (htmlRest stripped)

/-- ListItem.parse_marker: (indentation, prepend, leader, content) -/
def parseMarker (line : Str) : Option (Nat × Nat × Str × Str) :=
  match listItem line with
  | none => none
  | some m =>
    let indentation := m.g1.length
    let g0 := m.g1 ++ m.g2 ++ m.g3
    let prepend := (expandtabs g0).length
    let end2 := m.g1.length + m.g2.length
    let nSpaces := prepend - end2
    if nSpaces > 4 then some (indentation, prepend - (nSpaces - 1), m.g2, List.replicate (nSpaces - 1) ' ' ++ m.rest)
    else some (indentation, prepend, m.g2, m.rest)

/-- ListItem.parse_continuation -/
def parseContinuation (line : Str) (prepend : Nat) : Option Str :=
  match continuation line with
  | none => none
  | some (g1, g2) =>
    if g2 == ['\n'] then some ['\n'] else
    let expanded := expandtabs g1
    if expanded.length ≥ prepend then some (expanded.drop prepend ++ g2) else none

/-- List.same_marker_type -/
def sameMarkerType (leader other : Str) : Bool :=
  if leader.length == 1 then leader == other
  else leader.dropLast.all isDigitPy && other.dropLast.all isDigitPy && !leader.dropLast.isEmpty && !other.dropLast.isEmpty
       && leader.getLast? == other.getLast?
where isDigitPy (c : Char) : Bool := isDigit c

/-- the test at the head of the loop of List.read:
    `next_marker is not None and not cls.same_marker_type(leader, next_marker[2])` -/
def otherMarkerType (leader : Option Str) (nextMarker : Option (Nat × Nat × Str × Str)) : Bool :=
  match leader, nextMarker with
  | some ld, some m => !sameMarkerType ld m.2.2.1
  | _, _ => false

/-- Quote.convert_leading_tabs; `err .unbound` for the empty string (loop variable read after an empty loop) -/
def convertLeadingTabs (s0 : Str) : Res Str :=
  let s := replaceFirst ['>', '\t'] [' ', ' ', ' '] s0
  if s.isEmpty then .err .unbound else
  let rec go : Str → Nat → Nat → Nat × Nat × Bool
    | [], i, count => (i - 1, count, false)          -- loop exhausted: i is the last index
    | c :: rest, i, count =>
      if c = '\t' then go rest (i + 1) (count + 4)
      else if c = ' ' then go rest (i + 1) (count + 1)
      else (i, count, true)
  let (i, count, _) := go s 0 0
  if i = 0 then .ok s else .ok ('>' :: List.replicate count ' ' ++ s.drop i)

/-! ### Link reference definitions (Footnote.match_*) -/

def coreWs (c : Char) : Bool := inRanges Gen.Tables.coreWhitespace c
def isControl (c : Char) : Bool := c.toNat < 32 || c.toNat == 127

/-- core_tokens.shift_whitespace -/
def shiftWhitespace (s : Str) (index : Nat) : Nat :=
  index + ((s.drop index).takeWhile coreWs).length

/-- core_tokens.follows -/
def follows (s : Str) (index : Nat) (ch : Char) : Bool := s[index + 1]? == some ch

/-- loop of Footnote.match_link_label; `start = none` is Python's -1 -/
def mllGo (s : Str) (offset : Nat) : Str → Nat → Option Nat → Bool → Option (Option Nat × Nat × Str)
  | [], _, _, _ => none
  | c :: rest, i, start, escaped =>
    let step : Sum (Option (Option Nat × Nat × Str)) (Option Nat × Bool) :=
      if escaped then .inr (start, false)
      else if c = '\\' then .inr (start, true)
      else if c = '[' then (match start with | none => .inr (some i, false) | some _ => .inl none)
      else if c = ']' then
        let from_ := match start with | none => 0 | some st => st + 1
        let label := slice s from_ i
        .inl (if !isBlank label then some (start, i + 1, label) else none)
      else .inr (start, false)
    match step with
    | .inl r => r
    | .inr (st', esc') =>
      -- the statement after the if/elif chain: only spaces (at most three) before the opening bracket
      if st'.isNone && !(c == ' ' && i - offset < 3) then none else mllGo s offset rest (i + 1) st' esc'

/-- Footnote.match_link_label: (start (none = -1), end, label) -/
def matchLinkLabel (s : Str) (offset : Nat) : Option (Option Nat × Nat × Str) :=
  mllGo s offset (s.drop offset) offset none false

/-- Footnote.match_link_dest for `string[offset] == '<'`: loop from offset+1 -/
def mldAngle (s : Str) (offset : Nat) : Str → Nat → Bool → Option (Nat × Nat × Str)
  | [], _, _ => none
  | c :: rest, i, escaped =>
    if c = '\\' && !escaped then mldAngle s offset rest (i + 1) true
    else if c = '\n' || (c = '<' && !escaped) then none
    else if c = '>' && !escaped then some (offset, i + 1, slice s (offset + 1) i)
    else mldAngle s offset rest (i + 1) false

/-- non-angle destination: returns (i, count) at the `break` (first whitespace), or `none` for `return None` -/
def mldPlain : Str → Nat → Bool → Int → Option (Option (Nat × Int))
  | [], i, _, count => some (some (i - 1, count))  -- loop exhausted without break: `i` is the last index
  | c :: rest, i, escaped, count =>
    if c = '\\' && !escaped then mldPlain rest (i + 1) true count
    else if coreWs c then some (some (i, count))
    else if !escaped then
      mldPlain rest (i + 1) false (if c = '(' then count + 1 else if c = ')' then count - 1 else count)
    else if isControl c then none
    else mldPlain rest (i + 1) false count

/-- Footnote.match_link_dest; `err .index` if `offset` is out of range -/
def matchLinkDest (s : Str) (offset : Nat) : Res (Option (Nat × Nat × Str)) :=
  match s[offset]? with
  | none => .err .index
  | some c =>
    if c = '<' then .ok (mldAngle s offset (s.drop (offset + 1)) (offset + 1) false)
    else
      match mldPlain (s.drop offset) offset false 0 with
      | none => .ok none
      | some none => .ok none
      | some (some (i, count)) => if count != 0 then .ok none else .ok (some (offset, i, slice s offset i))

/-- Footnote.match_link_title -/
def mltGo (s : Str) (offset : Nat) (closing : Char) : Str → Nat → Bool → Option (Nat × Nat × Str)
  | [], _, _ => none
  | c :: rest, i, escaped =>
    if c = '\\' && !escaped then mltGo s offset closing rest (i + 1) true
    else if c = closing && !escaped then some (offset, i + 1, slice s (offset + 1) i)
    else mltGo s offset closing rest (i + 1) false

def matchLinkTitle (s : Str) (offset : Nat) : Option (Nat × Nat × Str) :=
  match s[offset]? with
  | none => none
  | some c =>
    let closing : Option Char := if c = '"' then some '"' else if c = '\'' then some '\'' else if c = '(' then some ')' else none
    match closing with
    | none => none
    | some cl => mltGo s offset cl (s.drop (offset + 1)) (offset + 1) false

/-- `string[a:b].find("\n")` ≥ 0 : position of the first newline in the slice -/
def findNl (s : Str) (a b : Nat) : Option Nat :=
  let sl := slice s a b
  let k := (sl.takeWhile (· != '\n')).length
  if k < sl.length then some k else none

/-- the tail of match_reference after the title: optional spaces or tabs, final line ending -/
def lineEndGo (s : Str) : Str → Nat → Option Nat
  | [], _ => none
  | c :: rest, i => if c = '\n' then some (i + 1) else if coreWs c then lineEndGo s rest (i + 1) else none

/-- Footnote.match_reference: (new offset, match) -/
def matchReference (s : Str) (offset : Nat) : Res (Option (Nat × FnMatch)) :=
  match matchLinkLabel s offset with
  | none => .ok none
  | some (_, labelEnd, label) =>
    if !follows s (labelEnd - 1) ':' then .ok none else
    let destStart := shiftWhitespace s (labelEnd + 1)
    if destStart == s.length then .ok none else
    match matchLinkDest s destStart with
    | .err e => .err e
    | .ok none => .ok none
    | .ok (some (_, destEnd, dest)) =>
      let destType := if s[destStart]? == some '<' then "angle_uri".toList else "uri".toList
      let titleStart := shiftWhitespace s destEnd
      if titleStart == destEnd && titleStart < s.length then .ok none else
      let noTitle : Option (Nat × FnMatch) :=
        match findNl s destEnd titleStart with
        | some eol => some (destEnd + eol + 1, { label := label, dest := dest, title := [], destType := destType, titleDelim := none })
        | none => none
      match matchLinkTitle s titleStart with
      | none => .ok noTitle
      | some (_, titleEnd, title) =>
        match lineEndGo s (s.drop titleEnd) titleEnd with
        | some next =>
          let td := if titleStart < titleEnd then s[titleStart]? else none
          .ok (some (next, { label := label, dest := dest, title := title, destType := destType, titleDelim := td }))
        | none => .ok noTitle


/-! ### Readers that do not nest -/

/-- BlockCode.read: loop `for line in lines`; returns (buffer reversed, trailing_blanks, fw) -/
def blockCodeLoop : Nat → FW → List Str → Nat → List Str × Nat × FW
  | 0, fw, buf, tb => (buf, tb, fw)
  | fuel + 1, fw, buf, tb =>
    match fw.peek with
    | none => (buf, tb, fw)
    | some l =>
      let fw1 := fw.next
      if isBlank l.s then
        let piece := if l.s.length < 5 then lstripSp l.s else l.s.drop 4
        blockCodeLoop fuel fw1 (piece :: buf) (tb + 1)
      else if !blockCodeStart l.s then (buf, tb, fw1.backstep)
      else blockCodeLoop fuel fw1 (blockCodeStrip l.s 0 :: buf) 0

def readBlockCode (fw : FW) : List Str × FW :=
  let (buf, tb, fw1) := blockCodeLoop (fw.remaining + 1) fw [] 0
  -- for _ in range(trailing_blanks): line_buffer.pop(); lines.backstep()
  ((buf.drop tb).reverse, { fw1 with pos := fw1.pos - tb })

/-- Heading.start + Heading.read on the same line -/
def readHeading (fw : FW) (line : Str) : Option (Nat × Str × Str × FW) :=
  match heading line with
  | none => none
  | some m =>
    let content := strip (m.g2.getD [])
    let content := if !content.isEmpty && content.all (· == '#') then [] else content
    some (m.level, content, strip (m.g3.getD []), fw.next)

/-- CodeFence.read: loop after the opening line -/
def codeFenceLoop (leader : Str) (prepend : Nat) : Nat → FW → List Str → List Str × FW
  | 0, fw, buf => (buf, fw)
  | fuel + 1, fw, buf =>
    match fw.peek with
    | none => (buf, fw)
    | some l =>
      let fw1 := fw.next
      let stripped := lstripSp l.s
      let diff := l.s.length - stripped.length
      -- not stripped_line.rstrip(' \t\n').strip(fence[0])   (fence[0] exists: the pattern gives >= 3 characters)
      -- `r.strip(c)` is empty exactly when every character of `r` is `c`
      let fenceOnly := (rstripSet [' ', '\t', '\n'] stripped).all (fun x => some x == leader.head?)
      if startsWith leader stripped && fenceOnly && diff < 4 then (buf, fw1)
      else
        let piece := if diff > prepend then List.replicate (diff - prepend) ' ' ++ stripped else stripped
        codeFenceLoop leader prepend fuel fw1 (piece :: buf)

def readCodeFence (fw : FW) (m : FenceMatch) : List Str × FW :=
  let (buf, fw1) := codeFenceLoop m.leader m.prepend (fw.remaining + 1) fw.next []
  (buf.reverse, fw1)

/-- Table.read: none = `set_pos(anchor); return None` -/
def tableLoop : Nat → FW → List Str → List Str × FW
  | 0, fw, buf => (buf, fw)
  | fuel + 1, fw, buf =>
    match fw.peek with
    | some l => if l.s.contains '|' then tableLoop fuel fw.next (l.s :: buf) else (buf, fw)
    | none => (buf, fw)

def readTable (fw : FW) : Option (List Str × Nat × FW) :=
  match fw.peek with
  | none => none
  | some l0 =>
    let fw1 := fw.next
    let startLine := fw1.lineNumber
    let (bufRev, fw2) := tableLoop (fw.remaining + 1) fw1 [l0.s]
    let buf := bufRev.reverse
    match buf with
    | _ :: second :: _ => if delimiterRow second then some (buf, startLine, fw2) else none
    | _ => none

/-- HtmlBlock.read -/
def htmlBlockLoop (endCond : Option Str) : Nat → FW → List Str → List Str × FW
  | 0, fw, buf => (buf, fw)
  | fuel + 1, fw, buf =>
    match fw.peek with
    | none => (buf, fw)
    | some l =>
      let fw1 := fw.next
      match endCond with
      | some e => if isInfix e (Footnotes.casefold l.s) then (l.s :: buf, fw1) else htmlBlockLoop endCond fuel fw1 (l.s :: buf)
      | none => if isBlank l.s then (buf, fw1.backstep) else htmlBlockLoop endCond fuel fw1 (l.s :: buf)

def readHtmlBlock (fw : FW) (endCond : Option Str) : List Str × FW :=
  let (buf, fw1) := htmlBlockLoop endCond (fw.remaining + 1) fw []
  (buf.reverse, fw1)

/-- Footnote.read: the lines up to the next blank line … -/
def footnoteLines : Nat → FW → List Str → List Str × FW
  | 0, fw, buf => (buf, fw)
  | fuel + 1, fw, buf =>
    match fw.peek with
    | some l => if !isBlank l.s then footnoteLines fuel fw.next (l.s :: buf) else (buf, fw)
    | none => (buf, fw)

/-- … then `while offset < len(string) - 1: match_reference` -/
def footnoteRefs (s : Str) : Nat → Nat → List FnMatch → Res (List FnMatch × Option Nat)
  | 0, _, _ => .err .fuel
  | fuel + 1, offset, acc =>
    if offset + 1 < s.length then
      match matchReference s offset with
      | .err e => .err e
      | .ok none => .ok (acc.reverse, some (count '\n' (s.drop offset)))      -- lines to hand back
      | .ok (some (next, m)) => footnoteRefs s fuel next (m :: acc)
    else .ok (acc.reverse, none)

/-- returns the matches (possibly empty = `None`), the cursor and the definitions appended -/
def readFootnote (fw : FW) : Res (List FnMatch × FW) :=
  let (bufRev, fw1) := footnoteLines (fw.remaining + 1) fw []
  let s := (bufRev.reverse).flatten
  match footnoteRefs s (s.length + 2) 0 [] with
  | .err e => .err e
  | .ok (ms, back) => .ok (ms, match back with | some k => { fw1 with pos := fw1.pos - k } | none => fw1)

/-! ### check_interrupts_paragraph -/

/-- List.check_interrupts_paragraph -/
def listInterrupts (line : Str) : Bool :=
  match parseMarker line with
  | none => false
  | some (_, _, leader, content) =>
    if !isBlank content then
      (match leader.head? with | some c => !isDigit c | none => true) || leader == ['1', '.'] || leader == ['1', ')']
    else false

/-- `token_type.check_interrupts_paragraph(lines)` for one token type -/
def interruptsOne (cfg : Cfg) (fw : FW) (t : BTok) : Res Bool :=
  match fw.peek with
  | none => .err .type            -- callers only ask while a next line exists
  | some l =>
    match t with
    | .heading => .ok (heading l.s).isSome
    | .quote => .ok (quoteStart l.s)
    | .codeFence => .ok (codeFenceStart l.s).isSome
    | .thematicBreak => .ok (thematicBreak l.s)
    | .list => .ok (listInterrupts l.s)
    | .table => .ok (cfg.tableInterrupt && (readTable fw).isSome)
    | .htmlBlock =>
      match htmlBlockStart l.s with
      | .err e => .err e
      | .ok none => .ok false
      | .ok (some (rule, _)) => .ok (rule != 7)
    | _ => .ok false

def hasInterrupt : BTok → Bool
  | .heading | .quote | .codeFence | .thematicBreak | .list | .table | .htmlBlock => true
  | _ => false

/-- `any(t.check_interrupts_paragraph(lines) for t in breaking_tokens)` in `_token_types` order,
    skipping `skip` (and, for ListItem.read, the table when the line carries a list marker) -/
def anyInterrupt (cfg : Cfg) (fw : FW) (skip : BTok) (skipTable : Bool := false) : List BTok → Res Bool
  | [] => .ok false
  | t :: ts =>
    if !hasInterrupt t || t == skip || (skipTable && t == .table) then anyInterrupt cfg fw skip skipTable ts
    else match interruptsOne cfg fw t with
      | .err e => .err e
      | .ok true => .ok true
      | .ok false => anyInterrupt cfg fw skip skipTable ts

/-- Paragraph.read; returns (lines, isSetext, fw) -/
def paragraphLoop (cfg : Cfg) (setextOn : Bool) : Nat → FW → List Str → Res (List Str × Bool × FW)
  | 0, _, _ => .err .fuel
  | fuel + 1, fw, buf =>
    match fw.peek with
    | none => .ok (buf, false, fw)
    | some l =>
      if isBlank l.s then .ok (buf, false, fw) else
      match anyInterrupt cfg fw .thematicBreak false cfg.types with
      | .err e => .err e
      | .ok true => .ok (buf, false, fw)
      | .ok false =>
        if setextOn && setext l.s then .ok (l.s :: buf, true, fw.next)
        else if thematicBreak l.s then .ok (buf, false, fw)
        else paragraphLoop cfg setextOn fuel fw.next (l.s :: buf)

def readParagraph (cfg : Cfg) (setextOn : Bool) (fw : FW) (l0 : Str) : Res (List Str × Bool × FW) :=
  match paragraphLoop cfg setextOn (fw.remaining + 1) fw.next [l0] with
  | .err e => .err e
  | .ok (buf, st, fw1) => .ok (buf.reverse, st, fw1)


/-! ### Quote.read: collecting the lines -/

structure QFlags where
  inFence : Bool
  inCode : Bool
  blank : Bool

def qflags (line : Str) : QFlags :=
  { inFence := (codeFenceStart line).isSome, inCode := blockCodeStart line, blank := isBlank line }

/-- the `while` loop of Quote.read; buffer reversed -/
def quoteLoop (cfg : Cfg) : Nat → FW → List Line → QFlags → Res (List Line × FW)
  | 0, _, _, _ => .err .fuel
  | fuel + 1, fw, buf, fl =>
    match fw.peek with
    | none => .ok (buf, fw)
    | some l =>
      if isBlank l.s then .ok (buf, fw) else
      match anyInterrupt cfg fw .quote false cfg.types with
      | .err e => .err e
      | .ok true => .ok (buf, fw)
      | .ok false =>
        match convertLeadingTabs (lstrip l.s) with
        | .err e => .err e
        | .ok stripped =>
          match stripped with
          | [] => .err .index
          | c0 :: _ =>
            if c0 = '>' then
              match stripped[1]? with
              | none => .err .index
              | some c1 =>
                let prepend := if c1 = ' ' then 2 else 1
                let body := stripped.drop prepend
                quoteLoop cfg fuel fw.next ({ s := body, origin := l.origin } :: buf) (qflags body)
            else if fl.inFence || fl.inCode || fl.blank then .ok (buf, fw)
            else quoteLoop cfg fuel fw.next (l :: buf) fl

/-- Quote.read up to the nested tokenize_block: the stripped lines, their start line, the cursor -/
def quoteLines (cfg : Cfg) (fw : FW) (l0 : Line) : Res (List Line × Nat × FW) :=
  match convertLeadingTabs (lstrip l0.s) with
  | .err e => .err e
  | .ok t =>
    match splitOnce '>' t with
    | none => .err .index
    | some (_, after) =>
      let line := match after with | ' ' :: r => r | r => r
      let fw1 := fw.next
      match quoteLoop cfg (fw.remaining + 1) fw1 [{ s := line, origin := l0.origin }] (qflags line) with
      | .err e => .err e
      | .ok (buf, fw2) => .ok (buf.reverse, fw1.lineNumber, fw2)

/-! ### ListItem.read: collecting the lines -/

/-- `if newline_count: lines.backstep(); del line_buffer[-newline_count:]` (one backstep only) -/
def dropTrailing (fw : FW) (buf : List Line) (nl : Nat) : FW × List Line :=
  if nl > 0 then (fw.backstep, buf.drop nl) else (fw, buf)

/-- the `while True` loop of ListItem.read; buffer reversed; returns next_marker -/
def itemLoop (cfg : Cfg) (prepend : Nat) : Nat → FW → List Line → Nat →
    Res (List Line × FW × Option (Nat × Nat × Str × Str))
  | 0, _, _, _ => .err .fuel
  | fuel + 1, fw, buf, nl =>
    match fw.peek with
    | none => let (fw', buf') := dropTrailing fw buf nl; .ok (buf', fw', none)
    | some l =>
      match parseContinuation l.s prepend with
      | some cont =>
        if cont.isEmpty then .err .type else     -- `if not continuation` is false for every value produced
        itemLoop cfg prepend fuel fw.next ({ s := cont, origin := l.origin } :: buf) (if cont == ['\n'] then nl + 1 else 0)
      | none =>
        let marker := parseMarker l.s
        match anyInterrupt cfg fw .list marker.isSome cfg.types with
        | .err e => .err e
        | .ok true => let (fw', buf') := dropTrailing fw buf nl; .ok (buf', fw', none)
        | .ok false =>
          match marker with
          | some m => .ok (buf, fw, some m)
          | none =>
            if nl > 0 then let (fw', buf') := dropTrailing fw buf nl; .ok (buf', fw', none)
            else itemLoop cfg prepend fuel fw.next (l :: buf) (if l.s == ['\n'] then nl + 1 else 0)

/-- the blank-skipping loop for an item that begins with a blank line -/
def skipBlanks : Nat → FW → Nat → FW × Nat
  | 0, fw, n => (fw, n)
  | fuel + 1, fw, n =>
    match fw.peek with
    | some l => if isBlank l.s then skipBlanks fuel fw.next (n + 1) else (fw, n)
    | none => (fw, n)

inductive ItemLines where
  /-- "if the line following the list marker is also empty, then this is an empty list item" -/
  | empty (indentation prepend : Nat) (leader : Str) (ln og : Nat) (next : Option (Nat × Nat × Str × Str)) (fw : FW)
  | lines (buf : List Line) (contentStart : Nat) (indentation prepend : Nat) (leader : Str) (ln og : Nat)
      (next : Option (Nat × Nat × Str × Str)) (fw : FW)

/-- ListItem.read up to the nested tokenize_block -/
def itemLines (cfg : Cfg) (fw : FW) (prev : Option (Nat × Nat × Str × Str)) : Res ItemLines :=
  match fw.peek with
  | none => .err .stopIteration
  | some l0 =>
    let fw1 := fw.next
    let startLine := fw1.lineNumber
    match (match prev with | some m => some m | none => parseMarker l0.s) with
    | none => .err .type            -- tuple-unpacking of None
    | some (indentation, prepend0, leader, content) =>
      if isBlank content then
        let prepend := indentation + leader.length + 1
        let (fw2, blanks) := skipBlanks (fw.remaining + 1) fw1 1
        if blanks > 1 then
          let next := match fw2.peek with | some l => parseMarker l.s | none => none
          .ok (.empty indentation prepend leader startLine l0.origin next fw2)
        else
          match itemLoop cfg prepend (fw.remaining + 1) fw2 [] 0 with
          | .err e => .err e
          | .ok (buf, fw3, next) => .ok (.lines buf.reverse (startLine + 1) indentation prepend leader startLine l0.origin next fw3)
      else
        match itemLoop cfg prepend0 (fw.remaining + 1) fw1 [{ s := content, origin := l0.origin }] 0 with
        | .err e => .err e
        | .ok (buf, fw3, next) => .ok (.lines buf.reverse startLine indentation prepend0 leader startLine l0.origin next fw3)

/-! ### tokenize_block -/

def entryCount : List Entry → Nat := List.length

/-
  The four mutually recursive functions below share one structural `gas : Nat`: every call passes
  `gas - 1`, so `gas` bounds the length of the longest call chain (nesting depth × (lines + types +
  items)); running out gives `err .fuel`.  (One shared counter keeps the recursion structural, hence
  evaluable by the kernel.)
-/
mutual
/-- `tokenize_block(iterable, token_types, start_line)` -/
def tokenizeBlock (cfg : Cfg) : Nat → List Line → Nat → St → Res (Buf × St)
  | 0, _, _, _ => .err .fuel
  | gas + 1, lines, start, st =>
    tokLoop cfg gas { lines := lines, pos := 0, start := start } st [] false

/-- the `while line is not None` loop -/
def tokLoop (cfg : Cfg) : Nat → FW → St → List Entry → Bool → Res (Buf × St)
  | 0, _, _, _, _ => .err .fuel
  | gas + 1, fw, st, acc, loose =>
    match fw.peek with
    | none => .ok ({ entries := acc.reverse, loose := loose }, st)
    | some l =>
      match tryTypes cfg gas fw st l cfg.types with
      | .err e => .err e
      | .ok (some (e, fw', st')) => tokLoop cfg gas fw' st' (e :: acc) loose
      | .ok none => tokLoop cfg gas fw.next st acc true        -- unmatched newlines

/-- `for token_type in token_types: if token_type.start(line): … read …` -/
def tryTypes (cfg : Cfg) : Nat → FW → St → Line → List BTok → Res (Option (Entry × FW × St))
  | 0, _, _, _, _ => .err .fuel
  | _ + 1, _, _, _, [] => .ok none
  | gas + 1, fw, st, l, t :: ts =>
    let ln := fw.start + fw.pos          -- lines.line_number() + 1
    match t with
    | .blockCode =>
      if blockCodeStart l.s then let (b, fw') := readBlockCode fw; .ok (some (.blockCode b ln l.origin, fw', st))
      else tryTypes cfg gas fw st l ts
    | .heading =>
      (match readHeading fw l.s with
       | some (lvl, c, cl, fw') => .ok (some (.heading lvl c cl ln l.origin, fw', st))
       | none => tryTypes cfg gas fw st l ts)
    | .quote =>
      if quoteStart l.s then
        match quoteLines cfg fw l with
        | .err e => .err e
        | .ok (qls, qstart, fw') =>
          -- Paragraph.parse_setext = False; try: nested tokenize_block  finally: parse_setext = True
          match tokenizeBlock cfg gas qls qstart { st with setext := false } with
          | .err e => .err e
          | .ok (b, st') => .ok (some (.quote b.entries b.loose ln l.origin, fw', { st' with setext := true }))
      else tryTypes cfg gas fw st l ts
    | .codeFence =>
      (match codeFenceStart l.s with
       | some m => let (b, fw') := readCodeFence fw m; .ok (some (.codeFence b m.prepend m.leader m.info m.lang ln l.origin, fw', st))
       | none => tryTypes cfg gas fw st l ts)
    | .thematicBreak =>
      if thematicBreak l.s then .ok (some (.thematicBreak l.s ln l.origin, fw.next, st)) else tryTypes cfg gas fw st l ts
    | .list =>
      if listStart l.s then
        match readList cfg gas fw st none none [] with
        | .err e => .err e
        | .ok (items, fw', st') => .ok (some (.list items ln l.origin, fw', st'))
      else tryTypes cfg gas fw st l ts
    | .table =>
      if l.s.contains '|' then
        (match readTable fw with
         | some (b, sl, fw') => .ok (some (.table b sl ln l.origin, fw', st))
         | none => tryTypes cfg gas fw st l ts)
      else tryTypes cfg gas fw st l ts
    | .footnote =>
      if startsWith ['['] (lstrip l.s) then
        match readFootnote fw with
        | .err e => .err e
        | .ok (ms, fw') =>
          let st' := { st with defs := st.defs ++ ms }
          if ms.isEmpty then tryTypes cfg gas fw' st' l ts else .ok (some (.footnote ms ln l.origin, fw', st'))
      else tryTypes cfg gas fw st l ts
    | .linkRefDefBlock =>
      if startsWith ['['] (lstrip l.s) then
        match readFootnote fw with
        | .err e => .err e
        | .ok (ms, fw') =>
          let st' := { st with defs := st.defs ++ ms }
          if ms.isEmpty then tryTypes cfg gas fw' st' l ts else .ok (some (.linkRefDefs ms ln l.origin, fw', st'))
      else tryTypes cfg gas fw st l ts
    | .paragraph =>
      if !isBlank l.s then
        match readParagraph cfg st.setext fw l.s with
        | .err e => .err e
        | .ok (b, true, fw') => .ok (some (.setext b ln l.origin, fw', st))
        | .ok (b, false, fw') => .ok (some (.paragraph b ln l.origin, fw', st))
      else tryTypes cfg gas fw st l ts
    | .htmlBlock =>
      (match htmlBlockStart l.s with
       | .err e => .err e
       | .ok none => tryTypes cfg gas fw st l ts
       | .ok (some (_, endCond)) => let (b, fw') := readHtmlBlock fw endCond; .ok (some (.htmlBlock b ln l.origin, fw', st)))
    | .blankLine =>
      if blankLine l.s then .ok (some (.blankLine ln l.origin, fw.next, st)) else tryTypes cfg gas fw st l ts

/-- List.read: `while True: … ListItem.read(lines, next_marker) …`; items reversed in `acc`.
    A next marker of another type ends the list BEFORE its item is read (the item is left to the
    dispatcher): reading it only to discard it would keep the link reference definitions in it. -/
def readList (cfg : Cfg) : Nat → FW → St → Option Str → Option (Nat × Nat × Str × Str) → List Item →
    Res (List Item × FW × St)
  | 0, _, _, _, _, _ => .err .fuel
  | gas + 1, fw, st, leader, nextMarker, acc =>
    let stop (items : List Item) (fwEnd : FW) (stEnd : St) : Res (List Item × FW × St) :=
      -- "Only consider the last list item loose if there's more than one element"
      let items' := match items with
        | .mk inner loose i p l n g :: rest => Item.mk inner (decide (inner.length > 1) && loose) i p l n g :: rest
        | [] => []
      .ok (items'.reverse, fwEnd, stEnd)
    -- `if next_marker is not None and not cls.same_marker_type(leader, next_marker[2]): break`
    if otherMarkerType leader nextMarker then stop acc fw st
    else
    match itemLines cfg fw nextMarker with
    | .err e => .err e
    | .ok il =>
      -- ListItem.read: the nested tokenize_block
      let res : Res (Item × Str × Option (Nat × Nat × Str × Str) × FW × St) :=
        match il with
        | .empty ind pre ldr ln og next fw' => .ok (.mk [] true ind pre ldr ln og, ldr, next, fw', st)
        | .lines buf cstart ind pre ldr ln og next fw' =>
          match tokenizeBlock cfg gas buf cstart st with
          | .err e => .err e
          | .ok (b, st') => .ok (.mk b.entries b.loose ind pre ldr ln og, ldr, next, fw', st')
      match res with
      | .err e => .err e
      | .ok (item, itemLeader, next, fw', st') =>
        match leader with
        | some ld =>
          match next with
            | none => stop (item :: acc) fw' st'
            | some _ => readList cfg gas fw' st' (some ld) next (item :: acc)
        | none =>
          match next with
          | none => stop (item :: acc) fw' st'
          | some _ => readList cfg gas fw' st' (some itemLeader) next (item :: acc)
end

/-- The block phase of `Document(lines)`: the parse buffer and every definition in call order. -/
def blockPhase (cfg : Cfg) (gas : Nat) (lines : List Str) : Res (Buf × St) :=
  tokenizeBlock cfg gas (lines.zipIdx.map (fun (s, i) => { s := s, origin := i + 1 })) 1 {}

end Mistletoe.Block
