/-
  Model of mistletoe/latex_renderer.py (LaTeXRenderer), written like the HTML model as a function
  from the token tree to a list of *events*; the output string is `flat events`.

  Events distinguish the renderer's own structure (`op pre` = `pre{`, `cl` = `}`, `bgn e` / `nd e` =
  `\begin{e}` / `\end{e}`, `lit` = fixed template text) from what comes from the document:
  `text` (escaped by `render_raw_text`), `url` (escaped by `escape_url`), and the three verbatim
  regions the property sets aside: `verb` (`\verb<d>…<d>`), `listing` (body of lstlisting) and
  `math` (math spans).
-/
import Mistletoe.Model.Ast
import Mistletoe.Model.Escape
namespace Mistletoe.Latex
open Mistletoe Mistletoe.Escape

inductive Ev where
  | op (pre : Str)          -- `pre{`           (pre is a command such as `\textbf`, or empty)
  | cl                      -- `}`
  | bgn (env : Str)         -- `\begin{env}`
  | nd (env : Str)          -- `\end{env}`
  | lit (s : Str)           -- the renderer's own literal text
  | text (s : Str)          -- document text, escaped
  | url (s : Str)           -- URL argument, escaped by escape_url
  | verb (d : Char) (s : Str)
  | listing (s : Str)
  | math (s : Str)
  deriving Repr, DecidableEq, Inhabited

def flatEv : Ev → Str
  | .op pre => pre ++ ['{']
  | .cl => ['}']
  | .bgn e => "\\begin{".toList ++ e ++ ['}']
  | .nd e => "\\end{".toList ++ e ++ ['}']
  | .lit s => s
  | .text s => s
  | .url s => s
  | .verb d s => "\\verb".toList ++ [d] ++ s ++ [d]
  | .listing s => s
  | .math s => s

def flat (evs : List Ev) : Str := evs.flatMap flatEv

def L (s : String) : Ev := .lit s.toList

/-- First delimiter of `verb_delimiters` that does not occur in the code; `none` = the documented
    refusal (`RuntimeError('Unable to find delimiter for verb macro')`). -/
def verbDelim (content : Str) : Option Char :=
  Gen.Chains.verbDelimiters.find? (fun d => !content.contains d)

/-- `group cmd inner` = `\cmd{inner}`. -/
def group (cmd : String) (inner : List Ev) : List Ev := [.op cmd.toList] ++ inner ++ [.cl]

mutual
def renderInline : Inline → List Ev
  | .rawText c => [.text (latexRawText c)]
  | .strong _ k => group "\\textbf" (renderInlines k)
  | .emphasis _ k => group "\\textit" (renderInlines k)
  | .inlineCode _ _ c =>
    match verbDelim c with
    | some d => [.verb d c]
    | none => []                      -- refusal, see `refuses`
  | .strikethrough k => group "\\sout" (renderInlines k)
  | .image src _ _ _ _ _ => [L "\n"] ++ group "\\includegraphics" [.url (latexEscapeUrl src)] ++ [L "\n"]
  | .link target _ _ _ _ k =>
    group "\\href" [.url (latexEscapeUrl target)] ++ [.op []] ++ renderInlines k ++ [.cl]
  | .autoLink target _ => group "\\url" [.url (latexEscapeUrl target)]
  | .escapeSequence c => [.text (latexRawText c)]
  | .lineBreak _ soft => if soft then [L "\n"] else [L "\\newline\n"]
  | .math c => [.math c]
  | .htmlSpan _ => []
  | .githubWiki _ _ => []
  | .xwikiMacroStart _ => []
  | .xwikiMacroEnd _ => []
  | .linkRefDef .. => []
def renderInlines : List Inline → List Ev
  | [] => []
  | i :: is => renderInline i ++ renderInlines is
end

def sectionCmd (level : Nat) : String :=
  if level == 1 then "\\section" else if level == 2 then "\\subsection" else "\\subsubsection"

def alignLetter : Option Nat → String
  | none => "l"
  | some 0 => "c"
  | some _ => "r"

/-- `' '.join(cols)` as separate literals. -/
def sepLits : List String → List Ev
  | [] => []
  | [a] => [L a]
  | a :: rest => L a :: L " " :: sepLits rest

def alignSpec (cols : List (Option Nat)) : List Ev :=
  if cols == [none] then []
  else group "" (sepLits (cols.map alignLetter))

def codeBlock (lang content : Str) : List Ev :=
  [L "\n", .bgn "lstlisting".toList, L "[language=", .text (latexRawText lang), L "]\n", .listing content,
   .nd "lstlisting".toList, L "\n"]

/-- `' & '.join(cells)` -/
def sepCells : List (List Ev) → List Ev
  | [] => []
  | [c] => c
  | c :: rest => c ++ [L " & "] ++ sepCells rest

mutual
def renderBlock : Block → List Ev
  | .paragraph k _ => [L "\n"] ++ renderInlines k ++ [L "\n"]
  | .heading level _ k _ => [L "\n"] ++ group (sectionCmd level) (renderInlines k) ++ [L "\n"]
  | .setextHeading level _ k _ => [L "\n"] ++ group (sectionCmd level) (renderInlines k) ++ [L "\n"]
  | .quote kids _ => [.bgn "displayquote".toList, L "\n"] ++ renderBlocks kids ++ [.nd "displayquote".toList, L "\n"]
  | .blockCode c _ => codeBlock [] c
  | .codeFence lang _ _ _ c _ => codeBlock lang c
  | .list _ start items _ =>
    let env := match start with | some _ => "enumerate".toList | none => "itemize".toList
    [.bgn env, L "\n"] ++ renderBlocks items ++ [.nd env, L "\n"]
  | .listItem _ _ _ _ kids _ => [L "\\item "] ++ renderBlocks kids ++ [L "\n"]
  | .table cols header rows _ =>
    [.bgn "tabular".toList] ++ alignSpec cols ++ [L "\n"]
      ++ renderHeader header
      ++ renderBlocks rows ++ [.nd "tabular".toList, L "\n"]
  | .tableRow _ cells _ => sepCells (renderCellsL cells) ++ [L " \\\\\n"]
  | .tableCell _ k _ => renderInlines k
  | .thematicBreak _ _ => [L "\n\\hrulefill\n"]
  | .htmlBlock _ _ => []
  | .blankLine _ => []
  | .linkRefDefBlock _ _ => []
/-- `if hasattr(token, 'header')`: the header row followed by `\\hline`. -/
def renderHeader : List Block → List Ev
  | [] => []
  | h :: _ => renderRow h ++ [L "\\hline\n"]
/-- `render_table_row(token.header)` applied directly. -/
def renderRow : Block → List Ev
  | .tableRow _ cells _ => sepCells (renderCellsL cells) ++ [L " \\\\\n"]
  | _ => []
/-- `[self.render(child) for child in token.children]` -/
def renderCellsL : List Block → List (List Ev)
  | [] => []
  | c :: cs => renderBlock c :: renderCellsL cs
/-- `render_inner` on block children: plain concatenation. -/
def renderBlocks : List Block → List Ev
  | [] => []
  | b :: bs => renderBlock b ++ renderBlocks bs
end

/-! ### Packages: `self.packages[...] = ...` side effects, in first-use order -/

inductive Pkg where
  | ulem | graphicx | hyperref | amsmath | amsfonts | amssymb | csquotes | listings
  deriving Repr, DecidableEq, Inhabited

def Pkg.line : Pkg → String
  | .ulem => "\\usepackage['normalem']{ulem}\n"
  | .graphicx => "\\usepackage{graphicx}\n"
  | .hyperref => "\\usepackage{hyperref}\n"
  | .amsmath => "\\usepackage{amsmath}\n"
  | .amsfonts => "\\usepackage{amsfonts}\n"
  | .amssymb => "\\usepackage{amssymb}\n"
  | .csquotes => "\\usepackage{csquotes}\n"
  | .listings => "\\usepackage{listings}\n"

mutual
def pkgsInline : Inline → List Pkg
  | .strong _ k => pkgsInlines k
  | .emphasis _ k => pkgsInlines k
  | .strikethrough k => .ulem :: pkgsInlines k
  | .image .. => [.graphicx]
  | .link _ _ _ _ _ k => .hyperref :: pkgsInlines k
  | .autoLink .. => [.hyperref]
  | .math _ => [.amsmath, .amsfonts, .amssymb]
  | _ => []
def pkgsInlines : List Inline → List Pkg
  | [] => []
  | i :: is => pkgsInline i ++ pkgsInlines is
end

mutual
def pkgsBlock : Block → List Pkg
  | .paragraph k _ => pkgsInlines k
  | .heading _ _ k _ => pkgsInlines k
  | .setextHeading _ _ k _ => pkgsInlines k
  | .quote kids _ => .csquotes :: pkgsBlocks kids
  | .blockCode .. => [.listings]
  | .codeFence .. => [.listings]
  | .list _ _ items _ => .listings :: pkgsBlocks items
  | .listItem _ _ _ _ kids _ => pkgsBlocks kids
  | .table _ header rows _ => pkgsBlocks header ++ pkgsBlocks rows
  | .tableRow _ cells _ => pkgsBlocks cells
  | .tableCell _ k _ => pkgsInlines k
  | _ => []
def pkgsBlocks : List Block → List Pkg
  | [] => []
  | b :: bs => pkgsBlock b ++ pkgsBlocks bs
end

/-- Keep the first occurrence of each element (dict insertion order). -/
def dedup : List Pkg → List Pkg → List Pkg
  | [], _ => []
  | p :: ps, seen => if seen.contains p then dedup ps seen else p :: dedup ps (p :: seen)

def renderDoc (d : Doc) : List Ev :=
  group "\\documentclass" [L "article"] ++ [L "\n"]
    ++ (dedup (pkgsBlocks d.kids) []).map (fun p => L p.line)
    ++ [.bgn "document".toList, L "\n"] ++ renderBlocks d.kids ++ [.nd "document".toList, L "\n"]

def render (d : Doc) : Str := flat (renderDoc d)

/-! ### Refusal and unsupported trees -/

mutual
/-- Some inline code has no free `\verb` delimiter (the documented refusal). -/
def refusesInline : Inline → Bool
  | .inlineCode _ _ c => (verbDelim c).isNone
  | .strong _ k => refusesInlines k
  | .emphasis _ k => refusesInlines k
  | .strikethrough k => refusesInlines k
  | .link _ _ _ _ _ k => refusesInlines k
  | _ => false
def refusesInlines : List Inline → Bool
  | [] => false
  | i :: is => refusesInline i || refusesInlines is
end

mutual
def refusesBlock : Block → Bool
  | .paragraph k _ => refusesInlines k
  | .heading _ _ k _ => refusesInlines k
  | .setextHeading _ _ k _ => refusesInlines k
  | .quote kids _ => refusesBlocks kids
  | .list _ _ items _ => refusesBlocks items
  | .listItem _ _ _ _ kids _ => refusesBlocks kids
  | .table _ header rows _ => refusesBlocks header || refusesBlocks rows
  | .tableRow _ cells _ => refusesBlocks cells
  | .tableCell _ k _ => refusesInlines k
  | _ => false
def refusesBlocks : List Block → Bool
  | [] => false
  | b :: bs => refusesBlock b || refusesBlocks bs
end

mutual
def supportedInline : Inline → Bool
  | .htmlSpan _ => false
  | .githubWiki .. => false
  | .xwikiMacroStart _ => false
  | .xwikiMacroEnd _ => false
  | .linkRefDef .. => false
  | .strong _ k => supportedInlines k
  | .emphasis _ k => supportedInlines k
  | .strikethrough k => supportedInlines k
  | .link _ _ _ _ _ k => supportedInlines k
  | _ => true
def supportedInlines : List Inline → Bool
  | [] => true
  | i :: is => supportedInline i && supportedInlines is
end

def alignOk : Option Nat → Bool
  | none => true
  | some 0 => true
  | some 1 => true
  | some _ => false

mutual
def supportedBlock : Block → Bool
  | .paragraph k _ => supportedInlines k
  | .heading _ _ k _ => supportedInlines k
  | .setextHeading _ _ k _ => supportedInlines k
  | .quote kids _ => supportedBlocks kids
  | .list _ _ items _ => supportedBlocks items
  | .listItem _ _ _ _ kids _ => supportedBlocks kids
  | .table cols header rows _ => cols.all alignOk && supportedBlocks header && supportedBlocks rows
  | .tableRow _ cells _ => supportedBlocks cells
  | .tableCell _ k _ => supportedInlines k
  | .htmlBlock .. => false
  | .blankLine _ => false
  | .linkRefDefBlock .. => false
  | _ => true
def supportedBlocks : List Block → Bool
  | [] => true
  | b :: bs => supportedBlock b && supportedBlocks bs
end

end Mistletoe.Latex
