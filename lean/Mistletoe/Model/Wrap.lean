/-
  Model of the line-assembly core of mistletoe/markdown_renderer.py: `Fragment`, `make_words`,
  `fragments_to_lines` (plain mode and word-wrapping mode), `prefix_lines`, and the budgets that
  `render_quote` / `render_list_item` hand to their children.
-/
import Mistletoe.Model.Chars
namespace Mistletoe.Wrap
open Mistletoe

/-- `Fragment(text, wordwrap=…, hard_line_break=…)`. -/
structure Fragment where
  text : Str
  wordwrap : Bool := false
  hardLineBreak : Bool := false
  deriving Repr, DecidableEq, Inhabited

/-- `re.split(r"\s+", s)`: pieces between maximal runs of whitespace; `cur` is the current piece
    reversed, `inWs` says whether the previous character was whitespace. -/
def splitWsAux : Str → Str → Bool → List Str
  | [], cur, _ => [cur.reverse]
  | c :: rest, cur, inWs =>
    if pyIsSpace c then
      if inWs then splitWsAux rest cur true else cur.reverse :: splitWsAux rest [] true
    else splitWsAux rest (c :: cur) false

def splitWs (s : Str) : List Str := splitWsAux s [] false

/-- The marker word `make_words` yields for a hard line break. -/
def brk : Str := ['\n']

/-- Inner loop of `make_words` over the pieces of one word-wrappable fragment; returns the words
    yielded and the new pending `word`. -/
def feedItems : List Str → Bool → Str → List Str × Str
  | [], _, word => ([], word)
  | item :: rest, first, word =>
    if first then feedItems rest false (word ++ item)
    else
      let (ys, w) := feedItems rest false item
      ((if word.isEmpty then [] else [word]) ++ ys, w)

/-- `make_words(fragments)`; `word` is the pending word. -/
def makeWordsAux : List Fragment → Str → List Str
  | [], word => if word.isEmpty then [] else [word]
  | f :: rest, word =>
    if f.wordwrap then
      let (ys, w) := feedItems (splitWs f.text) true word
      ys ++ makeWordsAux rest w
    else if f.hardLineBreak then
      (word ++ f.text.dropLast) :: brk :: makeWordsAux rest []
    else makeWordsAux rest (word ++ f.text)

def makeWords (fs : List Fragment) : List Str := makeWordsAux fs []

/-- The word-wrapping loop of `fragments_to_lines`; `cur` is `current_line`. -/
def fillAux (L : Nat) : List Str → Str → List Str
  | [], cur => if cur.isEmpty then [] else [cur]
  | w :: rest, cur =>
    if w = brk then cur :: fillAux L rest []
    else if cur.isEmpty then fillAux L rest w
    else if (cur ++ [' '] ++ w).length ≤ L then fillAux L rest (cur ++ [' '] ++ w)
    else cur :: fillAux L rest w

def fill (L : Nat) (ws : List Str) : List Str := fillAux L ws []

/-- Python `str.split("\n")`. -/
def splitNlAux : Str → Str → List Str
  | [], cur => [cur.reverse]
  | c :: rest, cur => if c = '\n' then cur.reverse :: splitNlAux rest [] else splitNlAux rest (c :: cur)
def splitNl (s : Str) : List Str := splitNlAux s []

/-- Plain mode of `fragments_to_lines` (no limit): merge fragments, split at newlines. -/
def plainAux : List Fragment → Str → List Str
  | [], cur => if cur.isEmpty then [] else [cur]
  | f :: rest, cur =>
    if f.text.contains '\n' then
      match splitNl f.text with
      | [] => plainAux rest cur              -- unreachable: splitNl is never empty
      | first :: more =>
        (cur ++ first) :: (more.dropLast ++ plainAux rest (more.getLast?.getD []))
    else plainAux rest (cur ++ f.text)

/-- `fragments_to_lines(fragments, max_line_length)`; `None` and `0` are both falsy (plain mode);
    a negative limit is truthy and no two words ever fit (`len(test) <= limit` is never true). -/
def fragmentsToLines (fs : List Fragment) (maxLen : Option Int) : List Str :=
  match maxLen with
  | none => plainAux fs []
  | some n => if n = 0 then plainAux fs [] else fill n.toNat (makeWords fs)

/-- `prefix_lines(lines, first_line_prefix, following_line_prefix)`; a prefixed line that is all
    whitespace becomes empty (`str.isspace`, which is false for the empty string). -/
def prefixLinesAux (follow : Str) : List Str → List Str
  | [] => []
  | l :: ls =>
    let p := follow ++ l
    (if !p.isEmpty && p.all pyIsSpace then [] else p) :: prefixLinesAux follow ls

def prefixLines (lines : List Str) (first : Str) (follow : Option Str) : List Str :=
  let follow' := match follow with | some f => if f.isEmpty then first else f | none => first
  match lines with
  | [] => []
  | l :: ls =>
    let p := first ++ l
    (if !p.isEmpty && p.all pyIsSpace then [] else p) :: prefixLinesAux follow' ls

/-- `max(max_line_length - k, 1) if max_line_length else None` (render_quote: k = 2;
    render_list_item: k = prepend). -/
def childBudget (maxLen : Option Int) (k : Nat) : Option Int :=
  match maxLen with
  | none => none
  | some n => if n = 0 then none else some (max (n - k) 1)

end Mistletoe.Wrap
