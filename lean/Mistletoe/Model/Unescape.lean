/-
  `html.unescape` under the two character-reference regexes mistletoe uses:

  * `span_tokenizer._markdown_charref` (`md = true`), patched into `html._charref` while
    `span_tokenizer.tokenize` runs:  `&(#[0-9]{1,7};|#[xX][0-9a-fA-F]{1,6};|[^\t\n\f <&#;]{1,32};)`
  * the stdlib `html._charref` (`md = false`), in force during the block phase
    (`Footnote.append_footnotes`, `CodeFence.__init__`):
    `&(#[0-9]+;?|#[xX][0-9a-fA-F]+;?|[^\t\n\f <&#;]{1,32};?)`

  and `html._replace_charref`, `EscapeSequence.pattern` / `EscapeSequence.strip`.
  Tables (`html5`, `_invalid_charrefs`, `_invalid_codepoints`) are regenerated (Gen/Entities.lean).
-/
import Mistletoe.Model.Scan
import Mistletoe.Gen.Entities
namespace Mistletoe.Unescape
open Mistletoe Mistletoe.Py Mistletoe.Scan

def asciiDigit (c : Char) : Bool := '0' ≤ c && c ≤ '9'
def hexDigitC (c : Char) : Bool := asciiDigit c || ('a' ≤ c && c ≤ 'f') || ('A' ≤ c && c ≤ 'F')
def hexVal (c : Char) : Nat :=
  if asciiDigit c then c.toNat - 48 else if 'a' ≤ c && c ≤ 'f' then c.toNat - 87 else c.toNat - 55

/-- `[^\t\n\f <&#;]` -/
def nameChar (c : Char) : Bool :=
  !(c == '\t' || c == '\n' || c == '\x0c' || c == ' ' || c == '<' || c == '&' || c == '#' || c == ';')

def html5Lookup (name : Str) : Option Str :=
  (Gen.Entities.html5.find? (fun e => e.1 == name)).map (·.2)

/-- numeric character reference value → replacement text -/
def numRef (num : Nat) : Str :=
  match Gen.Entities.invalidCharrefs.find? (fun e => e.1 == num) with
  | some e => e.2
  | none =>
    if (0xD800 ≤ num && num ≤ 0xDFFF) || num > 0x10FFFF then [Char.ofNat 0xFFFD]
    else if Gen.Entities.invalidCodepoints.any (fun r => r.1 ≤ num && num ≤ r.2) then []
    else [Char.ofNat num]

/-- `for x in range(len(s)-1, 1, -1): if s[:x] in html5: return html5[s[:x]] + s[x:]`; else `'&' + s` -/
def longestPrefix (s : Str) : Nat → Str
  | 0 => '&' :: s
  | x + 1 =>
    if x + 1 ≤ 1 then '&' :: s else
    match html5Lookup (s.take (x + 1)) with
    | some r => r ++ s.drop (x + 1)
    | none => longestPrefix s x

/-- named reference `s` = group 1 -/
def namedRef (s : Str) : Str :=
  match html5Lookup s with
  | some r => r
  | none => longestPrefix s (s.length - 1)

/-- One match of the regex at a string that starts just after `&`: (length of group 1, replacement). -/
def charrefAt (md : Bool) (r : Str) : Option (Nat × Str) :=
  match r with
  | '#' :: r1 =>
    (match r1 with
     | x :: r2 =>
       if x == 'x' || x == 'X' then
         let (ds, r3) := span hexDigitC r2
         let semi := r3.head? == some ';'
         if ds.isEmpty then none
         else if md then (if ds.length ≤ 6 && semi then some (2 + ds.length + 1, numRef (ds.foldl (fun n c => n * 16 + hexVal c) 0)) else none)
         else some (2 + ds.length + (if semi then 1 else 0), numRef (ds.foldl (fun n c => n * 16 + hexVal c) 0))
       else
         let (ds, r3) := span asciiDigit r1
         let semi := r3.head? == some ';'
         if ds.isEmpty then none
         else if md then (if ds.length ≤ 7 && semi then some (1 + ds.length + 1, numRef (ds.foldl (fun n c => n * 10 + (c.toNat - 48)) 0)) else none)
         else some (1 + ds.length + (if semi then 1 else 0), numRef (ds.foldl (fun n c => n * 10 + (c.toNat - 48)) 0))
     | [] => none)
  | _ =>
    let (run, r1) := span nameChar r
    if run.isEmpty then none else
    if md then
      (if run.length ≤ 32 && r1.head? == some ';' then some (run.length + 1, namedRef (run ++ [';'])) else none)
    else
      let name := run.take 32
      let semi := run.length ≤ 32 && r1.head? == some ';'
      some (name.length + (if semi then 1 else 0), namedRef (if semi then name ++ [';'] else name))

/-- `_charref.sub(_replace_charref, s)` -/
def unescapeAux (md : Bool) : Nat → Str → Str
  | 0, s => s
  | _, [] => []
  | fuel + 1, c :: rest =>
    if c == '&' then
      match charrefAt md rest with
      | some (len, rep) => rep ++ unescapeAux md fuel (rest.drop len)
      | none => c :: unescapeAux md fuel rest
    else c :: unescapeAux md fuel rest

/-- `html.unescape(s)` with `html._charref` = the Markdown regex (`md`) or the stdlib one. -/
def unescape (md : Bool) (s : Str) : Str := unescapeAux md (s.length + 1) s

/-- the character class of `EscapeSequence.pattern`: ASCII punctuation -/
def escapable (c : Char) : Bool := "!\"#$%&'()*+,-./:;<=>?@[\\]^_`{|}~".toList.contains c

/-- `EscapeSequence.pattern.sub(r'\1', s)` -/
def stripBackslashes : Str → Str
  | '\\' :: c :: rest => if escapable c then c :: stripBackslashes rest else '\\' :: stripBackslashes (c :: rest)
  | c :: rest => c :: stripBackslashes rest
  | [] => []

/-- `EscapeSequence.strip(s)` -/
def escStrip (md : Bool) (s : Str) : Str := unescape md (stripBackslashes s)

end Mistletoe.Unescape
