/-
  What the C02 corpus theorem evaluates: the model of
  `HtmlRenderer(html_escape_double_quotes=True).render(Document(markdown))` against the expected HTML.
-/
import Mistletoe.Model.Config
namespace Mistletoe.SpecCheck
open Mistletoe

/-- gas for the block phase of a corpus example (a bound on the call chain; far above what the
    longest example needs — running out would make the check fail, never pass) -/
def gas : Nat := 2000

/-- the renderer options the specification is compared under -/
def opts : Html.Opts := { dq := true }

/-- the model's output for one markdown text -/
def run (md : Str) : Option Str := Config.renderHtml opts gas md

/-- the model renders the example exactly as the specification expects (byte for byte) -/
def exampleOk (e : Nat × Str × Str) : Bool := run e.2.1 == some e.2.2

end Mistletoe.SpecCheck
