/-
  Character classes and Python `str` methods used by the modelled code, over `List Char`.
  Tables come from `Gen.Python` (regenerated from the running interpreter).
-/
import Mistletoe.Model.Basic
import Mistletoe.Gen.Python
namespace Mistletoe

/-- Membership of a code point in a list of inclusive ranges. -/
def inRanges (rs : List (Nat × Nat)) (c : Char) : Bool :=
  rs.any (fun r => r.1 ≤ c.toNat && c.toNat ≤ r.2)

/-- `c` is one of `str.splitlines`' line boundaries. -/
def isLineSep (c : Char) : Bool := inRanges Gen.Python.lineSeparators c

/-- `str.isspace` for one character. -/
def pyIsSpace (c : Char) : Bool := inRanges Gen.Python.isspace c

/-- `s.endswith('\n')`. -/
def endsWithNl : Str → Bool
  | [] => false
  | [c] => c == '\n'
  | _ :: rest => endsWithNl rest

end Mistletoe
