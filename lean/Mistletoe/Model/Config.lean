/-
  Renderer configurations as the model sees them: the block/span token lists that the bundled
  renderers install, read from the tables regenerated from /repo (`Gen/RenderMaps.lean`: class names
  in list order), mapped to the model's token enumerations.  `none` when a class the model does not
  know is in a list — a proof obligation that then cannot be discharged, never a silent default.
-/
import Mistletoe.Model.Document
import Mistletoe.Model.Html
import Mistletoe.Gen.RenderMaps
namespace Mistletoe.Config
open Mistletoe Mistletoe.Block Mistletoe.Inline

def btokOfName : String → Option BTok
  | "HtmlBlock" => some .htmlBlock | "BlockCode" => some .blockCode | "Heading" => some .heading
  | "Quote" => some .quote | "CodeFence" => some .codeFence | "ThematicBreak" => some .thematicBreak
  | "List" => some .list | "Table" => some .table | "Footnote" => some .footnote
  | "Paragraph" => some .paragraph | "BlankLine" => some .blankLine
  | "LinkReferenceDefinitionBlock" => some .linkRefDefBlock
  | _ => none

def stokOfName : String → Option STok
  | "EscapeSequence" => some .escapeSequence | "HtmlSpan" => some .htmlSpan | "Strikethrough" => some .strikethrough
  | "AutoLink" => some .autoLink | "CoreTokens" => some .coreTokens | "InlineCode" => some .inlineCode
  | "LineBreak" => some .lineBreak | "Math" => some .math | "GithubWiki" => some .githubWiki
  | "XWikiBlockMacroStart" => some .xwikiMacroStart | "XWikiBlockMacroEnd" => some .xwikiMacroEnd
  | _ => none

def mapOpt {α β} (f : α → Option β) : List α → Option (List β)
  | [] => some []
  | x :: xs => match f x, mapOpt f xs with
    | some y, some ys => some (y :: ys)
    | _, _ => none

/-- the span list without its last element `RawText` (the fallback token, implicit in the model);
    `none` if the list does not end with it -/
def spanList (names : List String) : Option (List STok) :=
  if names.getLast? == some "RawText" then mapOpt stokOfName names.dropLast else none

def cfgOf (blockNames spanNames : List String) : Option Document.Cfg :=
  match mapOpt btokOfName blockNames, spanList spanNames with
  | some b, some s => some { block := { types := b }, span := s }
  | _, _ => none

/-- token lists while an `HtmlRenderer` is active (regenerated from /repo) -/
def html : Option Document.Cfg := cfgOf Gen.RenderMaps.htmlBlockTokens Gen.RenderMaps.htmlSpanTokens

/-- token lists while a `MarkdownRenderer` is active (regenerated from /repo) -/
def markdown : Option Document.Cfg := cfgOf Gen.RenderMaps.markdownBlockTokens Gen.RenderMaps.markdownSpanTokens

/-- the default token lists (no renderer active, or `AstRenderer`) -/
def default : Option Document.Cfg := cfgOf Gen.RenderMaps.defaultBlockTokens Gen.RenderMaps.defaultSpanTokens

/-- `HtmlRenderer(**opts).render(Document(text))`: `none` if the configuration is unknown to the model
    or the model raises -/
def renderHtml (opts : Html.Opts) (gas : Nat) (text : Str) : Option Str :=
  match html with
  | none => none
  | some cfg =>
    match Document.parse cfg gas text with
    | .ok d => some (Html.render opts d)
    | .err _ => none

end Mistletoe.Config
