/-
  Predicates of C17 (LaTeX output structure), kept apart from the lemmas.
-/
import Mistletoe.Model.Latex
namespace Mistletoe.PredLatex
open Mistletoe Mistletoe.Latex

/-- The LaTeX-special characters named by the property. -/
def special (c : Char) : Bool :=
  c == '$' || c == '#' || c == '{' || c == '}' || c == '&' || c == '_' || c == '%' || c == '^' || c == '\\'

/-- The escaped forms `render_raw_text` writes for them. -/
def escTokens : List Str :=
  ["\\$", "\\#", "\\{", "\\}", "\\&", "\\_", "\\%", "\\^{}", "\\textbackslash{}"].map String.toList

/-- Document text in which every special character appears only inside an escaped form. -/
inductive SafeText : Str → Prop where
  | nil : SafeText []
  | char (c : Char) {rest : Str} (h : special c = false) : SafeText rest → SafeText (c :: rest)
  | tok (t : Str) {rest : Str} (h : t ∈ escTokens) : SafeText rest → SafeText (t ++ rest)

/-- In a URL argument: no brace, no backslash except in `\%` / `\#`, no raw `%` or `#`. -/
def urlSpecial (c : Char) : Bool := c == '{' || c == '}' || c == '\\' || c == '%' || c == '#'
def urlTokens : List Str := ["\\%", "\\#"].map String.toList

inductive UrlSafe : Str → Prop where
  | nil : UrlSafe []
  | char (c : Char) {rest : Str} (h : urlSpecial c = false) : UrlSafe rest → UrlSafe (c :: rest)
  | tok (t : Str) {rest : Str} (h : t ∈ urlTokens) : UrlSafe rest → UrlSafe (t ++ rest)

/-- The renderer's fixed vocabulary. -/
def commands : List Str :=
  ["\\textbf", "\\textit", "\\sout", "\\includegraphics", "\\href", "\\url", "\\section", "\\subsection",
   "\\subsubsection", "\\documentclass", ""].map String.toList
def environments : List Str :=
  ["document", "displayquote", "lstlisting", "itemize", "enumerate", "tabular"].map String.toList
def literals : List Str :=
  ["\n", "\\newline\n", "article", "\\item ", " & ", " \\\\\n", "\\hline\n", "\n\\hrulefill\n", "[language=", "]\n",
   "l", "c", "r", " ",
   "\\usepackage['normalem']{ulem}\n", "\\usepackage{graphicx}\n", "\\usepackage{hyperref}\n", "\\usepackage{amsmath}\n",
   "\\usepackage{amsfonts}\n", "\\usepackage{amssymb}\n", "\\usepackage{csquotes}\n", "\\usepackage{listings}\n"].map String.toList

/-- One event is admissible. -/
def EvOk : Ev → Prop
  | .op pre => pre ∈ commands
  | .cl => True
  | .bgn e => e ∈ environments
  | .nd e => e ∈ environments
  | .lit s => s ∈ literals
  | .text s => SafeText s
  | .url s => UrlSafe s
  | .verb d s => d ∈ Gen.Chains.verbDelimiters ∧ d ∉ s       -- the chosen delimiter is free
  | .listing _ => True
  | .math _ => True

/-- Brace groups and environments are properly nested. -/
inductive Balanced : List Ev → Prop where
  | nil : Balanced []
  | lit (s) {rest} : Balanced rest → Balanced (.lit s :: rest)
  | text (s) {rest} : Balanced rest → Balanced (.text s :: rest)
  | url (s) {rest} : Balanced rest → Balanced (.url s :: rest)
  | verb (d s) {rest} : Balanced rest → Balanced (.verb d s :: rest)
  | listing (s) {rest} : Balanced rest → Balanced (.listing s :: rest)
  | math (s) {rest} : Balanced rest → Balanced (.math s :: rest)
  | group (pre) {inner rest} : Balanced inner → Balanced rest → Balanced (.op pre :: (inner ++ .cl :: rest))
  | env (e) {inner rest} : Balanced inner → Balanced rest → Balanced (.bgn e :: (inner ++ .nd e :: rest))

def WellFormed (evs : List Ev) : Prop := Balanced evs ∧ ∀ e ∈ evs, EvOk e

end Mistletoe.PredLatex
