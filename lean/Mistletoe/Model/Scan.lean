/-
  Hand-written scanners, one per regular expression the block parser uses.  Each returns exactly
  what the Python call site consumes (match / no match, the groups it reads).  Python's `re`
  engine is not modelled generically; the `scan.*` correspondence units compare every scanner
  with the compiled pattern object of the working tree, exhaustively over small alphabets.

  `ws c` is `\s` (Unicode whitespace, = `str.isspace`); `$` matches at the end of the string or
  just before a final '\n'.
-/
import Mistletoe.Model.Py
namespace Mistletoe.Scan
open Mistletoe Mistletoe.Py

def ws (c : Char) : Bool := pyIsSpace c

/-- `$` at this position: remaining text is `""` or `"\n"`. -/
def atEnd (rest : Str) : Bool := rest == [] || rest == ['\n']

/-- Leading ` {0,3}`: `none` if there are four or more spaces, else (count, rest). -/
def upTo3Spaces (s : Str) : Option (Nat × Str) :=
  let n := countLeading ' ' s
  if n > 3 then none else some (n, s.drop n)

/-- take the maximal prefix satisfying `p`. -/
def span (p : Char → Bool) : Str → Str × Str
  | [] => ([], [])
  | c :: rest => if p c then let (a, b) := span p rest; (c :: a, b) else ([], c :: rest)

/-! ### Heading.pattern  ` {0,3}(#{1,6})(?:\n|\s+?(.*?)(\n|\s+?#+\s*?$))` -/

/-- `\s+?#+\s*?$` at the start of `q`: the matched text, if it matches. -/
def closingSeq (q : Str) : Option Str :=
  let (w, r1) := span ws q
  if w.isEmpty then none else
  let (h, r2) := span (· == '#') r1
  if h.isEmpty then none else
  -- `\s*?$`: minimal whitespace such that the remainder is "" or "\n"
  if !r2.all ws then none else
  if r2.getLast? == some '\n' then some (w ++ h ++ r2.dropLast) else some (w ++ h ++ r2)

/-- lazy `(.*?)` followed by group 3; `acc` is the content so far (reversed). -/
def headingTail : Str → Str → Option (Str × Str)
  | [], acc => match closingSeq [] with | some g3 => some (acc.reverse, g3) | none => none
  | c :: rest, acc =>
    if c = '\n' then some (acc.reverse, ['\n'])
    else match closingSeq (c :: rest) with
      | some g3 => some (acc.reverse, g3)
      | none => headingTail rest (c :: acc)

structure HeadingMatch where
  level : Nat
  g2 : Option Str
  g3 : Option Str
  deriving Repr, DecidableEq

def heading (line : Str) : Option HeadingMatch :=
  match upTo3Spaces line with
  | none => none
  | some (_, r) =>
    let (h, r1) := span (· == '#') r
    if h.length < 1 || h.length > 6 then none else
    match r1 with
    | '\n' :: _ => some { level := h.length, g2 := none, g3 := none }
    | c :: r2 =>
      if ws c then
        match headingTail r2 [] with
        | some (g2, g3) => some { level := h.length, g2 := some g2, g3 := some g3 }
        | none => none
      else none
    | [] => none

/-! ### Paragraph.setext_pattern  ` {0,3}(=+|-+) *$` -/
def setext (line : Str) : Bool :=
  match upTo3Spaces line with
  | none => false
  | some (_, r) =>
    -- a run of `=` or a run of `-`, not a mixture (the pinned pattern `(=|-)+` accepted `=-`; repaired in /repo)
    let (u, r1) := if r.head? == some '=' then span (· == '=') r else span (· == '-') r
    if u.isEmpty then false else
    let (_, r2) := span (· == ' ') r1
    atEnd r2

/-! ### CodeFence.pattern  `( {0,3})(`{3,}|~{3,})( *(\S*)[^\n]*)` -/
structure FenceMatch where
  prepend : Nat
  leader : Str
  info : Str         -- group 3
  lang : Str         -- group 4
  deriving Repr, DecidableEq

def codeFence (line : Str) : Option FenceMatch :=
  match upTo3Spaces line with
  | none => none
  | some (n, r) =>
    match r with
    | [] => none
    | c :: _ =>
      if c != '`' && c != '~' then none else
      let (f, r1) := span (· == c) r
      if f.length < 3 then none else
      let (info, _) := span (· != '\n') r1
      let (_, i1) := span (· == ' ') info
      let (lang, _) := span (fun c => !ws c) i1
      some { prepend := n, leader := f, info := info, lang := lang }

/-! ### List.pattern / ListItem.pattern -/

/-- `\d{1,9}[.)]|[+\-*]` at the start: (marker, rest). -/
def listMarker (r : Str) : Option (Str × Str) :=
  match r with
  | [] => none
  | c :: rest =>
    if c == '+' || c == '-' || c == '*' then some ([c], rest) else
    let (d, r1) := span isDigit r
    if d.length < 1 || d.length > 9 then none else
    match r1 with
    | e :: r2 => if e == '.' || e == ')' then some (d ++ [e], r2) else none
    | [] => none

/-- List.pattern ` {0,3}(?:\d{1,9}[.)]|[+\-*])(?:[ \t]*$|[ \t]+)` -/
def listStart (line : Str) : Bool :=
  match upTo3Spaces line with
  | none => false
  | some (_, r) =>
    match listMarker r with
    | none => false
    | some (_, r1) =>
      let (sp, r2) := span (fun c => c == ' ' || c == '\t') r1
      atEnd r2 || !sp.isEmpty

structure ItemMatch where
  g1 : Str      -- leading spaces
  g2 : Str      -- marker
  g3 : Str      -- `$` (empty) or `\s+`
  rest : Str    -- line[m.end(0):]
  deriving Repr, DecidableEq

/-- ListItem.pattern `( {0,3})(\d{1,9}[.)]|[+\-*])($|\s+)` -/
def listItem (line : Str) : Option ItemMatch :=
  match upTo3Spaces line with
  | none => none
  | some (n, r) =>
    match listMarker r with
    | none => none
    | some (m, r1) =>
      if atEnd r1 then some { g1 := List.replicate n ' ', g2 := m, g3 := [], rest := r1 } else
      let (w, r2) := span ws r1
      if w.isEmpty then none else some { g1 := List.replicate n ' ', g2 := m, g3 := w, rest := r2 }

/-! ### ListItem.continuation_pattern  `([ \t]*)(\S.*\n|\n)` -/
def continuation (line : Str) : Option (Str × Str) :=
  let (sp, r) := span (fun c => c == ' ' || c == '\t') line
  match r with
  | '\n' :: _ => some (sp, ['\n'])
  | c :: rest =>
    if ws c then none else
    let (body, r2) := span (· != '\n') rest
    match r2 with
    | '\n' :: _ => some (sp, c :: body ++ ['\n'])
    | _ => none
  | [] => none

/-! ### ThematicBreak.pattern  ` {0,3}(?:([-_*])\s*?)(?:\1\s*?){2,}$` -/
def thematicBreak (line : Str) : Bool :=
  match upTo3Spaces line with
  | none => false
  | some (_, r) =>
    match r with
    | [] => false
    | c :: _ =>
      (c == '-' || c == '_' || c == '*') && r.all (fun d => d == c || ws d) && count c r ≥ 3

/-! ### Table.delimiter_row_pattern (fullmatch) and column_align_pattern (findall) -/

/-- `:?-+:?` at the start: (matched, rest). -/
def alignCol (s : Str) : Option (Str × Str) :=
  let (c1, r) := match s with | ':' :: r => ([':'], r) | _ => ([], s)
  let (d, r1) := span (· == '-') r
  if d.isEmpty then none else
  match r1 with
  | ':' :: r2 => some (c1 ++ d ++ [':'], r2)
  | _ => some (c1 ++ d, r1)

/-- after a column: `\s*(\|\s*COL\s*)*\|?\s*` to the end. -/
def delimRest : Nat → Str → Bool
  | 0, _ => false
  | fuel + 1, s =>
    let (_, r) := span ws s
    match r with
    | [] => true
    | '|' :: r1 =>
      let (_, r2) := span ws r1
      match alignCol r2 with
      | some (_, r3) => delimRest fuel r3
      | none => r2.isEmpty
    | _ => false

/-- `\s*\|?\s*:?-+:?\s*(\|\s*:?-+:?\s*)*\|?\s*` fullmatch -/
def delimiterRow (line : Str) : Bool :=
  let (_, r) := span ws line
  let r1 := match r with | '|' :: x => x | _ => r
  let (_, r2) := span ws r1
  match alignCol r2 with
  | some (_, r3) => delimRest (line.length + 1) r3
  | none => false

/-- `column_align_pattern.findall(row)` -/
def alignCols : Nat → Str → List Str
  | 0, _ => []
  | _, [] => []
  | fuel + 1, c :: rest =>
    match alignCol (c :: rest) with
    | some (m, r) => m :: alignCols fuel r
    | none => alignCols fuel rest

def findAligns (row : Str) : List Str := alignCols (row.length + 1) row

/-! ### HtmlBlock patterns -/

def isAlpha (c : Char) : Bool := ('a' ≤ c && c ≤ 'z') || ('A' ≤ c && c ≤ 'Z')
def isAlnum (c : Char) : Bool := isAlpha c || ('0' ≤ c && c ≤ '9')

/-- HtmlBlock.multiblock `<(pre|script|style|textarea)[ >\n]` : the tag name. -/
def multiblock (s : Str) : Option Str :=
  match s with
  | '<' :: r =>
    (["pre", "script", "style", "textarea"].map String.toList).find? (fun t =>
      t.isPrefixOf r && (match r.drop t.length with | c :: _ => c == ' ' || c == '>' || c == '\n' | [] => false))
  | _ => none

/-- lazy `(.+?)` of HtmlBlock.predefined: shortest non-empty run (no '\n') followed by `/?>`,
    ' ' or '\n'. -/
def predefTail : Str → Str → Option Str
  | [], _ => none
  | c :: rest, acc =>
    if c = '\n' then none else
    let acc' := c :: acc
    match rest with
    | '>' :: _ => some acc'.reverse
    | ' ' :: _ => some acc'.reverse
    | '\n' :: _ => some acc'.reverse
    | '/' :: '>' :: _ => some acc'.reverse
    | _ => predefTail rest acc'

/-- HtmlBlock.predefined `<\/?(.+?)(?:\/?>|[ \n])` : group 1. -/
def predefined (s : Str) : Option Str :=
  match s with
  | '<' :: '/' :: r =>
    -- `\/?` is greedy: first with the slash consumed, then (on failure) without
    match predefTail r [] with
    | some g => some g
    | none => predefTail ('/' :: r) []
  | '<' :: r => predefTail r []
  | _ => none

def nameStart (c : Char) : Bool := isAlpha c || c == '_' || c == ':'
def nameChar (c : Char) : Bool := isAlnum c || c == '_' || c == '.' || c == ':' || c == '-'
def unquotedChar (c : Char) : Bool :=
  !ws c && c != '"' && c != '\'' && c != '=' && c != '<' && c != '>' && c != '`'

/-- `(?:\s*=\s*(?:[^\s"'=<>`]+|'[^']*?'|"[^\"]*?"))?` : rest after the optional value. -/
def attrValue (s : Str) : Str :=
  let (_, r) := span ws s
  match r with
  | '=' :: r1 =>
    let (_, r2) := span ws r1
    match r2 with
    | '\'' :: r3 =>
      let (_, r4) := span (· != '\'') r3
      (match r4 with | '\'' :: r5 => r5 | _ => s)
    | '"' :: r3 =>
      let (_, r4) := span (· != '"') r3
      (match r4 with | '"' :: r5 => r5 | _ => s)
    | _ =>
      let (v, r3) := span unquotedChar r2
      if v.isEmpty then s else r3
  | _ => s

/-- the attribute loop `(?:\s+name(value)?)*` : rest after the attributes. -/
def attrs : Nat → Str → Str
  | 0, s => s
  | fuel + 1, s =>
    let (w, r) := span ws s
    if w.isEmpty then s else
    match r with
    | c :: _ =>
      if nameStart c then
        let (_, r1) := span nameChar r
        attrs fuel (attrValue r1)
      else s
    | [] => s

/-- `_open_tag` anchored at the start (`<tag attrs \s*/?>`): rest after it. -/
def openTag (s : Str) : Option Str :=
  match s with
  | '<' :: c :: r =>
    if !isAlpha c then none else
    let (_, r1) := span (fun d => isAlnum d || d == '-') r
    let r2 := attrs (s.length + 1) r1
    let (_, r3) := span ws r2
    let r4 := match r3 with | '/' :: x => x | _ => r3
    (match r4 with | '>' :: r5 => some r5 | _ => none)
  | _ => none

/-- `_closing_tag` anchored at the start (`</tag\s*>`): rest after it. -/
def closingTag (s : Str) : Option Str :=
  match s with
  | '<' :: '/' :: c :: r =>
    if !isAlpha c then none else
    let (_, r1) := span (fun d => isAlnum d || d == '-') r
    let (_, r2) := span ws r1
    (match r2 with | '>' :: r3 => some r3 | _ => none)
  | _ => none

/-- HtmlBlock.custom_tag `(?:open|closing)\s*$` match. -/
def customTag (s : Str) : Bool :=
  let fin (r : Str) : Bool := r.all ws        -- `\s*$`: only whitespace remains
  (match openTag s with | some r => fin r | none => false)
  || (match closingTag s with | some r => fin r | none => false)

/-! ### MarkdownRenderer BlankLine.pattern `\s*\n$` -/
def blankLine (line : Str) : Bool :=
  -- `\s*` greedy then backtrack so that '\n' then `$` follow: the line is all whitespace and
  -- ends with '\n' (possibly followed by one more '\n')
  line.all ws && (line.getLast? == some '\n')

end Mistletoe.Scan
