/-
  Model of mistletoe/ast_renderer.py `get_ast(token)` over a generic view of a token:
  class name, the instance attributes among `content` / `footnotes` that are in `vars(token)`,
  the `(name, value)` pairs of `token.repr_attributes`, the `header` attribute if the instance has
  one, and `children` (None or a list).
-/
import Mistletoe.Model.Basic
namespace Mistletoe.AstJson

/-- JSON-like values (`json.dumps` input). -/
inductive JVal where
  | null
  | bool (b : Bool)
  | num (n : Int)
  | str (s : Str)
  | arr (xs : List JVal)
  | obj (kvs : List (Str × JVal))
  deriving Repr, Inhabited

/-- Generic token. `header` holds zero or one token; `kids = none` is Python's `children is None`. -/
inductive GTok where
  | mk (cls : Str) (vars : List (Str × JVal)) (reprAttrs : List (Str × JVal)) (header : List GTok)
       (kids : Option (List GTok))
  deriving Repr, Inhabited

def GTok.cls : GTok → Str
  | .mk c _ _ _ _ => c
def GTok.kids : GTok → Option (List GTok)
  | .mk _ _ _ _ k => k
def GTok.header : GTok → List GTok
  | .mk _ _ _ h _ => h
def GTok.reprAttrs : GTok → List (Str × JVal)
  | .mk _ _ r _ _ => r
def GTok.vars : GTok → List (Str × JVal)
  | .mk _ v _ _ _ => v

def pickVars (vars : List (Str × JVal)) : List (Str × JVal) :=
  (["content", "footnotes"].map String.toList).filterMap
    (fun k => (vars.find? (fun kv => kv.1 == k)).map (fun kv => (k, kv.2)))

mutual
/-- `get_ast(token)`: dict insertion order as in the Python. -/
def getAst : GTok → JVal
  | .mk cls vars reprAttrs header kids =>
    .obj ([("type".toList, .str cls)] ++ pickVars vars ++ reprAttrs ++ headerField header ++ kidsField kids)
/-- `if 'header' in vars(token): node['header'] = get_ast(token.header)` -/
def headerField : List GTok → List (Str × JVal)
  | [] => []
  | h :: _ => [("header".toList, getAst h)]
/-- `if token.children is not None: node['children'] = [get_ast(child) …]` -/
def kidsField : Option (List GTok) → List (Str × JVal)
  | none => []
  | some ks => [("children".toList, .arr (getAsts ks))]
def getAsts : List GTok → List JVal
  | [] => []
  | t :: ts => getAst t :: getAsts ts
end

/-- Field lookup in an object. -/
def field (k : String) : JVal → Option JVal
  | .obj kvs => (kvs.find? (fun kv => kv.1 == k.toList)).map (·.2)
  | _ => none

end Mistletoe.AstJson
