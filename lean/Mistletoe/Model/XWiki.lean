/-
  Model of mistletoe/contrib/xwiki20_renderer.py (XWiki20Renderer), function for function, over the
  AST of Model/Ast.lean, in the style of Model/Jira.lean.  Every Python operation that can raise is
  an explicit `.err`:

  * `BaseRenderer.render`: `self.render_map[token.__class__.__name__]` — `.err .key` for a class
    without an entry (BlankLine, LinkReferenceDefinitionBlock/LinkReferenceDefinition, Math,
    GithubWiki).  XWikiBlockMacroStart/End ARE in the map (`render_x_wiki_block_macro_start/_end`,
    registered through `localExtras`);
  * `render_table`: `token.header` is one TableRow when present (AST: a list of length ≤ 1; a longer
    list has no Python counterpart: `.err .type`); `render_table_row` applies `render_table_cell` to
    every child (a child that is not a TableCell: `.err .type`);
  * `render_inline_code` / `render_block_code`: `token.children[0]` — the AST keeps the single
    RawText child of InlineCode / BlockCode / CodeFence as `content`, so there is nothing to index;
  * `render_quote`: `token.children[-1] if token.children else None`;
    `render_list_item`: `token.children[0] if token.children else None`;
    `del self.lastChildOfQuotes[-1]` / `del self.firstChildOfListItems[-1]` / `del self.listTokens[-1]`
    follow their own `append`;
  * `render_inner`: `rendered[0]` is read only when `wrap` is set, i.e. behind `len(token.children) > 1`.

  State: `self.listTokens` is passed down as the string `''.join(self.listTokens)` (`lt`; its
  characters are '1' and '*').  `self.firstChildOfListItems[-1]` and `self.lastChildOfQuotes[-1]` are
  only compared by identity with the token being rendered (`_block_eol`), which can hold only for a
  direct child of the innermost list item (its first child) or of the innermost quote (its last
  child): the flag `one` ("one newline").
-/
import Mistletoe.Model.Ast
import Mistletoe.Model.Escape
import Mistletoe.Model.Chars
import Mistletoe.Model.Py
import Mistletoe.Model.Lines
import Mistletoe.Model.InlineScan
namespace Mistletoe.XWiki
open Mistletoe Mistletoe.Escape

/-- `urllib.parse.quote(raw, safe='/#:()*?=%@+,&;')`: unreserved characters and the safe ones are
    kept, every other character is the percent-encoding of its UTF-8 bytes -/
def urlSafe (c : Char) : Bool :=
  ('a' ≤ c && c ≤ 'z') || ('A' ≤ c && c ≤ 'Z') || ('0' ≤ c && c ≤ '9') || "_.-~/#:()*?=%@+,&;".toList.contains c

def escapeUrl (raw : Str) : Str := raw.flatMap (fun c => if urlSafe c then [c] else pctUtf8 c)

/-- `s.replace(cc, '~' + cc)` for the two-character pattern `cc` = `c c`: non-overlapping
    occurrences, left to right -/
def rep2 (c : Char) : Str → Str
  | [] => []
  | [x] => [x]
  | x :: y :: rest => if x == c && y == c then '~' :: c :: c :: rep2 c rest else x :: rep2 c (y :: rest)

/-- `s.replace('~', '~~')` -/
def repTilde (s : Str) : Str := s.flatMap (fun c => if c == '~' then ['~', '~'] else [c])

/-- `render_raw_text(token, escape=True)`: the chain of `str.replace` calls, in order -/
def rawText (s : Str) : Str :=
  rep2 '-' (rep2 '#' (rep2 '/' (rep2 '*' (rep2 ']' (rep2 '[' (repTilde s))))))

mutual
/-- `BaseRenderer.render` on a span token -/
def renderInline : Inline → Res Str
  | .rawText c => .ok (rawText c)
  | .strong _ k => match renderInlines k with
    | .err e => .err e
    | .ok s => .ok ("**".toList ++ s ++ "**".toList)
  | .emphasis _ k => match renderInlines k with
    | .err e => .err e
    | .ok s => .ok ("//".toList ++ s ++ "//".toList)
  | .inlineCode _ _ c => .ok ("{{code}}".toList ++ c ++ "{{/code}}".toList)   -- `render_raw_text(token.children[0], False)`
  | .strikethrough k => match renderInlines k with
    | .err e => .err e
    | .ok s => .ok ("--".toList ++ s ++ "--".toList)
  | .image src _ _ _ _ k => match renderInlines k with      -- `self.render_inner(token)`, result dropped
    | .err e => .err e
    | .ok _ => .ok ("[[image:".toList ++ src ++ "]]".toList)
  | .link target _ _ _ _ k => match renderInlines k with
    | .err e => .err e
    | .ok s => .ok ("[[".toList ++ s ++ ">>".toList ++ escapeUrl target ++ "]]".toList)
  | .autoLink target _ => .ok ("[[".toList ++ escapeUrl target ++ "]]".toList)
  | .escapeSequence c => .ok ('~' :: rawText c)              -- children = [RawText(content)], escaped
  | .lineBreak _ soft => .ok (if soft then [' '] else ['\n'])
  | .htmlSpan c => .ok c
  | .xwikiMacroStart c => .ok (c ++ ['\n'])
  | .xwikiMacroEnd c => .ok ('\n' :: c)
  | .math _ => .err .key
  | .githubWiki _ _ => .err .key
  | .linkRefDef .. => .err .key
/-- `render_inner` on a token whose children are span tokens (`wrap` stays False: for a span token
    `isinstance(token, BlockToken)` fails, for Paragraph/Heading/SetextHeading/TableCell no child is a
    BlockToken and the token is not a ListItem) -/
def renderInlines : List Inline → Res Str
  | [] => .ok []
  | i :: is => match renderInline i with
    | .err e => .err e
    | .ok a => match renderInlines is with
      | .err e => .err e
      | .ok b => .ok (a ++ b)
end

/-- `_block_eol(token)`; `one` = `token is self.firstChildOfListItems[-1] or token is self.lastChildOfQuotes[-1]` -/
def blockEol (one : Bool) : Str := if one then ['\n'] else ['\n', '\n']

/-- `_block_eol(token)[0:-1]` -/
def blockEolCut (one : Bool) : Str := (blockEol one).dropLast

/-- `render_block_code` -/
def codeBlock (one : Bool) (language content : Str) : Str :=
  "{{code".toList ++ (if language.isEmpty then [] else " language=\"".toList ++ language ++ ['"']) ++ "}}\n".toList ++
    content ++ "{{/code}}".toList ++ blockEol one

/-- one line of `render_quote`: `">{}{}".format("" if line.startswith(">") else " ", line)` -/
def quoteLine (line : Str) : Str :=
  '>' :: ((if Py.startsWith ['>'] line then [] else [' ']) ++ line)

/-- `"".join(map(…, inner.splitlines(keepends=True)))` -/
def quoteLines (inner : Str) : Str := ((Lines.pySplitlines inner).map quoteLine).flatten

/-- the test of `render_inner` on a ListItem: some child after the first is not a List -/
def notList : Block → Bool
  | .list .. => false
  | _ => true

/-- the prefix of `render_list_item`: `''.join(self.listTokens)`, plus '.' `if '1' in self.listTokens` -/
def itemPrefix (lt : Str) : Str := lt ++ (if lt.contains '1' then ['.'] else [])

/-- `'{head}(((\n{tail}\n)))\n'.format(head=rendered[0].rstrip(), tail=''.join(rendered[1:]).rstrip())` -/
def wrapped (head tail : Str) : Str := Py.rstrip head ++ "(((\n".toList ++ Py.rstrip tail ++ "\n)))\n".toList

mutual
/-- `BaseRenderer.render` on a block token -/
def renderBlock (lt : Str) (one : Bool) : Block → Res Str
  | .paragraph k _ => match renderInlines k with
    | .err e => .err e
    | .ok s => .ok (s ++ blockEol one)
  | .heading level _ k _ => match renderInlines k with
    | .err e => .err e
    | .ok s => .ok (List.replicate level '=' ++ [' '] ++ s ++ [' '] ++ List.replicate level '=' ++ blockEol one)
  | .setextHeading level _ k _ => match renderInlines k with
    | .err e => .err e
    | .ok s => .ok (List.replicate level '=' ++ [' '] ++ s ++ [' '] ++ List.replicate level '=' ++ blockEol one)
  | .quote kids _ => match renderQuoteKids lt kids with
    | .err e => .err e
    | .ok inner => .ok (quoteLines inner ++ blockEolCut one)
  | .blockCode c _ => .ok (codeBlock one [] c)
  | .codeFence lang _ _ _ c _ => .ok (codeBlock one lang c)
  | .list _ start items _ =>
    -- `if token.start:` is false for `None` and for 0
    let tok := match start with | some n => if n = 0 then '*' else '1' | none => '*'
    match renderBlocks (lt ++ [tok]) items with
    | .err e => .err e
    | .ok inner => .ok (inner ++ blockEolCut one)
  | .listItem _ _ _ _ kids _ => match renderItemKids lt kids with
    | .err e => .err e
    | .ok inner => .ok (itemPrefix lt ++ [' '] ++ Py.rstrip inner ++ ['\n'])
  | .table _ header rows _ =>
    let head : Res Str := match header with
      | [] => .ok []                                    -- `hasattr(token, 'header')` is false
      | [h] => renderRow true h
      | _ :: _ :: _ => .err .type
    match head with
    | .err e => .err e
    | .ok hs => match renderBlocks lt rows with
      | .err e => .err e
      | .ok body => .ok (hs ++ body ++ ['\n'])
  | .tableRow _ cells _ => match renderCells false cells with
    | .err e => .err e
    | .ok s => .ok (s ++ ['\n'])
  | .tableCell _ k _ => match renderInlines k with
    | .err e => .err e
    | .ok s => .ok ('|' :: s)
  | .thematicBreak _ _ => .ok "----\n".toList
  | .htmlBlock c _ => .ok ("{{html wiki=\"true\"}}\n".toList ++ c ++ "\n{{/html}}".toList ++ blockEol one)
  | .blankLine _ => .err .key
  | .linkRefDefBlock _ _ => .err .key
/-- `render_table_row(token, is_header)` called directly -/
def renderRow (hdr : Bool) : Block → Res Str
  | .tableRow _ cells _ => match renderCells hdr cells with
    | .err e => .err e
    | .ok s => .ok (s ++ ['\n'])
  | _ => .err .type
/-- `''.join([self.render_table_cell(child, is_header) for child in token.children])` -/
def renderCells (hdr : Bool) : List Block → Res Str
  | [] => .ok []
  | .tableCell _ k _ :: cs => match renderInlines k with
    | .err e => .err e
    | .ok s => match renderCells hdr cs with
      | .err e => .err e
      | .ok more => .ok ((if hdr then "|=".toList else ['|']) ++ s ++ more)
  | _ :: _ => .err .type
/-- `render_inner` on a block token that is neither a quote nor a list item (none of its children is
    `firstChildOfListItems[-1]` / `lastChildOfQuotes[-1]`; `wrap` stays False) -/
def renderBlocks (lt : Str) : List Block → Res Str
  | [] => .ok []
  | b :: bs => match renderBlock lt false b with
    | .err e => .err e
    | .ok a => match renderBlocks lt bs with
      | .err e => .err e
      | .ok r => .ok (a ++ r)
/-- `render_inner` inside `render_quote`: the last child is `lastChildOfQuotes[-1]` -/
def renderQuoteKids (lt : Str) : List Block → Res Str
  | [] => .ok []
  | [b] => renderBlock lt true b
  | b :: c :: bs => match renderBlock lt false b with
    | .err e => .err e
    | .ok a => match renderQuoteKids lt (c :: bs) with
      | .err e => .err e
      | .ok r => .ok (a ++ r)
/-- `render_inner` inside `render_list_item`: the first child is `firstChildOfListItems[-1]`; the
    rest is wrapped into `(((…)))` when some later child is not a List -/
def renderItemKids (lt : Str) : List Block → Res Str
  | [] => .ok []
  | b :: bs => match renderBlock lt true b with
    | .err e => .err e
    | .ok head => match renderBlocks lt bs with
      | .err e => .err e
      | .ok tail => .ok (if bs.any notList then wrapped head tail else head ++ tail)
end

/-- `XWiki20Renderer().render(doc)` = `render_document` -/
def render (d : Doc) : Res Str := renderBlocks [] d.kids

/-! ## The `find` of the two XWiki macro span tokens

  Standalone scanners in the shape of `Model/InlineScan.lean` (an anchored matcher `prev rest ↦
  (length, group-1 start, group-1 end)` relative to the match start, run by `InlineScan.findIter` =
  `pattern.finditer`).  NOT yet used by `Inline.findOne` / `Inline.build` (which return no candidate for
  these two classes), so `Document.parse` under the XWiki span list never yields the two tokens. -/

/-- Code points matched by `\w` in a `str` pattern (`c.isalnum() or c == '_'`), as inclusive ranges;
    computed from the running interpreter (CPython 3.12 `re`), to be regenerated with the other tables
    of `Gen/Python.lean`. -/
def wordRanges : List (Nat × Nat) := [(48, 57), (65, 90), (95, 95), (97, 122), (170, 170), (178, 179), (181, 181), (185, 186), (188, 190), (192, 214), (216, 246), (248, 705), (710, 721), (736, 740), (748, 748), (750, 750), (880, 884), (886, 887), (890, 893), (895, 895), (902, 902), (904, 906), (908, 908), (910, 929), (931, 1013), (1015, 1153), (1162, 1327), (1329, 1366), (1369, 1369), (1376, 1416), (1488, 1514), (1519, 1522), (1568, 1610), (1632, 1641), (1646, 1647), (1649, 1747), (1749, 1749), (1765, 1766), (1774, 1788), (1791, 1791), (1808, 1808), (1810, 1839), (1869, 1957), (1969, 1969), (1984, 2026), (2036, 2037), (2042, 2042), (2048, 2069), (2074, 2074), (2084, 2084), (2088, 2088), (2112, 2136), (2144, 2154), (2160, 2183), (2185, 2190), (2208, 2249), (2308, 2361), (2365, 2365), (2384, 2384), (2392, 2401), (2406, 2415), (2417, 2432), (2437, 2444), (2447, 2448), (2451, 2472), (2474, 2480), (2482, 2482), (2486, 2489), (2493, 2493), (2510, 2510), (2524, 2525), (2527, 2529), (2534, 2545), (2548, 2553), (2556, 2556), (2565, 2570), (2575, 2576), (2579, 2600), (2602, 2608), (2610, 2611), (2613, 2614), (2616, 2617), (2649, 2652), (2654, 2654), (2662, 2671), (2674, 2676), (2693, 2701), (2703, 2705), (2707, 2728), (2730, 2736), (2738, 2739), (2741, 2745), (2749, 2749), (2768, 2768), (2784, 2785), (2790, 2799), (2809, 2809), (2821, 2828), (2831, 2832), (2835, 2856), (2858, 2864), (2866, 2867), (2869, 2873), (2877, 2877), (2908, 2909), (2911, 2913), (2918, 2927), (2929, 2935), (2947, 2947), (2949, 2954), (2958, 2960), (2962, 2965), (2969, 2970), (2972, 2972), (2974, 2975), (2979, 2980), (2984, 2986), (2990, 3001), (3024, 3024), (3046, 3058), (3077, 3084), (3086, 3088), (3090, 3112), (3114, 3129), (3133, 3133), (3160, 3162), (3165, 3165), (3168, 3169), (3174, 3183), (3192, 3198), (3200, 3200), (3205, 3212), (3214, 3216), (3218, 3240), (3242, 3251), (3253, 3257), (3261, 3261), (3293, 3294), (3296, 3297), (3302, 3311), (3313, 3314), (3332, 3340), (3342, 3344), (3346, 3386), (3389, 3389), (3406, 3406), (3412, 3414), (3416, 3425), (3430, 3448), (3450, 3455), (3461, 3478), (3482, 3505), (3507, 3515), (3517, 3517), (3520, 3526), (3558, 3567), (3585, 3632), (3634, 3635), (3648, 3654), (3664, 3673), (3713, 3714), (3716, 3716), (3718, 3722), (3724, 3747), (3749, 3749), (3751, 3760), (3762, 3763), (3773, 3773), (3776, 3780), (3782, 3782), (3792, 3801), (3804, 3807), (3840, 3840), (3872, 3891), (3904, 3911), (3913, 3948), (3976, 3980), (4096, 4138), (4159, 4169), (4176, 4181), (4186, 4189), (4193, 4193), (4197, 4198), (4206, 4208), (4213, 4225), (4238, 4238), (4240, 4249), (4256, 4293), (4295, 4295), (4301, 4301), (4304, 4346), (4348, 4680), (4682, 4685), (4688, 4694), (4696, 4696), (4698, 4701), (4704, 4744), (4746, 4749), (4752, 4784), (4786, 4789), (4792, 4798), (4800, 4800), (4802, 4805), (4808, 4822), (4824, 4880), (4882, 4885), (4888, 4954), (4969, 4988), (4992, 5007), (5024, 5109), (5112, 5117), (5121, 5740), (5743, 5759), (5761, 5786), (5792, 5866), (5870, 5880), (5888, 5905), (5919, 5937), (5952, 5969), (5984, 5996), (5998, 6000), (6016, 6067), (6103, 6103), (6108, 6108), (6112, 6121), (6128, 6137), (6160, 6169), (6176, 6264), (6272, 6276), (6279, 6312), (6314, 6314), (6320, 6389), (6400, 6430), (6470, 6509), (6512, 6516), (6528, 6571), (6576, 6601), (6608, 6618), (6656, 6678), (6688, 6740), (6784, 6793), (6800, 6809), (6823, 6823), (6917, 6963), (6981, 6988), (6992, 7001), (7043, 7072), (7086, 7141), (7168, 7203), (7232, 7241), (7245, 7293), (7296, 7304), (7312, 7354), (7357, 7359), (7401, 7404), (7406, 7411), (7413, 7414), (7418, 7418), (7424, 7615), (7680, 7957), (7960, 7965), (7968, 8005), (8008, 8013), (8016, 8023), (8025, 8025), (8027, 8027), (8029, 8029), (8031, 8061), (8064, 8116), (8118, 8124), (8126, 8126), (8130, 8132), (8134, 8140), (8144, 8147), (8150, 8155), (8160, 8172), (8178, 8180), (8182, 8188), (8304, 8305), (8308, 8313), (8319, 8329), (8336, 8348), (8450, 8450), (8455, 8455), (8458, 8467), (8469, 8469), (8473, 8477), (8484, 8484), (8486, 8486), (8488, 8488), (8490, 8493), (8495, 8505), (8508, 8511), (8517, 8521), (8526, 8526), (8528, 8585), (9312, 9371), (9450, 9471), (10102, 10131), (11264, 11492), (11499, 11502), (11506, 11507), (11517, 11517), (11520, 11557), (11559, 11559), (11565, 11565), (11568, 11623), (11631, 11631), (11648, 11670), (11680, 11686), (11688, 11694), (11696, 11702), (11704, 11710), (11712, 11718), (11720, 11726), (11728, 11734), (11736, 11742), (11823, 11823), (12293, 12295), (12321, 12329), (12337, 12341), (12344, 12348), (12353, 12438), (12445, 12447), (12449, 12538), (12540, 12543), (12549, 12591), (12593, 12686), (12690, 12693), (12704, 12735), (12784, 12799), (12832, 12841), (12872, 12879), (12881, 12895), (12928, 12937), (12977, 12991), (13312, 19903), (19968, 42124), (42192, 42237), (42240, 42508), (42512, 42539), (42560, 42606), (42623, 42653), (42656, 42735), (42775, 42783), (42786, 42888), (42891, 42954), (42960, 42961), (42963, 42963), (42965, 42969), (42994, 43009), (43011, 43013), (43015, 43018), (43020, 43042), (43056, 43061), (43072, 43123), (43138, 43187), (43216, 43225), (43250, 43255), (43259, 43259), (43261, 43262), (43264, 43301), (43312, 43334), (43360, 43388), (43396, 43442), (43471, 43481), (43488, 43492), (43494, 43518), (43520, 43560), (43584, 43586), (43588, 43595), (43600, 43609), (43616, 43638), (43642, 43642), (43646, 43695), (43697, 43697), (43701, 43702), (43705, 43709), (43712, 43712), (43714, 43714), (43739, 43741), (43744, 43754), (43762, 43764), (43777, 43782), (43785, 43790), (43793, 43798), (43808, 43814), (43816, 43822), (43824, 43866), (43868, 43881), (43888, 44002), (44016, 44025), (44032, 55203), (55216, 55238), (55243, 55291), (63744, 64109), (64112, 64217), (64256, 64262), (64275, 64279), (64285, 64285), (64287, 64296), (64298, 64310), (64312, 64316), (64318, 64318), (64320, 64321), (64323, 64324), (64326, 64433), (64467, 64829), (64848, 64911), (64914, 64967), (65008, 65019), (65136, 65140), (65142, 65276), (65296, 65305), (65313, 65338), (65345, 65370), (65382, 65470), (65474, 65479), (65482, 65487), (65490, 65495), (65498, 65500), (65536, 65547), (65549, 65574), (65576, 65594), (65596, 65597), (65599, 65613), (65616, 65629), (65664, 65786), (65799, 65843), (65856, 65912), (65930, 65931), (66176, 66204), (66208, 66256), (66273, 66299), (66304, 66339), (66349, 66378), (66384, 66421), (66432, 66461), (66464, 66499), (66504, 66511), (66513, 66517), (66560, 66717), (66720, 66729), (66736, 66771), (66776, 66811), (66816, 66855), (66864, 66915), (66928, 66938), (66940, 66954), (66956, 66962), (66964, 66965), (66967, 66977), (66979, 66993), (66995, 67001), (67003, 67004), (67072, 67382), (67392, 67413), (67424, 67431), (67456, 67461), (67463, 67504), (67506, 67514), (67584, 67589), (67592, 67592), (67594, 67637), (67639, 67640), (67644, 67644), (67647, 67669), (67672, 67702), (67705, 67742), (67751, 67759), (67808, 67826), (67828, 67829), (67835, 67867), (67872, 67897), (67968, 68023), (68028, 68047), (68050, 68096), (68112, 68115), (68117, 68119), (68121, 68149), (68160, 68168), (68192, 68222), (68224, 68255), (68288, 68295), (68297, 68324), (68331, 68335), (68352, 68405), (68416, 68437), (68440, 68466), (68472, 68497), (68521, 68527), (68608, 68680), (68736, 68786), (68800, 68850), (68858, 68899), (68912, 68921), (69216, 69246), (69248, 69289), (69296, 69297), (69376, 69415), (69424, 69445), (69457, 69460), (69488, 69505), (69552, 69579), (69600, 69622), (69635, 69687), (69714, 69743), (69745, 69746), (69749, 69749), (69763, 69807), (69840, 69864), (69872, 69881), (69891, 69926), (69942, 69951), (69956, 69956), (69959, 69959), (69968, 70002), (70006, 70006), (70019, 70066), (70081, 70084), (70096, 70106), (70108, 70108), (70113, 70132), (70144, 70161), (70163, 70187), (70207, 70208), (70272, 70278), (70280, 70280), (70282, 70285), (70287, 70301), (70303, 70312), (70320, 70366), (70384, 70393), (70405, 70412), (70415, 70416), (70419, 70440), (70442, 70448), (70450, 70451), (70453, 70457), (70461, 70461), (70480, 70480), (70493, 70497), (70656, 70708), (70727, 70730), (70736, 70745), (70751, 70753), (70784, 70831), (70852, 70853), (70855, 70855), (70864, 70873), (71040, 71086), (71128, 71131), (71168, 71215), (71236, 71236), (71248, 71257), (71296, 71338), (71352, 71352), (71360, 71369), (71424, 71450), (71472, 71483), (71488, 71494), (71680, 71723), (71840, 71922), (71935, 71942), (71945, 71945), (71948, 71955), (71957, 71958), (71960, 71983), (71999, 71999), (72001, 72001), (72016, 72025), (72096, 72103), (72106, 72144), (72161, 72161), (72163, 72163), (72192, 72192), (72203, 72242), (72250, 72250), (72272, 72272), (72284, 72329), (72349, 72349), (72368, 72440), (72704, 72712), (72714, 72750), (72768, 72768), (72784, 72812), (72818, 72847), (72960, 72966), (72968, 72969), (72971, 73008), (73030, 73030), (73040, 73049), (73056, 73061), (73063, 73064), (73066, 73097), (73112, 73112), (73120, 73129), (73440, 73458), (73474, 73474), (73476, 73488), (73490, 73523), (73552, 73561), (73648, 73648), (73664, 73684), (73728, 74649), (74752, 74862), (74880, 75075), (77712, 77808), (77824, 78895), (78913, 78918), (82944, 83526), (92160, 92728), (92736, 92766), (92768, 92777), (92784, 92862), (92864, 92873), (92880, 92909), (92928, 92975), (92992, 92995), (93008, 93017), (93019, 93025), (93027, 93047), (93053, 93071), (93760, 93846), (93952, 94026), (94032, 94032), (94099, 94111), (94176, 94177), (94179, 94179), (94208, 100343), (100352, 101589), (101632, 101640), (110576, 110579), (110581, 110587), (110589, 110590), (110592, 110882), (110898, 110898), (110928, 110930), (110933, 110933), (110948, 110951), (110960, 111355), (113664, 113770), (113776, 113788), (113792, 113800), (113808, 113817), (119488, 119507), (119520, 119539), (119648, 119672), (119808, 119892), (119894, 119964), (119966, 119967), (119970, 119970), (119973, 119974), (119977, 119980), (119982, 119993), (119995, 119995), (119997, 120003), (120005, 120069), (120071, 120074), (120077, 120084), (120086, 120092), (120094, 120121), (120123, 120126), (120128, 120132), (120134, 120134), (120138, 120144), (120146, 120485), (120488, 120512), (120514, 120538), (120540, 120570), (120572, 120596), (120598, 120628), (120630, 120654), (120656, 120686), (120688, 120712), (120714, 120744), (120746, 120770), (120772, 120779), (120782, 120831), (122624, 122654), (122661, 122666), (122928, 122989), (123136, 123180), (123191, 123197), (123200, 123209), (123214, 123214), (123536, 123565), (123584, 123627), (123632, 123641), (124112, 124139), (124144, 124153), (124896, 124902), (124904, 124907), (124909, 124910), (124912, 124926), (124928, 125124), (125127, 125135), (125184, 125251), (125259, 125259), (125264, 125273), (126065, 126123), (126125, 126127), (126129, 126132), (126209, 126253), (126255, 126269), (126464, 126467), (126469, 126495), (126497, 126498), (126500, 126500), (126503, 126503), (126505, 126514), (126516, 126519), (126521, 126521), (126523, 126523), (126530, 126530), (126535, 126535), (126537, 126537), (126539, 126539), (126541, 126543), (126545, 126546), (126548, 126548), (126551, 126551), (126553, 126553), (126555, 126555), (126557, 126557), (126559, 126559), (126561, 126562), (126564, 126564), (126567, 126570), (126572, 126578), (126580, 126583), (126585, 126588), (126590, 126590), (126592, 126601), (126603, 126619), (126625, 126627), (126629, 126633), (126635, 126651), (127232, 127244), (130032, 130041), (131072, 173791), (173824, 177977), (177984, 178205), (178208, 183969), (183984, 191456), (194560, 195101), (196608, 201546), (201552, 205743)]

/-- `\w` -/
def isWord (c : Char) : Bool := inRanges wordRanges c

/-- `\s*\n` at the start of `r` (`\s` = `str.isspace`): greedy `\s*`, given back down to the last '\n'
    of the whitespace run; the length matched -/
def wsNlAux : Str → Nat → Option Nat → Option Nat
  | [], _, last => last
  | c :: rest, i, last =>
    if pyIsSpace c then wsNlAux rest (i + 1) (if c == '\n' then some (i + 1) else last) else last
def wsNl (r : Str) : Option Nat := wsNlAux r 0 none

/-- the lazy `.*?` (no newline) followed by `(?<![\\/])\}\}\s*\n`; `i` = offset of `r` in the match,
    `prev` = the character before `r`.  Returns (end of group 1, length of the match). -/
def startBody : Str → Nat → Char → Option (Nat × Nat)
  | [], _, _ => none
  | c :: rest, i, prev =>
    let here : Option (Nat × Nat) :=
      match c, rest with
      | '}', '}' :: after =>
        if prev != '\\' && prev != '/' then
          (match wsNl after with
           | some n => some (i + 2, i + 2 + n)
           | none => none)
        else none
      | _, _ => none
    match here with
    | some r => some r
    | none => if c == '\n' then none else startBody rest (i + 1) c

/-- XWikiBlockMacroStart.pattern  `(?<!\\)(\{\{\w+.*?(?<![\\/])\}\})\s*\n`  (group 1).
    The greedy `\w+` takes the whole run of word characters (giving some back cannot help: the next
    thing to match after `.*?` is '}', not a word character). -/
def xwikiStartAt (prev : Option Char) (r : Str) : Option (Nat × Nat × Nat) :=
  if prev == some '\\' then none else
  match r with
  | '{' :: '{' :: body =>
    let (w, r1) := Scan.span isWord body
    (match w.getLast? with
     | none => none
     | some lastw =>
       match startBody r1 (2 + w.length) lastw with
       | some (ge, len) => some (len, 0, ge)
       | none => none)
  | _ => none

/-- XWikiBlockMacroEnd.pattern  `^(?:\s*)(\{\{/\w+\}\})`  with re.MULTILINE (group 1): `^` holds at the
    start of the string and after a '\n' -/
def xwikiEndAt (prev : Option Char) (r : Str) : Option (Nat × Nat × Nat) :=
  if !(prev == none || prev == some '\n') then none else
  let (ws, r1) := Scan.span pyIsSpace r
  match r1 with
  | '{' :: '{' :: '/' :: body =>
    let (w, r2) := Scan.span isWord body
    if w.isEmpty then none else
    (match r2 with
     | '}' :: '}' :: _ => some (ws.length + 3 + w.length + 2, ws.length, ws.length + 3 + w.length + 2)
     | _ => none)
  | _ => none

/-- `XWikiBlockMacroStart.find(string)` = `pattern.finditer(string)`; `gs`/`ge` delimit group 1 (`parse_group`) -/
def xwikiStartFind (s : Str) : List InlineScan.M := InlineScan.findIter xwikiStartAt s

/-- `XWikiBlockMacroEnd.find(string)` -/
def xwikiEndFind (s : Str) : List InlineScan.M := InlineScan.findIter xwikiEndAt s

/-- kernel-evaluated instances (the same strings through CPython `re.finditer`) -/
example : xwikiStartFind "a {{info t=\"x\"}}  \n\nb".toList = [{ start := 2, stop := 20, gs := 2, ge := 16 }] := by decide +kernel
example : xwikiEndFind "x\n  {{/info}} y".toList = [{ start := 2, stop := 13, gs := 4, ge := 13 }] := by decide +kernel
example : rawText "a--b [[c]] ~ //".toList = "a~--b ~[[c~]] ~~ ~//".toList := by decide +kernel

end Mistletoe.XWiki
