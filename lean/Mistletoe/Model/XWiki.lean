/-
  Model of mistletoe/contrib/xwiki20_renderer.py (XWiki20Renderer), function for function, over the
  AST of Model/Ast.lean, in the style of Model/Jira.lean.  Every Python operation that can raise is
  an explicit `.err`:

  * `BaseRenderer.render`: `self.render_map[token.__class__.__name__]` — `.err .key` for a class
    without an entry (BlankLine, LinkReferenceDefinitionBlock/LinkReferenceDefinition, Math,
    GithubWiki).  XWikiBlockMacroStart/End ARE in the map (`render_x_wiki_block_macro_start/_end`,
    registered through `localExtras`);
  * `render_table`: `token.header` is one TableRow when present (AST: a list of length ≤ 1; a longer
    list has no Python counterpart: `.err .type`); `render_table_row` applies `render_table_cell` to
    every child (a child that is not a TableCell: `.err .type`);
  * `render_inline_code` / `render_block_code`: `token.children[0]` — the AST keeps the single
    RawText child of InlineCode / BlockCode / CodeFence as `content`, so there is nothing to index;
  * `render_quote`: `token.children[-1] if token.children else None`;
    `render_list_item`: `token.children[0] if token.children else None`;
    `del self.lastChildOfQuotes[-1]` / `del self.firstChildOfListItems[-1]` / `del self.listTokens[-1]`
    follow their own `append`;
  * `render_inner`: `rendered[0]` is read only when `wrap` is set, i.e. behind `len(token.children) > 1`.

  State: `self.listTokens` is passed down as the string `''.join(self.listTokens)` (`lt`; its
  characters are '1' and '*').  `self.firstChildOfListItems[-1]` and `self.lastChildOfQuotes[-1]` are
  only compared by identity with the token being rendered (`_block_eol`), which can hold only for a
  direct child of the innermost list item (its first child) or of the innermost quote (its last
  child): the flag `one` ("one newline").
-/
import Mistletoe.Model.Ast
import Mistletoe.Model.Escape
import Mistletoe.Model.Chars
import Mistletoe.Model.Py
import Mistletoe.Model.Lines
import Mistletoe.Model.InlineScanX
namespace Mistletoe.XWiki
open Mistletoe Mistletoe.Escape

/-- `urllib.parse.quote(raw, safe='/#:()*?=%@+,&;')`: unreserved characters and the safe ones are
    kept, every other character is the percent-encoding of its UTF-8 bytes -/
def urlSafe (c : Char) : Bool :=
  ('a' ≤ c && c ≤ 'z') || ('A' ≤ c && c ≤ 'Z') || ('0' ≤ c && c ≤ '9') || "_.-~/#:()*?=%@+,&;".toList.contains c

def escapeUrl (raw : Str) : Str := raw.flatMap (fun c => if urlSafe c then [c] else pctUtf8 c)

/-- `s.replace(cc, '~' + cc)` for the two-character pattern `cc` = `c c`: non-overlapping
    occurrences, left to right -/
def rep2 (c : Char) : Str → Str
  | [] => []
  | [x] => [x]
  | x :: y :: rest => if x == c && y == c then '~' :: c :: c :: rep2 c rest else x :: rep2 c (y :: rest)

/-- `s.replace('~', '~~')` -/
def repTilde (s : Str) : Str := s.flatMap (fun c => if c == '~' then ['~', '~'] else [c])

/-- `render_raw_text(token, escape=True)`: the chain of `str.replace` calls, in order -/
def rawText (s : Str) : Str :=
  rep2 '-' (rep2 '#' (rep2 '/' (rep2 '*' (rep2 ']' (rep2 '[' (repTilde s))))))

mutual
/-- `BaseRenderer.render` on a span token -/
def renderInline : Inline → Res Str
  | .rawText c => .ok (rawText c)
  | .strong _ k => match renderInlines k with
    | .err e => .err e
    | .ok s => .ok ("**".toList ++ s ++ "**".toList)
  | .emphasis _ k => match renderInlines k with
    | .err e => .err e
    | .ok s => .ok ("//".toList ++ s ++ "//".toList)
  | .inlineCode _ _ c => .ok ("{{code}}".toList ++ c ++ "{{/code}}".toList)   -- `render_raw_text(token.children[0], False)`
  | .strikethrough k => match renderInlines k with
    | .err e => .err e
    | .ok s => .ok ("--".toList ++ s ++ "--".toList)
  | .image src _ _ _ _ k => match renderInlines k with      -- `self.render_inner(token)`, result dropped
    | .err e => .err e
    | .ok _ => .ok ("[[image:".toList ++ src ++ "]]".toList)
  | .link target _ _ _ _ k => match renderInlines k with
    | .err e => .err e
    | .ok s => .ok ("[[".toList ++ s ++ ">>".toList ++ escapeUrl target ++ "]]".toList)
  | .autoLink target _ => .ok ("[[".toList ++ escapeUrl target ++ "]]".toList)
  | .escapeSequence c => .ok ('~' :: rawText c)              -- children = [RawText(content)], escaped
  | .lineBreak _ soft => .ok (if soft then [' '] else ['\n'])
  | .htmlSpan c => .ok c
  | .xwikiMacroStart c => .ok (c ++ ['\n'])
  | .xwikiMacroEnd c => .ok ('\n' :: c)
  | .math _ => .err .key
  | .githubWiki _ _ => .err .key
  | .linkRefDef .. => .err .key
/-- `render_inner` on a token whose children are span tokens (`wrap` stays False: for a span token
    `isinstance(token, BlockToken)` fails, for Paragraph/Heading/SetextHeading/TableCell no child is a
    BlockToken and the token is not a ListItem) -/
def renderInlines : List Inline → Res Str
  | [] => .ok []
  | i :: is => match renderInline i with
    | .err e => .err e
    | .ok a => match renderInlines is with
      | .err e => .err e
      | .ok b => .ok (a ++ b)
end

/-- `_block_eol(token)`; `one` = `token is self.firstChildOfListItems[-1] or token is self.lastChildOfQuotes[-1]` -/
def blockEol (one : Bool) : Str := if one then ['\n'] else ['\n', '\n']

/-- `_block_eol(token)[0:-1]` -/
def blockEolCut (one : Bool) : Str := (blockEol one).dropLast

/-- `render_block_code` -/
def codeBlock (one : Bool) (language content : Str) : Str :=
  "{{code".toList ++ (if language.isEmpty then [] else " language=\"".toList ++ language ++ ['"']) ++ "}}\n".toList ++
    content ++ "{{/code}}".toList ++ blockEol one

/-- one line of `render_quote`: `">{}{}".format("" if line.startswith(">") else " ", line)` -/
def quoteLine (line : Str) : Str :=
  '>' :: ((if Py.startsWith ['>'] line then [] else [' ']) ++ line)

/-- `"".join(map(…, inner.splitlines(keepends=True)))` -/
def quoteLines (inner : Str) : Str := ((Lines.pySplitlines inner).map quoteLine).flatten

/-- the test of `render_inner` on a ListItem: some child after the first is not a List -/
def notList : Block → Bool
  | .list .. => false
  | _ => true

/-- the prefix of `render_list_item`: `''.join(self.listTokens)`, plus '.' `if '1' in self.listTokens` -/
def itemPrefix (lt : Str) : Str := lt ++ (if lt.contains '1' then ['.'] else [])

/-- `'{head}(((\n{tail}\n)))\n'.format(head=rendered[0].rstrip(), tail=''.join(rendered[1:]).rstrip())` -/
def wrapped (head tail : Str) : Str := Py.rstrip head ++ "(((\n".toList ++ Py.rstrip tail ++ "\n)))\n".toList

mutual
/-- `BaseRenderer.render` on a block token -/
def renderBlock (lt : Str) (one : Bool) : Block → Res Str
  | .paragraph k _ => match renderInlines k with
    | .err e => .err e
    | .ok s => .ok (s ++ blockEol one)
  | .heading level _ k _ => match renderInlines k with
    | .err e => .err e
    | .ok s => .ok (List.replicate level '=' ++ [' '] ++ s ++ [' '] ++ List.replicate level '=' ++ blockEol one)
  | .setextHeading level _ k _ => match renderInlines k with
    | .err e => .err e
    | .ok s => .ok (List.replicate level '=' ++ [' '] ++ s ++ [' '] ++ List.replicate level '=' ++ blockEol one)
  | .quote kids _ => match renderQuoteKids lt kids with
    | .err e => .err e
    | .ok inner => .ok (quoteLines inner ++ blockEolCut one)
  | .blockCode c _ => .ok (codeBlock one [] c)
  | .codeFence lang _ _ _ c _ => .ok (codeBlock one lang c)
  | .list _ start items _ =>
    -- `if token.start:` is false for `None` and for 0
    let tok := match start with | some n => if n = 0 then '*' else '1' | none => '*'
    match renderBlocks (lt ++ [tok]) items with
    | .err e => .err e
    | .ok inner => .ok (inner ++ blockEolCut one)
  | .listItem _ _ _ _ kids _ => match renderItemKids lt kids with
    | .err e => .err e
    | .ok inner => .ok (itemPrefix lt ++ [' '] ++ Py.rstrip inner ++ ['\n'])
  | .table _ header rows _ =>
    let head : Res Str := match header with
      | [] => .ok []                                    -- `hasattr(token, 'header')` is false
      | [h] => renderRow true h
      | _ :: _ :: _ => .err .type
    match head with
    | .err e => .err e
    | .ok hs => match renderBlocks lt rows with
      | .err e => .err e
      | .ok body => .ok (hs ++ body ++ ['\n'])
  | .tableRow _ cells _ => match renderCells false cells with
    | .err e => .err e
    | .ok s => .ok (s ++ ['\n'])
  | .tableCell _ k _ => match renderInlines k with
    | .err e => .err e
    | .ok s => .ok ('|' :: s)
  | .thematicBreak _ _ => .ok "----\n".toList
  | .htmlBlock c _ => .ok ("{{html wiki=\"true\"}}\n".toList ++ c ++ "\n{{/html}}".toList ++ blockEol one)
  | .blankLine _ => .err .key
  | .linkRefDefBlock _ _ => .err .key
/-- `render_table_row(token, is_header)` called directly -/
def renderRow (hdr : Bool) : Block → Res Str
  | .tableRow _ cells _ => match renderCells hdr cells with
    | .err e => .err e
    | .ok s => .ok (s ++ ['\n'])
  | _ => .err .type
/-- `''.join([self.render_table_cell(child, is_header) for child in token.children])` -/
def renderCells (hdr : Bool) : List Block → Res Str
  | [] => .ok []
  | .tableCell _ k _ :: cs => match renderInlines k with
    | .err e => .err e
    | .ok s => match renderCells hdr cs with
      | .err e => .err e
      | .ok more => .ok ((if hdr then "|=".toList else ['|']) ++ s ++ more)
  | _ :: _ => .err .type
/-- `render_inner` on a block token that is neither a quote nor a list item (none of its children is
    `firstChildOfListItems[-1]` / `lastChildOfQuotes[-1]`; `wrap` stays False) -/
def renderBlocks (lt : Str) : List Block → Res Str
  | [] => .ok []
  | b :: bs => match renderBlock lt false b with
    | .err e => .err e
    | .ok a => match renderBlocks lt bs with
      | .err e => .err e
      | .ok r => .ok (a ++ r)
/-- `render_inner` inside `render_quote`: the last child is `lastChildOfQuotes[-1]` -/
def renderQuoteKids (lt : Str) : List Block → Res Str
  | [] => .ok []
  | [b] => renderBlock lt true b
  | b :: c :: bs => match renderBlock lt false b with
    | .err e => .err e
    | .ok a => match renderQuoteKids lt (c :: bs) with
      | .err e => .err e
      | .ok r => .ok (a ++ r)
/-- `render_inner` inside `render_list_item`: the first child is `firstChildOfListItems[-1]`; the
    rest is wrapped into `(((…)))` when some later child is not a List -/
def renderItemKids (lt : Str) : List Block → Res Str
  | [] => .ok []
  | b :: bs => match renderBlock lt true b with
    | .err e => .err e
    | .ok head => match renderBlocks lt bs with
      | .err e => .err e
      | .ok tail => .ok (if bs.any notList then wrapped head tail else head ++ tail)
end

/-- `XWiki20Renderer().render(doc)` = `render_document` -/
def render (d : Doc) : Res Str := renderBlocks [] d.kids

/-! ## The `find` of the two XWiki macro span tokens

  The scanners live in `Model/InlineScanX.lean` (so that `Model/Inline.lean` can use them in
  `Inline.findOne`); re-exported here under their old names. -/
export Mistletoe.InlineScanX (wordRanges isWord wsNlAux wsNl startBody xwikiStartAt xwikiEndAt xwikiStartFind xwikiEndFind)

/-- kernel-evaluated instances (the same strings through CPython `re.finditer`) -/
example : xwikiStartFind "a {{info t=\"x\"}}  \n\nb".toList = [{ start := 2, stop := 20, gs := 2, ge := 16 }] := by decide +kernel
example : xwikiEndFind "x\n  {{/info}} y".toList = [{ start := 2, stop := 13, gs := 4, ge := 13 }] := by decide +kernel
example : rawText "a--b [[c]] ~ //".toList = "a~--b ~[[c~]] ~~ ~//".toList := by decide +kernel

end Mistletoe.XWiki
