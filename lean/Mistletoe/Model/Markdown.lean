/-
  Model of mistletoe/markdown_renderer.py: `MarkdownRenderer(max_line_length=…, normalize_whitespace=…)
  .render(doc)`, function for function.

  Span tokens are rendered into flat sequences of `Wrap.Fragment`s (`renderInline` = the `render_*`
  method the render map selects for a span token, `renderInlines` = `make_fragments`); block tokens
  into sequences of lines (`renderBlock` = the `render_*` method for a block token, `renderBlocks` =
  `blocks_to_lines`).  The line-assembly core (`fragments_to_lines`, `make_words`, `prefix_lines`, the
  child budgets) is `Model/Wrap.lean`.

  Raise sites (all explicit `Res` errors):
  * `self.render_map[token.__class__.__name__]` — `KeyError` for a token class without an entry
    (Math, GithubWiki, the XWiki macro tokens) → `err .key`;
  * a `TableRow` / `TableCell` reached through the generic dispatch: the render map holds
    `BaseRenderer.render_table_row` / `render_table_cell`, which do not accept the keyword argument
    `max_line_length` → `TypeError` → `err .type`;
  * `Fragment(None)` for a `title_delimiter` / `label` that is `None` where the renderer spells it:
    `"\n" in None` (plain mode) or `word += None` / `re.split(None)` (wrapping) → `TypeError` → `err .type`;
  * `token.header` of a Table constructed without a header → `AttributeError`; the model's `Err` has no
    such kind: `err .type` (the driver reports only "raises").

  Two deliberate simplifications, both outside the range of the parser (and the second outside what the
  exporter `harness/export.py` accepts, so it cannot be observed through the harness):
  * Python builds the fragment sequence with generators, and `render_heading` / `table_row_to_text`
    consume only the first line (`next(…, "")`); an exception that a token located after the first
    line break of a heading or table cell would raise is therefore never reached in Python.  The model
    evaluates the whole fragment sequence and raises.  (The parser never puts a line break into a heading
    or a table cell, and never produces the raising tokens under MarkdownRenderer's token lists.)
  * a Table whose `header`/`children` are not TableRows of TableCells is `err .type` (Python would duck-type
    through any `children` attribute).
-/
import Mistletoe.Model.Ast
import Mistletoe.Model.Wrap
namespace Mistletoe.Markdown
open Mistletoe Mistletoe.Wrap

/-- Constructor arguments of `MarkdownRenderer`. -/
structure Opts where
  maxLineLength : Option Int := none
  normalizeWhitespace : Bool := false
  deriving Repr, DecidableEq, Inhabited

/-- `Fragment(text)` -/
def frag (s : Str) : Fragment := { text := s }
/-- `Fragment(text, wordwrap=True)` -/
def fragW (s : Str) : Fragment := { text := s, wordwrap := true }

/-- The closing character of a title: `")" if title_delimiter == "(" else title_delimiter`. -/
def closeDelim (d : Str) : Str := if d = ['('] then [')'] else d

/-- The `if token.title: yield from (…)` part shared by `render_link_or_image` and
    `render_link_reference_definition`. -/
def titleFrags (title : Str) (titleDelim : Option Str) : Res (List Fragment) :=
  if title.isEmpty then .ok []
  else match titleDelim with
    | none => .err .type
    | some d => .ok [fragW [' '], frag d, fragW title, frag (closeDelim d)]

/-- The part of `render_link_or_image` after the bracketed description. -/
def linkTail (target title : Str) (dt : DestType) (label titleDelim : Option Str) : Res (List Fragment) :=
  match dt with
  | .uri =>
    match titleFrags title titleDelim with
    | .err e => .err e
    | .ok tf => .ok ([frag ['('], frag target] ++ tf ++ [frag [')']])
  | .angleUri =>
    match titleFrags title titleDelim with
    | .err e => .err e
    | .ok tf => .ok ([frag ['('], frag (['<'] ++ target ++ ['>'])] ++ tf ++ [frag [')']])
  | .full =>
    match label with
    | none => .err .type
    | some l => .ok [frag ['['], fragW l, frag [']']]
  | .collapsed => .ok [frag ['[', ']']]
  | .shortcut => .ok []
  | .none => .ok []

/-- `embed_span(leader, tokens, trailer)` once the fragments of `tokens` are known. -/
def embed (leader : Fragment) (inner : List Fragment) (trailer : Fragment) : List Fragment :=
  leader :: (inner ++ [trailer])

mutual
/-- `self.render_map[token.__class__.__name__](token)` for a span token. -/
def renderInline : Inline → Res (List Fragment)
  | .rawText c => .ok [fragW c]
  | .strong d k =>
    match renderInlines k with
    | .err e => .err e
    | .ok fs => .ok (embed (frag (d ++ d)) fs (frag (d ++ d)))
  | .emphasis d k =>
    match renderInlines k with
    | .err e => .err e
    | .ok fs => .ok (embed (frag d) fs (frag d))
  | .inlineCode d p c => .ok (embed (frag (d ++ p)) [fragW c] (frag (p ++ d)))
  | .strikethrough k =>
    match renderInlines k with
    | .err e => .err e
    | .ok fs => .ok (embed (frag ['~', '~']) fs (frag ['~', '~']))
  | .image src title dt label td k =>
    match renderInlines k with
    | .err e => .err e
    | .ok fs =>
      match linkTail src title dt label td with
      | .err e => .err e
      | .ok tl => .ok (frag ['!'] :: (embed (frag ['[']) fs (frag [']']) ++ tl))
  | .link target title dt label td k =>
    match renderInlines k with
    | .err e => .err e
    | .ok fs =>
      match linkTail target title dt label td with
      | .err e => .err e
      | .ok tl => .ok (embed (frag ['[']) fs (frag [']']) ++ tl)
  | .autoLink t _ => .ok [frag (['<'] ++ t ++ ['>'])]
  | .escapeSequence c => .ok [frag ('\\' :: c)]
  | .lineBreak c soft => .ok [{ text := c ++ ['\n'], wordwrap := soft, hardLineBreak := !soft }]
  | .htmlSpan c => .ok [frag c]
  | .math _ => .err .key
  | .githubWiki _ _ => .err .key
  | .xwikiMacroStart _ => .err .key
  | .xwikiMacroEnd _ => .err .key
  | .linkRefDef label dest title dt td =>
    match titleFrags title td with
    | .err e => .err e
    | .ok tf =>
      .ok ([frag ['['], fragW label, fragW [']', ':', ' '],
            frag (if dt = .angleUri then ['<'] ++ dest ++ ['>'] else dest)] ++ tf)
/-- `make_fragments(tokens)` -/
def renderInlines : List Inline → Res (List Fragment)
  | [] => .ok []
  | i :: is =>
    match renderInline i with
    | .err e => .err e
    | .ok f =>
      match renderInlines is with
      | .err e => .err e
      | .ok fs => .ok (f ++ fs)
end

/-- `span_to_lines(tokens, max_line_length)` -/
def spanToLines (k : List Inline) (maxLen : Option Int) : Res (List Str) :=
  match renderInlines k with
  | .err e => .err e
  | .ok fs => .ok (fragmentsToLines fs maxLen)

/-- `next(self.span_to_lines(tokens, max_line_length=None), "")` -/
def firstLine (k : List Inline) : Res Str :=
  match spanToLines k none with
  | .err e => .err e
  | .ok [] => .ok []
  | .ok (l :: _) => .ok l

/-- `" " * n` -/
def spaces (n : Nat) : Str := List.replicate n ' '

/-! ### Table helpers -/

/-- one element of `table_row_to_text`: the first line of a cell's inline content -/
def cellText : Block → Res Str
  | .tableCell _ k _ => firstLine k
  | _ => .err .type

def cellsText : List Block → Res (List Str)
  | [] => .ok []
  | c :: cs =>
    match cellText c with
    | .err e => .err e
    | .ok t =>
      match cellsText cs with
      | .err e => .err e
      | .ok ts => .ok (t :: ts)

/-- `table_row_to_text(row)` -/
def rowText : Block → Res (List Str)
  | .tableRow _ cells _ => cellsText cells
  | _ => .err .type

def rowsText : List Block → Res (List (List Str))
  | [] => .ok []
  | r :: rs =>
    match rowText r with
    | .err e => .err e
    | .ok t =>
      match rowsText rs with
      | .err e => .err e
      | .ok ts => .ok (t :: ts)

/-- one iteration of the outer loop of `calculate_table_column_widths` (MINIMUM_COLUMN_WIDTH = 3) -/
def widenRow : List Nat → List Str → List Nat
  | ws, [] => ws
  | [], t :: ts => max 3 t.length :: widenRow [] ts
  | w :: ws, t :: ts => max w t.length :: widenRow ws ts

/-- `calculate_table_column_widths(col_text)` -/
def colWidths (rows : List (List Str)) : List Nat := rows.foldl widenRow []

/-- `col_align[index] if index < len(col_align) else None`, and the remaining alignments -/
def alignAt : List (Option Nat) → Option Nat × List (Option Nat)
  | [] => (none, [])
  | a :: as => (a, as)

/-- `table_separator_line_to_text(col_widths, col_align)` -/
def sepTexts : List Nat → List (Option Nat) → List Str
  | [], _ => []
  | w :: ws, as =>
    let (a, rest) := alignAt as
    ((if a = some 0 then [':'] else ['-']) ++ List.replicate (w - 2) '-'
      ++ (if a = some 0 ∨ a = some 1 then [':'] else ['-'])) :: sepTexts ws rest

/-- `"{0: <{w}}"`, `"{0: ^{w}}"`, `"{0: >{w}}"` `.format(text, w=width)` by alignment -/
def padCell (text : Str) (w : Nat) (a : Option Nat) : Str :=
  let pad := w - text.length
  match a with
  | none => text ++ spaces pad
  | some 0 => spaces (pad / 2) ++ text ++ spaces (pad - pad / 2)
  | some _ => spaces pad ++ text

/-- the `padded_text` list of `table_row_to_line` -/
def padRow : List Nat → List Str → List (Option Nat) → List Str
  | [], _, _ => []
  | w :: ws, ts, as =>
    let (a, arest) := alignAt as
    match ts with
    | [] => padCell [] w a :: padRow ws [] arest
    | t :: trest => padCell t w a :: padRow ws trest arest

/-- `" | ".join(parts)` -/
def joinBar : List Str → Str
  | [] => []
  | [x] => x
  | x :: rest => x ++ [' ', '|', ' '] ++ joinBar rest

/-- `table_row_to_line(col_text, col_widths, col_align)` -/
def rowLine (ws : List Nat) (as : List (Option Nat)) (ts : List Str) : Str :=
  ['|', ' '] ++ joinBar (padRow ws ts as) ++ [' ', '|']

/-- `render_table` once the cell texts are known -/
def tableLines (as : List (Option Nat)) (header : List Str) (rows : List (List Str)) : List Str :=
  let ws := colWidths (header :: [] :: rows)
  rowLine ws as header :: rowLine ws as (sepTexts ws as) :: rows.map (rowLine ws as)

/-- `lines = token.content[:-1].split("\n")` -/
def codeLines (content : Str) : List Str := splitNl content.dropLast

/-- `render_link_reference_definition_block`: each definition starts on a new line -/
def defLines (maxLen : Option Int) : List Inline → Res (List Str)
  | [] => .ok []
  | d :: ds =>
    match spanToLines [d] maxLen with
    | .err e => .err e
    | .ok ls =>
      match defLines maxLen ds with
      | .err e => .err e
      | .ok more => .ok (ls ++ more)

mutual
/-- `self.render_map[token.__class__.__name__](token, max_line_length=maxLen)` for a block token. -/
def renderBlock (o : Opts) (maxLen : Option Int) : Block → Res (List Str)
  | .paragraph k _ => spanToLines k maxLen
  | .heading level closing k _ =>
    -- no word wrapping: only the first line of the content is used
    match firstLine k with
    | .err e => .err e
    | .ok text =>
      .ok [List.replicate level '#' ++ (if text.isEmpty then [] else ' ' :: text)
            ++ (if closing.isEmpty then [] else ' ' :: closing)]
  | .setextHeading _ underline k _ =>
    match spanToLines k maxLen with
    | .err e => .err e
    | .ok ls => .ok (ls ++ [underline])
  | .quote kids _ =>
    -- `lines or [""]`: `lines` is a generator object, always truthy
    match renderBlocks o (childBudget maxLen 2) kids with
    | .err e => .err e
    | .ok ls => .ok (prefixLines ls ['>', ' '] none)
  | .blockCode c _ => .ok (prefixLines (codeLines c) (spaces 4) none)
  | .codeFence _ ind d info c _ =>
    .ok ((spaces ind ++ d ++ info)
          :: ((if c.isEmpty then [] else prefixLines (codeLines c) (spaces ind) none) ++ [spaces ind ++ d]))
  | .list _ _ items _ => renderBlocks o maxLen items
  | .listItem leader ind pre _ kids _ =>
    let prepend := if o.normalizeWhitespace then leader.length + 1 else pre
    let indentation := if o.normalizeWhitespace then 0 else ind
    match renderBlocks o (childBudget maxLen prepend) kids with
    | .err e => .err e
    | .ok ls =>
      .ok (prefixLines (if ls.isEmpty then [[]] else ls)
            (spaces indentation ++ leader ++ spaces (prepend - leader.length - indentation))
            (some (spaces prepend)))
  | .table ca header rows _ =>
    match header with
    | [] => .err .type                 -- AttributeError: 'Table' object has no attribute 'header'
    | h :: _ =>
      match rowText h with
      | .err e => .err e
      | .ok ht =>
        match rowsText rows with
        | .err e => .err e
        | .ok rt => .ok (tableLines ca ht rt)
  | .tableRow .. => .err .type
  | .tableCell .. => .err .type
  | .thematicBreak line _ => .ok [line]
  | .htmlBlock c _ => .ok (splitNl c)
  | .blankLine _ => .ok [[]]
  | .linkRefDefBlock defs _ => defLines maxLen defs
/-- `blocks_to_lines(tokens, max_line_length)` -/
def renderBlocks (o : Opts) (maxLen : Option Int) : List Block → Res (List Str)
  | [] => .ok []
  | b :: bs =>
    match renderBlock o maxLen b with
    | .err e => .err e
    | .ok ls =>
      match renderBlocks o maxLen bs with
      | .err e => .err e
      | .ok more => .ok (ls ++ more)
end

/-- `"".join(map(lambda line: line + "\n", lines))` -/
def joinLines : List Str → Str
  | [] => []
  | l :: ls => l ++ ['\n'] ++ joinLines ls

/-- `MarkdownRenderer(**opts).render(doc)`; raising is explicit. -/
def renderRes (o : Opts) (d : Doc) : Res Str :=
  match renderBlocks o o.maxLineLength d.kids with
  | .err e => .err e
  | .ok ls => .ok (joinLines ls)

/-- Output string of `MarkdownRenderer(**opts).render(doc)`; the empty string where the Python raises
    (use `renderRes` to distinguish; `render_ok` style theorems state when that cannot happen). -/
def render (o : Opts) (d : Doc) : Str :=
  match renderRes o d with
  | .ok s => s
  | .err _ => []

end Mistletoe.Markdown
