/-
  Python `str` methods used by the block parser, over `List Char`.  Each is a small total
  structural function; `py.*` correspondence units compare them with CPython.
-/
import Mistletoe.Model.Chars
namespace Mistletoe.Py
open Mistletoe

/-- `s.lstrip(' ')`. -/
def lstripSp : Str → Str
  | ' ' :: rest => lstripSp rest
  | s => s

/-- `s.lstrip()`. -/
def lstrip : Str → Str
  | [] => []
  | c :: rest => if pyIsSpace c then lstrip rest else c :: rest

/-- `s.rstrip()`. -/
def rstrip (s : Str) : Str := (lstrip s.reverse).reverse

/-- `s.strip()`. -/
def strip (s : Str) : Str := rstrip (lstrip s)

/-- `s.strip() == ''`. -/
def isBlank (s : Str) : Bool := s.all pyIsSpace

/-- `s.lstrip(c)` / `s.rstrip(c)` / `s.strip(c)` for one character. -/
def lstripChar (ch : Char) : Str → Str
  | [] => []
  | c :: rest => if c = ch then lstripChar ch rest else c :: rest
def rstripChar (ch : Char) (s : Str) : Str := (lstripChar ch s.reverse).reverse
def stripChar (ch : Char) (s : Str) : Str := rstripChar ch (lstripChar ch s)

/-- `s.rstrip(cs)` for a set of characters. -/
def rstripSet (cs : List Char) (s : Str) : Str := (s.reverse.dropWhile (fun c => cs.contains c)).reverse

/-- number of leading characters equal to `ch`. -/
def countLeading (ch : Char) : Str → Nat
  | [] => 0
  | c :: rest => if c = ch then countLeading ch rest + 1 else 0

def startsWith (p s : Str) : Bool := p.isPrefixOf s

/-- `s.replace(pat, rep, 1)` for a one- or two-character pattern (all the block parser uses). -/
def replaceFirst (pat rep : Str) : Str → Str
  | [] => []
  | c :: rest => if pat.isPrefixOf (c :: rest) && !pat.isEmpty then rep ++ (c :: rest).drop pat.length
                 else c :: replaceFirst pat rep rest

/-- `s.split(ch, 1)`: `none` if `ch` does not occur, else (before, after). -/
def splitOnce (ch : Char) : Str → Option (Str × Str)
  | [] => none
  | c :: rest =>
    if c = ch then some ([], rest)
    else match splitOnce ch rest with
      | some (a, b) => some (c :: a, b)
      | none => none

/-- `sub in s` for a non-empty `sub`. -/
def isInfix (sub : Str) : Str → Bool
  | [] => sub.isEmpty
  | c :: rest => sub.isPrefixOf (c :: rest) || isInfix sub rest

/-- `s.count(ch)`. -/
def count (ch : Char) (s : Str) : Nat := (s.filter (· == ch)).length

/-- `s.expandtabs(4)`; `col` is the current column (reset by '\n' and '\r'). -/
def expandtabsAux : Str → Nat → Str
  | [], _ => []
  | c :: rest, col =>
    if c = '\t' then
      let n := 4 - col % 4
      List.replicate n ' ' ++ expandtabsAux rest (col + n)
    else if c = '\n' || c = '\r' then c :: expandtabsAux rest 0
    else c :: expandtabsAux rest (col + 1)
def expandtabs (s : Str) : Str := expandtabsAux s 0

/-- `\d` / `isdigit` on regex-matched marker text: Unicode decimal digits. -/
def isDigit (c : Char) : Bool := inRanges Gen.Python.decimalDigits c

/-- value of a decimal digit character (`int(c)`). -/
def digitVal (c : Char) : Nat :=
  match Gen.Python.decimalDigits.find? (fun r => r.1 ≤ c.toNat && c.toNat ≤ r.2) with
  | some r => (c.toNat - r.1) % 10
  | none => 0

/-- `int(s)` for a string of decimal digits. -/
def parseNat (s : Str) : Nat := s.foldl (fun n c => n * 10 + digitVal c) 0

def isUpper (c : Char) : Bool := inRanges Gen.Python.isupper c

/-- `s.split()`: maximal runs of non-whitespace. -/
def splitWsAux : Str → Str → List Str
  | [], cur => if cur.isEmpty then [] else [cur.reverse]
  | c :: rest, cur =>
    if pyIsSpace c then (if cur.isEmpty then splitWsAux rest [] else cur.reverse :: splitWsAux rest [])
    else splitWsAux rest (c :: cur)
def splitWs (s : Str) : List Str := splitWsAux s []

/-- `''.join(lines)`. -/
def concat (ls : List Str) : Str := ls.flatten

end Mistletoe.Py
