/-
  `Document(lines)`: the block phase (`Model/Block.lean`), the definitions table
  (`Footnote.append_footnotes`), then `block_tokenizer.make_tokens`: the block token constructors of
  block_token.py, which start the inline phase (`Model/Inline.lean`) on each leaf's content.
-/
import Mistletoe.Model.Block
import Mistletoe.Model.Inline
import Mistletoe.Model.Lines
namespace Mistletoe.Document
open Mistletoe Mistletoe.Py Mistletoe.Scan Mistletoe.Block Mistletoe.Inline

structure Cfg where
  block : Block.Cfg
  span : List STok

/-- `Footnote.append_footnotes` for every definition, in call order (first wins); dest and title go
    through `EscapeSequence.strip` under the *stdlib* character-reference regex (block phase) -/
def footnotesOf (defs : List FnMatch) : Footnotes.Table :=
  Footnotes.footnotesOf (defs.map (fun m => (m.label, Unescape.escStrip false (strip m.dest), Unescape.escStrip false m.title)))

/-- `'\n'.join(parts)` -/
def joinNl : List Str → Str
  | [] => []
  | [x] => x
  | x :: rest => x ++ ['\n'] ++ joinNl rest

/-- `s.strip('\n')` -/
def stripNl (s : Str) : Str := stripChar '\n' s

/-- `Table.parse_align(column)`; `err .index` for an empty column -/
def parseAlign (col : Str) : Res (Option Nat) :=
  match col.head?, col.getLast? with
  | some h, some l => .ok (if l == ':' then (if h == ':' then some 0 else some 1) else none)
  | _, _ => .err .index

/-- `TableRow.split_pattern.split(line)`: split at every `|` not preceded by a backslash -/
def splitPipes : Str → Option Char → Str → List Str
  | [], _, cur => [cur.reverse]
  | c :: rest, prev, cur =>
    if c == '|' && prev != some '\\' then cur.reverse :: splitPipes rest (some c) []
    else splitPipes rest (some c) (c :: cur)

/-- `escaped_pipe_pattern.sub('\\1|', cell)`:  `(?<!\\)(\\\\)*\\\|` -/
def unescapePipes : Nat → Option Char → Str → Str
  | 0, _, s => s
  | _, _, [] => []
  | fuel + 1, prev, c :: rest =>
    let k := countLeading '\\' (c :: rest)
    if prev != some '\\' && k % 2 == 1 && ((c :: rest).drop k).head? == some '|' then
      (if k ≥ 3 then ['\\', '\\'] else []) ++ ['|'] ++ unescapePipes fuel (some '|') ((c :: rest).drop (k + 1))
    else c :: unescapePipes fuel (some c) rest

/-- the cell contents of `TableRow.__init__` paired with their alignment (`zip_longest`) -/
def zipLongest : List Str → List (Option Nat) → List (Option Str × Option Nat)
  | [], as => as.map (fun a => (none, a))        -- structural on the cells, so the kernel can evaluate it
  | c :: cs, [] => (some c, none) :: zipLongest cs []
  | c :: cs, a :: as => (some c, a) :: zipLongest cs as

section
variable (cfg : Cfg) (fn : Footnotes.Table)

def inl (s : Str) : Res (List Inline) := tokenizeInner cfg.span fn s

/-- `TableRow(line, row_align, line_number)` -/
def tableRow (line : Str) (rowAlign : List (Option Nat)) (ln : Nat) : Res Mistletoe.Block :=
  let align := if rowAlign.isEmpty then [none] else rowAlign
  let cells := (splitPipes (strip line) none []).filter (fun c => !c.isEmpty)
  let rec go : List (Option Str × Option Nat) → Res (List Mistletoe.Block)
    | [] => .ok []
    | (c, a) :: rest =>
      let content := match c with
        | some cell => let t := strip cell; unescapePipes (t.length + 1) none t
        | none => []
      match inl cfg fn content with
      | .err e => .err e
      | .ok kids => match go rest with
        | .err e => .err e
        | .ok more => .ok (.tableCell a kids ln :: more)
  match go (zipLongest cells align) with
  | .err e => .err e
  | .ok cs => .ok (.tableRow align cs ln)

def tableRows : List Str → List (Option Nat) → Nat → Res (List Mistletoe.Block)
  | [], _, _ => .ok []
  | l :: rest, align, ln =>
    match tableRow cfg fn l align ln with
    | .err e => .err e
    | .ok r => match tableRows rest align (ln + 1) with
      | .err e => .err e
      | .ok more => .ok (r :: more)

def mapRes {α β} (f : α → Res β) : List α → Res (List β)
  | [] => .ok []
  | x :: xs => match f x with
    | .err e => .err e
    | .ok y => match mapRes f xs with
      | .err e => .err e
      | .ok ys => .ok (y :: ys)

def linkRefDef (m : FnMatch) : Inline :=
  .linkRefDef m.label m.dest m.title (DestTypeOf m.destType) (m.titleDelim.map (fun c => [c]))

mutual
/-- `token_type(result)` + `token.line_number = line_number` for one parse-buffer entry;
    `none` = the constructor returned None (Footnote) -/
def mkBlock : Entry → Res (Option Mistletoe.Block)
  | .blockCode ls ln _ => .ok (some (.blockCode (stripNl ls.flatten ++ ['\n']) ln))
  | .heading lvl content closing ln _ =>
    (match inl cfg fn content with
     | .err e => .err e
     | .ok kids => .ok (some (.heading lvl closing kids ln)))
  | .quote inner _ ln _ =>
    (match mkBlocks inner with
     | .err e => .err e
     | .ok kids => .ok (some (.quote kids ln)))
  | .codeFence ls prepend leader info lang ln _ =>
    .ok (some (.codeFence (Unescape.escStrip false lang) prepend leader info ls.flatten ln))
  | .thematicBreak line ln _ => .ok (some (.thematicBreak (stripNl line) ln))
  | .list items ln _ =>
    (match mkItems items with
     | .err e => .err e
     | .ok its =>
       match items with
       | [] => .err .index                       -- `self.children[0].leader`
       | .mk _ _ _ _ leader _ _ :: _ =>
         let loose := its.any (fun b => match b with | .listItem _ _ _ l _ _ => l | _ => false)
         let start := if leader.length != 1 then some (parseNat leader.dropLast) else none
         .ok (some (.list loose start its ln)))
  | .table lines startLine ln _ =>
    (match lines with
     | l0 :: l1 :: rest =>
       -- `if '-' in lines[1]` (always true after Table.read)
       if l1.contains '-' then
         match mapRes parseAlign (findAligns l1) with
         | .err e => .err e
         | .ok align =>
           match tableRow cfg fn l0 align startLine with
           | .err e => .err e
           | .ok header =>
             match tableRows cfg fn rest align (startLine + 2) with
             | .err e => .err e
             | .ok rows => .ok (some (.table align [header] rows ln))
       else
         match tableRows cfg fn lines [] startLine with
         | .err e => .err e
         | .ok rows => .ok (some (.table [none] [] rows ln))
     | _ => .err .index)
  | .footnote _ _ _ => .ok none
  | .linkRefDefs ms ln _ => .ok (some (.linkRefDefBlock (ms.map linkRefDef) ln))
  | .paragraph lines ln _ =>
    (match inl cfg fn (strip (lines.map lstrip).flatten) with
     | .err e => .err e
     | .ok kids => .ok (some (.paragraph kids ln)))
  | .setext lines ln _ =>
    (match lines.getLast? with
     | none => .err .index                        -- `lines.pop()`
     | some last =>
       let underline := rstrip last
       let level := if underline.getLast? == some '=' then 1 else 2
       match inl cfg fn (joinNl (lines.dropLast.map strip)) with
       | .err e => .err e
       | .ok kids => .ok (some (.setextHeading level underline kids ln)))
  | .htmlBlock lines ln _ => .ok (some (.htmlBlock (rstripChar '\n' lines.flatten) ln))
  | .blankLine ln _ => .ok (some (.blankLine ln))
/-- `block_tokenizer.make_tokens(parse_buffer)` -/
def mkBlocks : List Entry → Res (List Mistletoe.Block)
  | [] => .ok []
  | e :: es =>
    match mkBlock e with
    | .err er => .err er
    | .ok b =>
      match mkBlocks es with
      | .err er => .err er
      | .ok bs => .ok (match b with | some x => x :: bs | none => bs)
/-- `ListItem(parse_buffer, indentation, prepend, leader, line_number)` -/
def mkItems : List Item → Res (List Mistletoe.Block)
  | [] => .ok []
  | .mk inner loose ind pre leader ln _ :: rest =>
    match mkBlocks inner with
    | .err e => .err e
    | .ok kids =>
      match mkItems rest with
      | .err e => .err e
      | .ok more => .ok (.listItem leader ind pre loose kids ln :: more)
end
end

/-- `Document(lines)` for lines already normalised by `Document.__init__` -/
def parseLines (cfg : Cfg) (gas : Nat) (lines : List Str) : Res Doc :=
  match blockPhase cfg.block gas lines with
  | .err e => .err e
  | .ok (buf, st) =>
    let fn := footnotesOf st.defs
    match mkBlocks cfg fn buf.entries with
    | .err e => .err e
    | .ok kids => .ok { kids := kids, footnotes := fn }

/-- `Document(text)` for a `str` -/
def parse (cfg : Cfg) (gas : Nat) (text : Str) : Res Doc :=
  parseLines cfg gas (Lines.normalize (.str text))

end Mistletoe.Document
