/-
  Model of mistletoe/contrib/jira_renderer.py (JiraRenderer), function for function, over the AST of
  Model/Ast.lean.  Every Python operation that can raise is an explicit `.err`:

  * `BaseRenderer.render`: `self.render_map[token.__class__.__name__]` — `.err .key` for a class
    without an entry (BlankLine, LinkReferenceDefinitionBlock/LinkReferenceDefinition, Math,
    GithubWiki, XWikiBlockMacroStart/End);
  * `render_table`: `token.header` is one TableRow when present (AST: a list of length ≤ 1; a longer
    list has no Python counterpart: `.err .type`); `render_table_row` applies `render_table_cell` to
    every child (a child that is not a TableCell: `.err .type`);
  * `render_block_code`: `token.children[0]` — the AST keeps the single RawText child of
    BlockCode/CodeFence as `content`, so there is nothing to index;
  * `render_quote`: `token.children[-1] if token.children else None`, `token.children[0]` behind
    `len(token.children) == 1`; `del self.lastChildOfQuotes[-1]` / `del self.listTokens[-1]` follow
    their own `append`.

  State: `self.listTokens` is passed down as the string `''.join(self.listTokens)` (`lt`);
  `self.lastChildOfQuotes[-1]` is only compared by identity with the token being rendered, which can
  hold only for a direct child of the innermost quote: the flag `isLast`.
-/
import Mistletoe.Model.Ast
import Mistletoe.Model.Escape
import Mistletoe.Model.Chars
namespace Mistletoe.Jira
open Mistletoe Mistletoe.Escape

/-- `urllib.parse.quote(raw, safe='/#:()*?=%@+,&;')`: unreserved characters and the safe ones are
    kept, every other character is the percent-encoding of its UTF-8 bytes -/
def urlSafe (c : Char) : Bool :=
  ('a' ≤ c && c ≤ 'z') || ('A' ≤ c && c ≤ 'Z') || ('0' ≤ c && c ≤ '9') || "_.-~/#:()*?=%@+,&;".toList.contains c

def escapeUrl (raw : Str) : Str := raw.flatMap (fun c => if urlSafe c then [c] else pctUtf8 c)

/-- the character class `[{}\[\]\-*_+^~]` -/
def escChar (c : Char) : Bool := "{}[]-*_+^~".toList.contains c

/-- `re.sub(re_find, repl, content)` for `(^E$)|((?<=\S)(E))|((E)(?=\S))`: every match is one
    character, so each position is decided on the original string: a special character is escaped
    if a non-whitespace character precedes or follows it -/
def escGo : Option Char → Str → Str
  | _, [] => []
  | prev, c :: rest =>
    let before := match prev with | some p => !pyIsSpace p | none => false
    let after := match rest with | n :: _ => !pyIsSpace n | [] => false
    (if escChar c && (before || after) then ['\\', c] else [c]) ++ escGo (some c) rest

/-- `render_raw_text(token, escape=True)`; the first alternative `^E$` matches a string that is one
    special character, optionally followed by a final newline -/
def rawText (s : Str) : Str :=
  match s with
  | [c] => if escChar c then ['\\', c] else [c]
  | [c, '\n'] => if escChar c then ['\\', c, '\n'] else [c, '\n']
  | _ => escGo none s

/-- `'{level}'.format(level=n)` -/
def natStr (n : Nat) : Str := (toString n).toList

mutual
/-- `BaseRenderer.render` on a span token -/
def renderInline : Inline → Res Str
  | .rawText c => .ok (rawText c)
  | .strong _ k => match renderInlines k with
    | .err e => .err e
    | .ok s => .ok (['*'] ++ s ++ ['*'])
  | .emphasis _ k => match renderInlines k with
    | .err e => .err e
    | .ok s => .ok (['_'] ++ s ++ ['_'])
  | .inlineCode _ _ c => .ok ("{{".toList ++ rawText c ++ "}}".toList)      -- children = [RawText(content)], escaped
  | .strikethrough k => match renderInlines k with
    | .err e => .err e
    | .ok s => .ok (['-'] ++ s ++ ['-'])
  | .image src _ _ _ _ k => match renderInlines k with      -- `self.render_inner(token)`, result dropped
    | .err e => .err e
    | .ok _ => .ok (['!'] ++ src ++ ['!'])
  | .link target title _ _ _ k => match renderInlines k with
    | .err e => .err e
    | .ok s => .ok (['['] ++ s ++ ['|'] ++ escapeUrl target ++ (if title.isEmpty then [] else '|' :: title) ++ [']'])
  | .autoLink target _ => .ok (['['] ++ escapeUrl target ++ [']'])
  | .escapeSequence c => .ok (rawText c)                     -- children = [RawText(content)]
  | .lineBreak _ soft => .ok (if soft then [' '] else "\\\\\n".toList)
  | .htmlSpan c => .ok c
  | .math _ => .err .key
  | .githubWiki _ _ => .err .key
  | .xwikiMacroStart _ => .err .key
  | .xwikiMacroEnd _ => .err .key
  | .linkRefDef .. => .err .key
/-- `render_inner` on a token whose children are span tokens -/
def renderInlines : List Inline → Res Str
  | [] => .ok []
  | i :: is => match renderInline i with
    | .err e => .err e
    | .ok a => match renderInlines is with
      | .err e => .err e
      | .ok b => .ok (a ++ b)
end

/-- `_block_eol(token)`; `lt` = joined `self.listTokens`, `isLast` = `token is self.lastChildOfQuotes[-1]` -/
def blockEol (lt : Str) (isLast : Bool) : Str := if !lt.isEmpty || isLast then ['\n'] else ['\n', '\n']

/-- `_block_eol(token)[0:-1]` -/
def blockEolCut (lt : Str) (isLast : Bool) : Str := (blockEol lt isLast).dropLast

def codeBlock (lt : Str) (isLast : Bool) (language content : Str) : Str :=
  "{code".toList ++ (if language.isEmpty then [] else ':' :: language) ++ "}\n".toList ++ content ++ "{code}".toList ++ blockEol lt isLast

mutual
/-- `BaseRenderer.render` on a block token -/
def renderBlock (lt : Str) (isLast : Bool) : Block → Res Str
  | .paragraph k _ => match renderInlines k with
    | .err e => .err e
    | .ok s => .ok (s ++ blockEol lt isLast)
  | .heading level _ k _ => match renderInlines k with
    | .err e => .err e
    | .ok s => .ok (['h'] ++ natStr level ++ ". ".toList ++ s ++ blockEol lt isLast)
  | .setextHeading level _ k _ => match renderInlines k with
    | .err e => .err e
    | .ok s => .ok (['h'] ++ natStr level ++ ". ".toList ++ s ++ blockEol lt isLast)
  | .quote kids _ => match renderQuoteKids lt kids with
    | .err e => .err e
    | .ok inner =>
      match kids with
      | [.paragraph _ _] => .ok ("bq. ".toList ++ inner ++ blockEolCut lt isLast)
      | _ => .ok ("{quote}\n".toList ++ inner ++ "{quote}".toList ++ blockEol lt isLast)
  | .blockCode c _ => .ok (codeBlock lt isLast [] c)
  | .codeFence lang _ _ _ c _ => .ok (codeBlock lt isLast lang c)
  | .list _ start items _ =>
    -- `if token.start:` is false for `None` and for 0
    let tok := match start with | some n => if n = 0 then '*' else '#' | none => '*'
    match renderBlocks (lt ++ [tok]) items with
    | .err e => .err e
    | .ok inner => .ok (inner ++ blockEolCut lt isLast)
  | .listItem _ _ _ _ kids _ => match renderBlocks lt kids with
    | .err e => .err e
    | .ok inner => .ok (lt ++ [' '] ++ inner)
  | .table _ header rows _ =>
    let head : Res Str := match header with
      | [] => .ok []                                    -- `hasattr(token, 'header')` is false
      | [h] => renderRow lt true h
      | _ :: _ :: _ => .err .type
    match head with
    | .err e => .err e
    | .ok hs => match renderBlocks lt rows with
      | .err e => .err e
      | .ok body => .ok (hs ++ body ++ ['\n'])
  | .tableRow _ cells _ => match renderCells lt false cells with
    | .err e => .err e
    | .ok s => .ok (s ++ "|\n".toList)
  | .tableCell _ k _ => match renderInlines k with
    | .err e => .err e
    | .ok s => .ok (['|'] ++ (if s.isEmpty then [' '] else s))
  | .thematicBreak _ _ => .ok "----\n".toList
  | .htmlBlock c _ => .ok c
  | .blankLine _ => .err .key
  | .linkRefDefBlock _ _ => .err .key
/-- `render_table_row(token, is_header)` called directly -/
def renderRow (lt : Str) (hdr : Bool) : Block → Res Str
  | .tableRow _ cells _ => match renderCells lt hdr cells with
    | .err e => .err e
    | .ok s => .ok (s ++ (if hdr then "||\n".toList else "|\n".toList))
  | _ => .err .type
/-- `''.join([self.render_table_cell(child, is_header) for child in token.children])` -/
def renderCells (lt : Str) (hdr : Bool) : List Block → Res Str
  | [] => .ok []
  | .tableCell _ k _ :: cs => match renderInlines k with
    | .err e => .err e
    | .ok s => match renderCells lt hdr cs with
      | .err e => .err e
      | .ok more => .ok ((if hdr then "||".toList else ['|']) ++ (if s.isEmpty then [' '] else s) ++ more)
  | _ :: _ => .err .type
/-- `render_inner`: the children of a token that is not a quote (none of them is
    `lastChildOfQuotes[-1]`) -/
def renderBlocks (lt : Str) : List Block → Res Str
  | [] => .ok []
  | b :: bs => match renderBlock lt false b with
    | .err e => .err e
    | .ok a => match renderBlocks lt bs with
      | .err e => .err e
      | .ok r => .ok (a ++ r)
/-- `render_inner` inside `render_quote`: the last child is `lastChildOfQuotes[-1]` -/
def renderQuoteKids (lt : Str) : List Block → Res Str
  | [] => .ok []
  | [b] => renderBlock lt true b
  | b :: c :: bs => match renderBlock lt false b with
    | .err e => .err e
    | .ok a => match renderQuoteKids lt (c :: bs) with
      | .err e => .err e
      | .ok r => .ok (a ++ r)
end

/-- `JiraRenderer().render(doc)` = `render_document` -/
def render (d : Doc) : Res Str := renderBlocks [] d.kids

end Mistletoe.Jira
