/-
  Model of the link-reference-definition table: `core_tokens.normalize_label`,
  `Footnote.append_footnotes` (first definition wins) and the lookup done by
  `match_link_label` / `get_link_label`.
-/
import Mistletoe.Model.Chars
namespace Mistletoe.Footnotes
open Mistletoe

/-- `str.split()` (no argument): the maximal runs of non-whitespace characters. -/
def pySplitAux : Str → Str → List Str
  | [], cur => if cur.isEmpty then [] else [cur.reverse]
  | c :: rest, cur =>
    if pyIsSpace c then (if cur.isEmpty then pySplitAux rest [] else cur.reverse :: pySplitAux rest [])
    else pySplitAux rest (c :: cur)
def pySplit (s : Str) : List Str := pySplitAux s []

/-- `' '.join(words)`. -/
def joinSp : List Str → Str
  | [] => []
  | [w] => w
  | w :: rest => w ++ [' '] ++ joinSp rest

/-- `str.casefold` of one character (table regenerated from the interpreter). -/
def casefoldChar (c : Char) : Str :=
  match Gen.Python.casefold.find? (fun e => e.1 == c.toNat) with
  | some e => e.2.map Char.ofNat
  | none => [c]

def casefold (s : Str) : Str := s.flatMap casefoldChar

/-- `normalize_label(text) = ' '.join(text.split()).casefold()`. -/
def normalizeLabel (s : Str) : Str := casefold (joinSp (pySplit s))

/-- A definition as `Footnote.read` hands it to `append_footnotes`: (label, dest, title), with dest
    and title already unescaped. -/
abbrev Def := Str × Str × Str

/-- `root.footnotes`: insertion-ordered dict `key ↦ (dest, title)`. -/
abbrev Table := List (Str × Str × Str)

def lookup (t : Table) (key : Str) : Option (Str × Str) :=
  (t.find? (fun e => e.1 == key)).map (·.2)

/-- `if key not in root.footnotes: root.footnotes[key] = dest, title` -/
def addDef (t : Table) (d : Def) : Table :=
  let key := normalizeLabel d.1
  if (lookup t key).isSome then t else t ++ [(key, d.2.1, d.2.2)]

/-- All `append_footnotes` calls of a parse, in call order. -/
def footnotesOf (defs : List Def) : Table := defs.foldl addDef []

/-- What a reference with label `lbl` resolves to. -/
def resolve (t : Table) (lbl : Str) : Option (Str × Str) := lookup t (normalizeLabel lbl)

end Mistletoe.Footnotes
