/-
  Model of `Document.__init__`'s input normalisation (block_token.py):

      if isinstance(lines, str): lines = lines.splitlines(keepends=True)
      lines = [line if line.endswith('\n') else '{}\n'.format(line) for line in lines]

  and of the three ways a text reaches it: as one `str`, as a list of lines, as an open text file
  (iteration over a text-mode file yields the pieces that end after each '\n').
-/
import Mistletoe.Model.Chars
namespace Mistletoe.Lines

/-- `str.splitlines(keepends=True)`; `acc` is the current line, reversed. -/
def splitlinesAux : Str → Str → List Str
  | [], acc => if acc.isEmpty then [] else [acc.reverse]
  | c :: rest, acc =>
    if c = '\r' then
      match rest with
      | '\n' :: rest' => ('\n' :: '\r' :: acc).reverse :: splitlinesAux rest' []
      | r => ('\r' :: acc).reverse :: splitlinesAux r []
    else if isLineSep c then (c :: acc).reverse :: splitlinesAux rest []
    else splitlinesAux rest (c :: acc)

def pySplitlines (s : Str) : List Str := splitlinesAux s []

/-- The pieces of a text that end after each '\n' (what iterating a text file yields, and the
    "list of lines" form of a text). -/
def splitKeepLfAux : Str → Str → List Str
  | [], acc => if acc.isEmpty then [] else [acc.reverse]
  | c :: rest, acc =>
    if c = '\n' then (c :: acc).reverse :: splitKeepLfAux rest []
    else splitKeepLfAux rest (c :: acc)

def splitKeepLf (s : Str) : List Str := splitKeepLfAux s []

/-- `line if line.endswith('\n') else line + '\n'`. -/
def complete (l : Str) : Str := if endsWithNl l then l else l ++ ['\n']

/-- The ways a document can be supplied. -/
inductive Input where
  | str (text : Str)
  | list (lines : List Str)
  | file (text : Str)        -- an open text file whose decoded content is `text`

/-- The line list handed to the block tokenizer. -/
def normalize : Input → List Str
  | .str t => (pySplitlines t).map complete
  | .list ls => ls.map complete
  | .file t => (splitKeepLf t).map complete

end Mistletoe.Lines
