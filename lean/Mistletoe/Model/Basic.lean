/-
  Basic vocabulary of the model.  No imports: everything in `Mistletoe/Model` must stay
  free of Mathlib so that the native driver links.
-/
namespace Mistletoe

/-- Python `str` = sequence of code points. -/
abbrev Str := List Char

/-- Kinds of Python exceptions the model distinguishes. -/
inductive Err where
  | index | type | stopIteration | unbound | key | value
  | refusal (which : Nat)      -- 0 = no \verb delimiter, 1 = pygments ClassNotFound
  | fuel
  deriving Repr, DecidableEq, Inhabited

/-- Result of a Python operation that may raise. -/
inductive Res (α : Type) where
  | ok (a : α)
  | err (e : Err)
  deriving Repr, DecidableEq

namespace Res
@[inline] def bind {α β} (r : Res α) (f : α → Res β) : Res β :=
  match r with
  | ok a => f a
  | err e => err e
instance : Monad Res where
  pure := ok
  bind := Res.bind
def isOk {α} : Res α → Bool
  | ok _ => true
  | err _ => false
@[simp] theorem bind_ok {α β} (a : α) (f : α → Res β) : (Res.ok a >>= f) = f a := rfl
@[simp] theorem bind_err {α β} (e : Err) (f : α → Res β) : ((Res.err e : Res α) >>= f) = Res.err e := rfl
@[simp] theorem pure_eq {α} (a : α) : (pure a : Res α) = Res.ok a := rfl
end Res

/-- Python slice `s[a:b]` for `0 ≤ a`, `0 ≤ b` (never raises). -/
def slice {α} (s : List α) (a b : Nat) : List α := (s.drop a).take (b - a)

end Mistletoe
