/-
  Model of mistletoe/span_tokenizer.py over *abstract candidates*.

  The resolution algorithm (`find_tokens` ordering, `eval_tokens`, `eval_new_child`,
  `relation`, `ParseToken.append_child`, `make_tokens`) never looks at characters, only at the
  four offsets of each match and at three class attributes (`precedence`, `parse_inner`,
  position of the class in the token list).  A candidate is therefore the tuple
  `(start, stop, pstart, pend, prec, inner, cls, ord)`; the theorems quantify over all
  candidate lists, i.e. over every set of user-defined token classes at once.

  Python names are kept: `relation`, `evalTokens`, `evalNewChild`, `appendChild`,
  `makeTokens`.  `ParseToken.children` is kept in *reverse* order (last child first), so that
  `parent.children[-1]` is the head of the list and the right-spine descent of
  `append_child → eval_new_child → append_child` is a structural recursion.
-/
import Mistletoe.Model.Basic
namespace Mistletoe.Span

/-- One match of one token class: `m.start()`, `m.end()`, `m.start(parse_group)`,
    `m.end(parse_group)`, the class's `precedence` and `parse_inner`, the class's index in the
    token list and an identifier of the match (position in `find`'s result). -/
structure Cand where
  start  : Nat
  stop   : Nat
  pstart : Nat
  pend   : Nat
  prec   : Nat
  inner  : Bool
  cls    : Nat
  ord    : Nat
  deriving Repr, DecidableEq, Inhabited

/-- `ParseToken`: a candidate plus the children collected so far (**last child first**). -/
inductive PTok where
  | mk (c : Cand) (kidsRev : List PTok)
  deriving Repr, Inhabited

def PTok.c : PTok → Cand
  | .mk c _ => c
def PTok.kidsRev : PTok → List PTok
  | .mk _ k => k

/-- `span_tokenizer.relation(x, y)`: 0 precedes, 1 intersects, 2 contains, 3 ignore. -/
def relation (x y : Cand) : Nat :=
  if x.stop ≤ y.start then 0
  else if x.stop ≥ y.stop then
    if x.pstart ≤ y.start ∧ x.pend ≥ y.stop then 2
    else if x.pend ≤ y.start then 3
    else 1
  else 1

mutual
/-- `ParseToken.append_child`. -/
def appendChild : PTok → PTok → PTok
  | .mk c kids, child =>
    if c.inner then .mk c (evalNewChild kids child) else .mk c kids
/-- `eval_new_child` on the (reversed) child list of the parent; the empty-list case is the
    `if not self.children` branch of `append_child`. -/
def evalNewChild : List PTok → PTok → List PTok
  | [], child => [child]
  | last :: rest, child =>
    match relation last.c child.c with
    | 0 => child :: last :: rest
    | 1 => if last.c.prec < child.c.prec then child :: rest else last :: rest
    | 2 => appendChild last child :: rest
    | _ => last :: rest
end

/-- State of the loop in `tokenize`: `token_buffer` (reversed) and `prev`. -/
structure Acc where
  bufRev : List PTok
  prev   : PTok

/-- `eval_tokens(prev, curr, token_buffer)`; returns the new buffer and the new `prev`. -/
def evalTokens (a : Acc) (y : PTok) : Acc :=
  match relation a.prev.c y.c with
  | 0 => { bufRev := a.prev :: a.bufRev, prev := y }
  | 1 => if a.prev.c.prec ≥ y.c.prec then a else { a with prev := y }
  | 2 => { a with prev := appendChild a.prev y }
  | _ => a

/-- Stable insertion into a list sorted by `start` (Python's `sorted` is stable and
    `ParseToken.__lt__` compares `start` only). -/
def insertByStart (x : Cand) : List Cand → List Cand
  | [] => [x]
  | y :: ys => if x.start ≤ y.start then x :: y :: ys else y :: insertByStart x ys

/-- `sorted(tokens)`: stable sort by `start`.  (`foldr` keeps equal keys in input order.) -/
def sortByStart (cs : List Cand) : List Cand := cs.foldr insertByStart []

/-- The resolved forest, in source order: the `token_buffer` handed to `make_tokens`. -/
def resolveSorted : List Cand → List PTok
  | [] => []
  | c :: cs =>
    let a := (cs.map (fun c => PTok.mk c [])).foldl evalTokens { bufRev := [], prev := .mk c [] }
    (a.prev :: a.bufRev).reverse

/-- `find_tokens` + the loop of `tokenize`.  `cs` is the concatenation, class by class in token
    list order, of each class's `find` results in the order `find` returned them. -/
def resolve (cs : List Cand) : List PTok := resolveSorted (sortByStart cs)

/-- Output tokens: a gap filled by the fallback token, or a made token with its children. -/
inductive Out where
  | raw (a b : Nat)                       -- fallback_token(string[a:b])
  | tok (c : Cand) (kids : List Out)     -- kids = [] when `c.inner = false`
  deriving Repr, Inhabited

mutual
/-- `ParseToken.make`. -/
def make : PTok → Out
  | .mk c kidsRev =>
    if c.inner then .tok c (makeTokensRev kidsRev c.pstart c.pend) else .tok c []
/-- `make_tokens(tokens, start, end, …)` for a **reversed** token list.  Written so that the
    recursion is structural on the reversed list: the result for `t :: earlier` is the result for
    `earlier` cut at `t.start`, then `t`, then the final gap `[t.stop, end)`.
    `makeTokens_eq_loop` (Proofs/Span) shows this is the Python left-to-right loop. -/
def makeTokensRev : List PTok → Nat → Nat → List Out
  | [], s, e => if s ≠ e then [.raw s e] else []
  | t :: earlier, s, e =>
    makeBefore earlier s t.c.start ++ [make t] ++ (if t.c.stop ≠ e then [.raw t.c.stop e] else [])
/-- The part of `make_tokens`' loop before a token that starts at `upto`: earlier tokens with the
    gaps between them, and the gap before `upto` only `if token.start > prev_end`. -/
def makeBefore : List PTok → Nat → Nat → List Out
  | [], s, upto => if upto > s then [.raw s upto] else []
  | t :: earlier, s, upto =>
    makeBefore earlier s t.c.start ++ [make t] ++ (if upto > t.c.stop then [.raw t.c.stop upto] else [])
end

/-- `span_tokenizer.tokenize(string, token_types)` on candidates, for a string of length `n`. -/
def tokenize (cs : List Cand) (n : Nat) : List Out :=
  makeTokensRev (resolve cs).reverse 0 n

/-- Interval covered by an output token. -/
def Out.lo : Out → Nat
  | .raw a _ => a
  | .tok c _ => c.start
def Out.hi : Out → Nat
  | .raw _ b => b
  | .tok c _ => c.stop

mutual
/-- Source text recovered from an output token: raw text, delimiters and children. -/
def flattenOut (s : Str) : Out → Str
  | .raw a b => slice s a b
  | .tok c kids =>
    if c.inner then slice s c.start c.pstart ++ flattenOuts s kids ++ slice s c.pend c.stop
    else slice s c.start c.stop
def flattenOuts (s : Str) : List Out → Str
  | [] => []
  | o :: os => flattenOut s o ++ flattenOuts s os
end

end Mistletoe.Span
