import Driver.Codec
import Driver.Span
