import Driver.Codec
import Driver.Span
import Driver.Lines
import Driver.Ast
import Driver.Html
import Driver.Tree
import Driver.Toc
import Driver.Latex
