import Driver.Codec
import Driver.Span
import Driver.Lines
