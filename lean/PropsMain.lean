/-
  Second line-protocol driver: evaluates the executable HYPOTHESES of property theorems (decidable
  predicates defined next to the proofs) on concrete inputs, so that the harness can check, on the real
  code, the conclusion the theorem draws from them.  Kept apart from `Main.lean` so that the model driver
  never depends on proof files.
-/
import Driver.Codec
import Mistletoe.Props.C14
import Mistletoe.Props.C14_Wide
import Mistletoe.Props.C03
import Mistletoe.Props.C03_Lists
import Mistletoe.Props.C09
import Mistletoe.Props.C09_Code
import Mistletoe.Props.C09_Lists
import Mistletoe.Props.C19
import Mistletoe.Props.C10_Reflow
import Mistletoe.Props.C06
import Mistletoe.Props.C12_Shape
import Mistletoe.Props.C03_Code
import Mistletoe.Props.C07_Resolve
import Mistletoe.Props.C10_Lists
import Mistletoe.Props.C19_EndToEnd
import Mistletoe.Props.C19_Tokens
import Mistletoe.Props.C06_Html
import Mistletoe.Props.C09_Setext
import Mistletoe.Props.C09_Emph
import Mistletoe.Props.C03_Tables
import Mistletoe.Props.C07_DefLine
import Mistletoe.Props.C14_Cont
import Mistletoe.Props.C10_NoRebreak
import Driver.Ast
open Lean Mistletoe

/-- op "c14.hyps": {"lines": [String]} → the hypotheses of `C14_prose_text` evaluated on these lines -/
def c14Hyps (j : Json) : Except String Json := do
  let lines ← (← Driver.getArr j "lines").toList.mapM Driver.asStr
  let oneLine := lines.all Mistletoe.InertInline.oneLine
  let inertLines := lines.all (fun l => Props.C14.inertLine l)
  let prose := lines.all Mistletoe.InertInline.proseLine
  let body := Mistletoe.InertInline.inertBody (Document.joinNl (lines.map Py.strip))
  pure (Json.mkObj [("nonEmpty", Json.bool (!lines.isEmpty)), ("oneLine", Json.bool oneLine), ("inertLine", Json.bool inertLines),
                    ("proseLine", Json.bool prose), ("inertBody", Json.bool body),
                    ("inertBody2", Json.bool (Mistletoe.InertInline2.inertBody2 (Document.joinNl (lines.map Py.strip)))),
                    ("inertBody3", Json.bool (Mistletoe.InertInline2.inertBody3 (Document.joinNl (lines.map Py.strip)))),
                    ("inertBody4", Json.bool (Mistletoe.InertInline3.inertBody4 (Document.joinNl (lines.map Py.strip)))),
                    ("inertBody5", Json.bool (Mistletoe.InertInline5.inertBody5 (Document.joinNl (lines.map Py.strip)))),
                    -- first line `inertLine`, later lines only `inertCont` (Props/C14_Cont.lean)
                    ("inertLineCont", Json.bool (match lines with
                      | [] => false
                      | l0 :: tl => Props.C14.inertLine l0 && tl.all Props.C14.inertCont)),
                    ("text", Driver.str (Document.joinNl (lines.map Py.strip)))])

/-- a tree of the C03 fragment from JSON: {"k":"para","lines":[…]} | {"k":"heading","level":n,"text":…,"line":…}
    | {"k":"hr","line":…} | {"k":"quote","bare":b,"kids":[…]} -/
partial def treeOf (j : Json) : Except String Compose.T := do
  let k ← j.getObjValAs? String "k"
  match k with
  | "para" => do
    let ls ← (← Driver.getArr j "lines").toList.mapM Driver.asStr
    pure (.para ls)
  | "heading" => do
    let lv ← j.getObjValAs? Nat "level"
    pure (.heading lv (← Driver.getStr j "text") (← Driver.getStr j "line"))
  | "hr" => do pure (.hr (← Driver.getStr j "line"))
  | "quote" => do
    let b ← j.getObjValAs? Bool "bare"
    let kids ← (← Driver.getArr j "kids").toList.mapM treeOf
    pure (.quote b kids)
  | k => throw s!"tree kind {k}"

/-- op "c03.fragment": {"forest": [tree], "dq": Bool, "sq": Bool} → the hypothesis `T.oks` of `C03_html_partial`
    evaluated on the forest, the text the writer produces, and the HTML the theorem concludes -/
def c03Fragment (j : Json) : Except String Json := do
  let ts ← (← Driver.getArr j "forest").toList.mapM treeOf
  let o : Html.Opts := { dq := (j.getObjValAs? Bool "dq").toOption.getD false, sq := (j.getObjValAs? Bool "sq").toOption.getD false }
  pure (Json.mkObj [("ok", Json.bool (Compose.T.oks ts && !ts.isEmpty)),
                    ("text", Driver.str (Compose.writes ts).flatten),
                    ("html", Driver.str (Compose.htmlOf o ts)),
                    ("needs", Driver.nat (Compose.needs ts))])

/-- a block of the C09 fragment from JSON: {"k":"para","lines":[…]} | {"k":"heading","level":n,"text":…} | {"k":"hr","c":"*"} -/
def blkOf (j : Json) : Except String MdRound.Blk := do
  let k ← j.getObjValAs? String "k"
  match k with
  | "para" => do pure (.para (← (← Driver.getArr j "lines").toList.mapM Driver.asStr))
  | "heading" => do pure (.heading (← j.getObjValAs? Nat "level") (← Driver.getStr j "text"))
  | "hr" => do
    match (← Driver.getStr j "c") with
    | [c] => pure (.hr c)
    | _ => throw "hr: one character"
  | k => throw s!"block kind {k}"

/-- op "c09.fragment": {"blocks": [block, …] (non-empty), "depth": k} → the hypotheses of `C09_blocks_roundtrip_markdown`
    (`Blk.ok` of every block, tab-free lines) evaluated on the blocks, and the text the theorem speaks about
    (the blocks separated by single empty lines behind `k` markers "> ") -/
def c09Fragment (j : Json) : Except String Json := do
  let bs ← (← Driver.getArr j "blocks").toList.mapM blkOf
  let k := (j.getObjValAs? Nat "depth").toOption.getD 0
  match bs with
  | [] => throw "blocks: empty"
  | it :: rest =>
    let lines := MdRound.itemsLines it rest
    let ok := it.ok && rest.all (·.ok) && lines.all (fun l => !l.contains '\t')
    pure (Json.mkObj [("ok", Json.bool ok), ("text", Driver.str (Props.C09.quoted k lines).flatten)])

mutual
partial def forestJson : List Block.O → Json
  | os => Json.arr (os.map nodeJson).toArray
partial def nodeJson : Block.O → Json
  | .node t kids => Json.mkObj [("t", Driver.str t), ("kids", forestJson kids)]
end

/-- op "c19.outline": {"headings": [[level, title], …]} → the hypotheses of `C19_toc_nested` (`isOutline`, plain titles)
    and the forest `toForest hs` the theorem says the toc list mirrors -/
def c19Outline (j : Json) : Except String Json := do
  let hs ← (← Driver.getArr j "headings").toList.mapM (fun h => do
    let a ← Driver.asArr h
    match a.toList with
    | [l, t] => do pure ((← l.getNat?), (← Driver.asStr t))
    | _ => throw "heading: [level, title]")
  let ok := Block.isOutline hs && hs.all (fun h => Block.plainTitle h.2)
  pure (Json.mkObj [("ok", Json.bool ok), ("forest", forestJson (Block.toForest hs))])

/-- op "c10.reflow": {"paras": [[[word, …] (a line), …] (a paragraph), …] (non-empty), "L": n} → the hypothesis `plainPara`
    of `C10_prose_reflow_markdown_partial` on every paragraph, the text of the document, and the text the theorem says
    `MarkdownRenderer(max_line_length=L)` returns -/
def c10Reflow (j : Json) : Except String Json := do
  let paras ← (← Driver.getArr j "paras").toList.mapM (fun p => do
    (← Driver.asArr p).toList.mapM (fun l => do (← Driver.asArr l).toList.mapM Driver.asStr))
  let L ← j.getObjValAs? Nat "L"
  match paras with
  | [] => throw "paras: empty"
  | p :: rest =>
    let ok := Reflow.plainPara p && rest.all Reflow.plainPara && decide (1 ≤ L)
    let k := (j.getObjValAs? Nat "depth").toOption.getD 0
    -- inside k block quotes (`C10_quoted_reflow_partial`): the budget is max (L - 2k) 1; k = 0 is `C10_prose_reflow_markdown_partial`
    let B := ReflowQuote.qBudget L k
    pure (Json.mkObj [("ok", Json.bool ok), ("text", Driver.str (ReflowQuote.textOfQ k p rest)),
                      ("expected", Driver.str (ReflowQuote.textOfQ k (Reflow.reflowG B p) (rest.map (Reflow.reflowG B))))])

/-- op "c06.spec": {"text": s} → the hypotheses of `C06_emphasis_is_spec_partial` (`plain`, `stdWs`) and the emphasis spans
    (start, text start, text end, stop, strong) the Lean specification of CommonMark 6.2 computes for `s` -/
def c06Spec (j : Json) : Except String Json := do
  let s ← Driver.getStr j "text"
  -- the specification with backslash escapes; on texts without backslash it is the plain one (`C06_specs_coincide`)
  let spans := Spec.EmphasisEsc.spansEsc s
  pure (Json.mkObj [("plain", Json.bool (Spec.EmphasisEsc.plainEsc s)), ("stdWs", Json.bool (EmphRefine.stdWs s)),
    -- the extra hypotheses of `C06_html_is_spec_esc_partial` (one line, no "~~") and the specification's HTML of the text
    ("htmlOk", Json.bool (InertInline.tildeOk s && !s.contains '\n')),
    ("html", Driver.str (Spec.EmphasisHtml.specHtmlEscQ false false s)),
    ("spans", Json.arr (spans.map (fun (a, b, c, d, st) => Json.arr #[Driver.nat a, Driver.nat b, Driver.nat c, Driver.nat d, Json.bool st])).toArray)])

/-- op "c12.shape": {"doc": exported token tree} → `Doc.shapeOk`, the conclusion of `C12_parsed_shape`, evaluated on a REAL
    token tree as exported by harness/export.py -/
def c12Shape (j : Json) : Except String Json := do
  let d ← Driver.Ast.docOf (← j.getObjVal? "doc")
  pure (Json.mkObj [("shapeOk", Json.bool d.shapeOk)])

/-- a block of the extended C09 fragment: the three kinds of `blkOf` plus {"k":"fence","delim":…,"info":…,"body":[…]} and
    {"k":"icode","lines":[…]} -/
def blk2Of (j : Json) : Except String MdRound.Blk2 := do
  let k ← j.getObjValAs? String "k"
  match k with
  | "fence" => do
    pure (.fence (← Driver.getStr j "delim") (← Driver.getStr j "info") (← (← Driver.getArr j "body").toList.mapM Driver.asStr))
  | "icode" => do pure (.icode (← (← Driver.getArr j "lines").toList.mapM Driver.asStr))
  | _ => do pure (.blk (← blkOf j))

/-- op "c09.fragment2": {"blocks": [block, …] (non-empty), "depth": k} → the hypotheses of `C09_code_blocks_roundtrip_partial`
    (`Blk2.ok` of every block, `adjOk`, tab-free lines when k > 0) and the text the theorem speaks about -/
def c09Fragment2 (j : Json) : Except String Json := do
  let bs ← (← Driver.getArr j "blocks").toList.mapM blk2Of
  let k := (j.getObjValAs? Nat "depth").toOption.getD 0
  match bs with
  | [] => throw "blocks: empty"
  | it :: rest =>
    let lines := MdRound.itemsLines2 it rest
    let ok := it.ok && rest.all (·.ok) && MdRound.adjOk it rest && (k == 0 || lines.all (fun l => !l.contains '\t'))
    pure (Json.mkObj [("ok", Json.bool ok), ("text", Driver.str (MdRound.qStrs k lines).flatten)])

/-- a tree of the C03 fragment with lists: the four kinds of `treeOf` plus
    {"k":"list","ordered":b,"start":n,"marker":"-","pad":n,"loose":b,"items":[[tree, …], …]} -/
partial def tree2Of (j : Json) : Except String ComposeL.T2 := do
  let k ← j.getObjValAs? String "k"
  match k with
  | "para" => do pure (.para (← (← Driver.getArr j "lines").toList.mapM Driver.asStr))
  | "heading" => do pure (.heading (← j.getObjValAs? Nat "level") (← Driver.getStr j "text") (← Driver.getStr j "line"))
  | "hr" => do pure (.hr (← Driver.getStr j "line"))
  | "quote" => do
    pure (.quote (← j.getObjValAs? Bool "bare") (← (← Driver.getArr j "kids").toList.mapM tree2Of))
  | "list" => do
    let mk ← match (← Driver.getStr j "marker") with
      | [c] => pure c
      | _ => throw "marker: one character"
    let items ← (← Driver.getArr j "items").toList.mapM (fun it => do (← Driver.asArr it).toList.mapM tree2Of)
    pure (.list (← j.getObjValAs? Bool "ordered") (← j.getObjValAs? Nat "start") mk (← j.getObjValAs? Nat "pad")
      (← j.getObjValAs? Bool "loose") items)
  | k => throw s!"tree kind {k}"

/-- op "c03.fragment2": {"forest": [tree], "dq", "sq"} → the hypothesis `T2.oks` of `C03_lists_html_partial`, the text the
    writer produces and the HTML the theorem concludes -/
def c03Fragment2 (j : Json) : Except String Json := do
  let ts ← (← Driver.getArr j "forest").toList.mapM tree2Of
  let o : Html.Opts := { dq := (j.getObjValAs? Bool "dq").toOption.getD false, sq := (j.getObjValAs? Bool "sq").toOption.getD false }
  pure (Json.mkObj [("ok", Json.bool (ComposeL.T2.oks ts && !ts.isEmpty)),
                    ("text", Driver.str (ComposeL.writes2 ts).flatten),
                    ("html", Driver.str (ComposeL.htmlOf2 o ts))])

/-- a tree of the C09 fragment with lists: a leaf block of `blkOf` or
    {"k":"list","ordered":b,"start":n,"marker":"-","pad":n,"loose":b,"items":[[tree, …], …]} -/
partial def mbOf (j : Json) : Except String MdRound.MB := do
  let k ← j.getObjValAs? String "k"
  match k with
  | "list" => do
    let mk ← match (← Driver.getStr j "marker") with
      | [c] => pure c
      | _ => throw "marker: one character"
    let items ← (← Driver.getArr j "items").toList.mapM (fun it => do (← Driver.asArr it).toList.mapM mbOf)
    pure (.list (← j.getObjValAs? Bool "ordered") (← j.getObjValAs? Nat "start") mk (← j.getObjValAs? Nat "pad")
      (← j.getObjValAs? Bool "loose") items)
  | _ => do pure (.leaf (← blkOf j))

/-- op "c09.lists": {"forest": [tree], "depth": k, "nw": Bool} → the hypotheses of `C09_lists_roundtrip_partial` (`MB.oks nw`,
    tab-free lines when k > 0) and the text the theorem speaks about -/
def c09Lists (j : Json) : Except String Json := do
  let ts ← (← Driver.getArr j "forest").toList.mapM mbOf
  let k := (j.getObjValAs? Nat "depth").toOption.getD 0
  let nw := (j.getObjValAs? Bool "nw").toOption.getD false
  let lines := MdRound.wrs ts
  let ok := !ts.isEmpty && MdRound.MB.oks nw ts && (k == 0 || lines.all (fun l => !l.contains '\t'))
  pure (Json.mkObj [("ok", Json.bool ok), ("text", Driver.str (Props.C09.quoted k lines).flatten)])

/-- a tree of the C03 fragment with code blocks and setext headings: the kinds of `tree2Of` plus
    {"k":"fence","ind":n,"delim":…,"info":…,"body":[line…],"close":line} and {"k":"setext","level":n,"lines":[…],"ul":line} -/
partial def tree3Of (j : Json) : Except String ComposeC.T3 := do
  let k ← j.getObjValAs? String "k"
  match k with
  | "para" => do pure (.para (← (← Driver.getArr j "lines").toList.mapM Driver.asStr))
  | "heading" => do pure (.heading (← j.getObjValAs? Nat "level") (← Driver.getStr j "text") (← Driver.getStr j "line"))
  | "hr" => do pure (.hr (← Driver.getStr j "line"))
  | "quote" => do
    pure (.quote (← j.getObjValAs? Bool "bare") (← (← Driver.getArr j "kids").toList.mapM tree3Of))
  | "list" => do
    let mk ← match (← Driver.getStr j "marker") with
      | [c] => pure c
      | _ => throw "marker: one character"
    let items ← (← Driver.getArr j "items").toList.mapM (fun it => do (← Driver.asArr it).toList.mapM tree3Of)
    pure (.list (← j.getObjValAs? Bool "ordered") (← j.getObjValAs? Nat "start") mk (← j.getObjValAs? Nat "pad")
      (← j.getObjValAs? Bool "loose") items)
  | "fence" => do
    pure (.fence (← j.getObjValAs? Nat "ind") (← Driver.getStr j "delim") (← Driver.getStr j "info")
      (← (← Driver.getArr j "body").toList.mapM Driver.asStr) (← Driver.getStr j "close"))
  | "setext" => do
    pure (.setext (← j.getObjValAs? Nat "level") (← (← Driver.getArr j "lines").toList.mapM Driver.asStr) (← Driver.getStr j "ul"))
  | k => throw s!"tree kind {k}"

/-- op "c03.fragment3": {"forest": [tree], "dq", "sq"} → the hypothesis `T3.oks` of `C03_code_html_partial`, the text the
    writer produces and the HTML the theorem concludes -/
def c03Fragment3 (j : Json) : Except String Json := do
  let ts ← (← Driver.getArr j "forest").toList.mapM tree3Of
  let o : Html.Opts := { dq := (j.getObjValAs? Bool "dq").toOption.getD false, sq := (j.getObjValAs? Bool "sq").toOption.getD false }
  pure (Json.mkObj [("ok", Json.bool (ComposeC.T3.oks ts && !ts.isEmpty)),
                    ("text", Driver.str (ComposeC.writes3 ts).flatten),
                    ("html", Driver.str (ComposeC.htmlOf3 o ts))])

/-- op "c07.resolve": {"defLbl","dest","pre","lbl","post"} → the hypotheses of `C07_shortcut_document_text_partial` (URL-safe
    destination, `DocText`, the ends of the paragraph line, and the block-phase assumption `blockPhaseIs`, all evaluated), the
    document text and the HTML the theorem concludes -/
def c07Resolve (j : Json) : Except String Json := do
  let defLbl ← Driver.getStr j "defLbl"
  let dest ← Driver.getStr j "dest"
  let pre ← Driver.getStr j "pre"
  let lbl ← Driver.getStr j "lbl"
  let post ← Driver.getStr j "post"
  let text := RefResolve.docText defLbl dest pre lbl post
  match Config.html with
  | none => throw "Config.html"
  | some cfg =>
    let gas := text.length + 20
    let ok := dest.all RefResolve.urlCh && pre.all RefResolve.textCh && lbl.all RefResolve.textCh && !Py.isBlank lbl
      && post.all RefResolve.textCh && post.head? != some '('
      && (match pre.head? with | some c => !pyIsSpace c | none => true)
      && (match post.getLast? with | some c => !pyIsSpace c | none => true)
      && RefResolve.blockPhaseIs cfg.block gas (Lines.normalize (.str text))
          { label := defLbl, dest := dest, title := [], destType := "uri".toList, titleDelim := none }
          (pre ++ ['['] ++ lbl ++ [']'] ++ post ++ ['\n'])
    let html := if Footnotes.normalizeLabel defLbl = Footnotes.normalizeLabel lbl
      then "<p>".toList ++ pre ++ "<a href=\"".toList ++ dest ++ "\">".toList ++ lbl ++ "</a>".toList ++ post ++ "</p>\n".toList
      else "<p>".toList ++ pre ++ ['['] ++ lbl ++ [']'] ++ post ++ "</p>\n".toList
    pure (Json.mkObj [("ok", Json.bool ok), ("text", Driver.str text), ("html", Driver.str html)])

/-- a tree of the C10 fragment with lists: {"k":"para","lines":[[word…]…]} or
    {"k":"list","ordered":b,"start":n,"marker":"-","pad":n,"loose":b,"items":[[tree, …], …]} -/
partial def ptOf (j : Json) : Except String ReflowList.PT := do
  let k ← j.getObjValAs? String "k"
  match k with
  | "para" => do
    pure (.para (← (← Driver.getArr j "lines").toList.mapM (fun l => do (← Driver.asArr l).toList.mapM Driver.asStr)))
  | "list" => do
    let mk ← match (← Driver.getStr j "marker") with
      | [c] => pure c
      | _ => throw "marker: one character"
    let items ← (← Driver.getArr j "items").toList.mapM (fun it => do (← Driver.asArr it).toList.mapM ptOf)
    pure (.list (← j.getObjValAs? Bool "ordered") (← j.getObjValAs? Nat "start") mk (← j.getObjValAs? Nat "pad")
      (← j.getObjValAs? Bool "loose") items)
  | k => throw s!"tree kind {k}"

/-- op "c10.lists": {"forest": [tree], "L": n, "depth": k, "nw": Bool} → the hypotheses of `C10_list_reflow_quoted_partial`
    (`oksP nw`, non-empty, 1 ≤ L), the text of the document and the text the theorem says `MarkdownRenderer(max_line_length=L)`
    returns -/
def c10Lists (j : Json) : Except String Json := do
  let ts ← (← Driver.getArr j "forest").toList.mapM ptOf
  let L ← j.getObjValAs? Nat "L"
  let k := (j.getObjValAs? Nat "depth").toOption.getD 0
  let nw := (j.getObjValAs? Bool "nw").toOption.getD false
  let ok := !ts.isEmpty && ReflowList.oksP nw ts && decide (1 ≤ L)
  pure (Json.mkObj [("ok", Json.bool ok), ("text", Driver.str (ReflowList.textLQ k ts)),
                    ("expected", Driver.str (ReflowList.textLQ k (ReflowList.reflows (ReflowQuote.qBudget L k) 0 ts)))])

/-- op "c19.document": {"text", "depth", "omit_title"} → the text parsed by the MODEL under the TocRenderer's token lists, the
    hypotheses of `C19_text_toc_current` evaluated on the parsed tree (`plainHeadings`, `isOutline`, `titlesPlain`), the
    headings the theorem says `_headings` holds and the forest the toc list mirrors -/
def c19Document (j : Json) : Except String Json := do
  let t ← Driver.getStr j "text"
  let cfg : Toc.Cfg := { depth := (j.getObjValAs? Nat "depth").toOption.getD 5,
                          omitTitle := (j.getObjValAs? Bool "omit_title").toOption.getD true }
  let q : Html.Quotes := ⟨false, false⟩
  match Config.cfgOf Gen.RenderMaps.tocBlockTokens Gen.RenderMaps.tocSpanTokens with
  | none => throw "toc configuration"
  | some pcfg =>
    match Document.parse pcfg (2 * t.length + 50) t with
    | .err _ => pure (Json.mkObj [("ok", Json.bool false)])
    | .ok d =>
      let hs := Props.C19.expectedHs cfg d
      let plain := Props.C19.plainHeadings q d
      let ok := plain && Block.isOutline hs && Props.C19.titlesPlain hs
      pure (Json.mkObj [("ok", Json.bool ok), ("plain", Json.bool plain),
        -- the extra hypothesis of `C19_document_toc_tokens`: every qualifying title is inert inline text
        ("titlesInert", Json.bool (Props.C19.titlesInert hs)),
        ("headings", Json.arr (hs.map (fun h => Json.arr #[Driver.nat h.1, Driver.str h.2])).toArray),
        ("forest", forestJson (Block.toForest hs))])

/-- a block of the C09 fragment with setext headings and HTML blocks: the kinds of `blk2Of` plus
    {"k":"setext","lines":[…],"ind":n,"c":"=","len":n} and {"k":"html","lines":[…]} -/
def blk3Of (j : Json) : Except String MdRound.Blk3 := do
  let k ← j.getObjValAs? String "k"
  match k with
  | "setext" => do
    let c ← match (← Driver.getStr j "c") with
      | [c] => pure c
      | _ => throw "c: one character"
    pure (.setext (← (← Driver.getArr j "lines").toList.mapM Driver.asStr) (← j.getObjValAs? Nat "ind") c (← j.getObjValAs? Nat "len"))
  | "html" => do pure (.html (← (← Driver.getArr j "lines").toList.mapM Driver.asStr))
  | _ => do pure (.blk2 (← blk2Of j))

/-- op "c09.fragment3": {"blocks": [block, …] (non-empty), "depth": k} → the hypotheses of `C09_setext_roundtrip_partial` (k = 0) /
    `C09_quoted_html_roundtrip_partial` (k > 0: no setext heading, tab-free lines) and the text the theorem speaks about -/
def c09Fragment3 (j : Json) : Except String Json := do
  let bs ← (← Driver.getArr j "blocks").toList.mapM blk3Of
  let k := (j.getObjValAs? Nat "depth").toOption.getD 0
  match bs with
  | [] => throw "blocks: empty"
  | it :: rest =>
    let lines := MdRound.itemsLines3 it rest
    let ok := it.ok && rest.all (·.ok) && MdRound.adjOk3 it rest &&
      (k == 0 || ((it :: rest).all (fun x => !x.isSetext) && lines.all (fun l => !l.contains '\t')))
    pure (Json.mkObj [("ok", Json.bool ok), ("text", Driver.str (MdRound.qStrs k lines).flatten)])

/-- op "c09.emph": {"blocks": [block | {"k":"emph","s":line text}, …] (non-empty), "depth": k} → the hypotheses of
    `C09_emphasis_blocks_roundtrip_partial` (`Blk3.ok`, `adjOk3`, tab-free lines when k > 0) and the text it speaks about -/
def c09Emph (j : Json) : Except String Json := do
  let bs ← (← Driver.getArr j "blocks").toList.mapM (fun b => do
    let k ← b.getObjValAs? String "k"
    if k == "emph" then pure (MdRoundEmph.Blk3.emph (← Driver.getStr b "s")) else pure (MdRoundEmph.Blk3.blk2 (← blk2Of b)))
  let k := (j.getObjValAs? Nat "depth").toOption.getD 0
  match bs with
  | [] => throw "blocks: empty"
  | it :: rest =>
    let lines := MdRoundEmph.itemsLines3 it rest
    let ok := it.ok && rest.all (·.ok) && MdRoundEmph.adjOk3 it rest && (k == 0 || lines.all (fun l => !l.contains '\t'))
    pure (Json.mkObj [("ok", Json.bool ok), ("text", Driver.str (MdRound.qStrs k lines).flatten)])

/-- a row of a table as written: {"lead":b,"trail":b,"cells":[…]} -/
def rowOf (j : Json) : Except String ComposeT.Row := do
  pure { lead := (← j.getObjValAs? Bool "lead"), trail := (← j.getObjValAs? Bool "trail"),
         cells := (← (← Driver.getArr j "cells").toList.mapM Driver.asStr) }

/-- a tree of the C03 fragment with tables and indented code: the kinds of `tree3Of` plus
    {"k":"table","hdr":row,"del":{"lead","trail","cells":[[padL,cl,dashes,cr,padR]…]},"rows":[row…]} and {"k":"icode","lines":[…]} -/
partial def tree4Of (j : Json) : Except String ComposeT.T4 := do
  let k ← j.getObjValAs? String "k"
  match k with
  | "para" => do pure (.para (← (← Driver.getArr j "lines").toList.mapM Driver.asStr))
  | "heading" => do pure (.heading (← j.getObjValAs? Nat "level") (← Driver.getStr j "text") (← Driver.getStr j "line"))
  | "hr" => do pure (.hr (← Driver.getStr j "line"))
  | "quote" => do
    pure (.quote (← j.getObjValAs? Bool "bare") (← (← Driver.getArr j "kids").toList.mapM tree4Of))
  | "list" => do
    let mk ← match (← Driver.getStr j "marker") with
      | [c] => pure c
      | _ => throw "marker: one character"
    let items ← (← Driver.getArr j "items").toList.mapM (fun it => do (← Driver.asArr it).toList.mapM tree4Of)
    pure (.list (← j.getObjValAs? Bool "ordered") (← j.getObjValAs? Nat "start") mk (← j.getObjValAs? Nat "pad")
      (← j.getObjValAs? Bool "loose") items)
  | "fence" => do
    pure (.fence (← j.getObjValAs? Nat "ind") (← Driver.getStr j "delim") (← Driver.getStr j "info")
      (← (← Driver.getArr j "body").toList.mapM Driver.asStr) (← Driver.getStr j "close"))
  | "setext" => do
    pure (.setext (← j.getObjValAs? Nat "level") (← (← Driver.getArr j "lines").toList.mapM Driver.asStr) (← Driver.getStr j "ul"))
  | "table" => do
    let dj ← j.getObjVal? "del"
    let dcells ← (← Driver.getArr dj "cells").toList.mapM (fun c => do
      match (← Driver.asArr c).toList with
      | [a, b, d, e, f] => do
        pure ({ padL := (← a.getNat?), cl := (← b.getBool?), dashes := (← d.getNat?), cr := (← e.getBool?), padR := (← f.getNat?) } : ComposeT.DCell)
      | _ => throw "delimiter cell: [padL, cl, dashes, cr, padR]")
    let del : ComposeT.DRow := { lead := (← dj.getObjValAs? Bool "lead"), trail := (← dj.getObjValAs? Bool "trail"), cells := dcells }
    pure (.leaf (.table (← rowOf (← j.getObjVal? "hdr")) del (← (← Driver.getArr j "rows").toList.mapM rowOf)))
  | "icode" => do pure (.leaf (.icode (← (← Driver.getArr j "lines").toList.mapM Driver.asStr)))
  | k => throw s!"tree kind {k}"

/-- op "c03.fragment4": {"forest": [tree], "dq", "sq"} → the hypothesis `T4.oks` of `C03_table_html_partial`, the text the
    writer produces and the HTML the theorem concludes -/
def c03Fragment4 (j : Json) : Except String Json := do
  let ts ← (← Driver.getArr j "forest").toList.mapM tree4Of
  let o : Html.Opts := { dq := (j.getObjValAs? Bool "dq").toOption.getD false, sq := (j.getObjValAs? Bool "sq").toOption.getD false }
  pure (Json.mkObj [("ok", Json.bool (ComposeT.T4.oks ts && !ts.isEmpty)),
                    ("text", Driver.str (ComposeT.writes4 ts).flatten),
                    ("html", Driver.str (ComposeT.htmlOf4 o ts))])

/-- op "c07.defs": {"defs":[{"lbl","dest","title"?}…] (non-empty), "pre","lbl","post"} → the hypotheses of `C07_defs_document`
    (all decidable, NO assumption about the block phase), the document text and the HTML the theorem concludes -/
def c07Defs (j : Json) : Except String Json := do
  let ds ← (← Driver.getArr j "defs").toList.mapM (fun d => do
    let title ← match d.getObjVal? "title" with
      | .ok (Json.str t) => pure (some t.toList)
      | _ => pure none
    pure ({ lbl := (← Driver.getStr d "lbl"), dest := (← Driver.getStr d "dest"), title := title } : DefLine.DefSpec))
  let pre ← Driver.getStr j "pre"
  let lbl ← Driver.getStr j "lbl"
  let post ← Driver.getStr j "post"
  match ds with
  | [] => throw "defs: empty"
  | _ =>
    let ok := ds.all (·.ok) && ds.all (fun d => match d.title with | some t => !t.contains '&' | none => true)
      && pre.all RefResolve.textCh && lbl.all RefResolve.textCh && !Py.isBlank lbl && post.all RefResolve.textCh && post.head? != some '('
      && (match pre.head? with | some c => !pyIsSpace c | none => true)
      && (match post.getLast? with | some c => !pyIsSpace c | none => true)
      && (pre ++ lbl ++ post).all (fun c => !isLineSep c)
      && Props.C14.inertLine (DefLine.refLine pre lbl post)
    pure (Json.mkObj [("ok", Json.bool ok), ("text", Driver.str (DefLine.defsText ds pre lbl post)),
                      ("html", Driver.str (DefLine.refHtml ds pre lbl post))])

/-- op "c10.rigid": {"doc": exported token tree} → the hypothesis `rigidDeepAll d.kids` of `C10_not_rebroken_document`, evaluated on
    a REAL token tree as exported by harness/export.py -/
def c10Rigid (j : Json) : Except String Json := do
  let d ← Driver.Ast.docOf (← j.getObjVal? "doc")
  pure (Json.mkObj [("rigid", Json.bool (Proofs.NoRebreak.rigidDeepAll d.kids))])

def dispatch (op : String) (j : Json) : Except String Json :=
  match op with
  | "c14.hyps" => c14Hyps j
  | "c03.fragment" => c03Fragment j
  | "c03.fragment2" => c03Fragment2 j
  | "c03.fragment3" => c03Fragment3 j
  | "c03.fragment4" => c03Fragment4 j
  | "c07.defs" => c07Defs j
  | "c07.resolve" => c07Resolve j
  | "c10.lists" => c10Lists j
  | "c10.rigid" => c10Rigid j
  | "c09.fragment" => c09Fragment j
  | "c09.fragment2" => c09Fragment2 j
  | "c09.fragment3" => c09Fragment3 j
  | "c09.emph" => c09Emph j
  | "c09.lists" => c09Lists j
  | "c19.outline" => c19Outline j
  | "c19.document" => c19Document j
  | "c10.reflow" => c10Reflow j
  | "c06.spec" => c06Spec j
  | "c12.shape" => c12Shape j
  | "ping" => pure (Json.str "pong")
  | _ => throw s!"unknown op {op}"

def handle (line : String) : String :=
  match Json.parse line with
  | .error e => Json.compress (Json.mkObj [("error", Json.str s!"parse: {e}")])
  | .ok j =>
    match j.getObjValAs? String "op" with
    | .error e => Json.compress (Json.mkObj [("error", Json.str e)])
    | .ok op =>
      match dispatch op j with
      | .ok r => Json.compress (Json.mkObj [("ok", r)])
      | .error e => Json.compress (Json.mkObj [("error", Json.str e)])

partial def loop (h : IO.FS.Stream) (out : IO.FS.Stream) : IO Unit := do
  let line ← h.getLine
  if line.isEmpty then return ()
  out.putStrLn (handle line)
  loop h out

def main : IO Unit := do
  loop (← IO.getStdin) (← IO.getStdout)
