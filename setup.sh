#!/bin/sh
# Build the framework from files on disk only (offline): regenerate Gen/* from /repo, build the
# Lean library (model + proofs + property theorems) and the native model driver.
set -e
HERE="$(cd "$(dirname "$0")" && pwd)"
cd "$HERE"
/venv/bin/python harness/extract.py
cd lean
lake build Mistletoe driver
