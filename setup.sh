#!/bin/sh
# Build the framework from files on disk only (offline): regenerate Gen/* from /repo, build the
# native model driver and the Lean library (model + proofs + property theorems).  Each check
# rebuilds its own import cone again (a no-op when nothing changed), so a failure of one module
# here does not stop the others from being built and checked.
HERE="$(cd "$(dirname "$0")" && pwd)"
cd "$HERE"
/venv/bin/python harness/extract.py || exit 1
cd lean
lake build driver || exit 1
lake build Mistletoe || echo "setup: some library modules failed to build (the checks that need them will report it)"
lake build propsdriver || echo "setup: the hypothesis driver failed to build (C03/C14 will report it)"
exit 0
